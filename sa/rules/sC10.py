"""C10 rules of the fourth strengthening round (session G11).

C10-PREFIX  prefix -> (kind, rawness, builder, lexicon state): p_string_literal, p_ft_string_literal and the scanner's
            begin_(ft_)string_action folded on every prefix the lexicon accepts, compared with the checker's own CPython
C10-CAT     implicit concatenation: p_cat_string_literal folded on every pair / triple of literal kinds
C10-TAB     module string table: generate_pystring_constants folded on every mix of text / interned / bytes constants,
            the emitted loops and #defines interpreted
C10-PYKEY   the per-C-string cache of Python string constants returns what a fresh request would create
C10-STRFOLD constant folding of string literals keeps the str and the bytes representation in step
C10-CLEN    lengths handed to C (sizeof of a string constant, the length parameter of the decompressor)

Everything folds ASTs with sa/rules/pC10.Folder / sa/rules/sC25.ObjFolder; nothing of the repository is imported or run."""
import ast, itertools, re, warnings

from ..core import Rule, AnalysisError, node_src
from ..engine import tables
from .pC10 import Folder, Closure, Env, Opaque, Unfoldable, ClassRef, load_lexicon, PARSING, ENCODING, LEXICON, SCANNING, CODE
from .sC25 import ObjFolder, Inst, Bound, NoAttribute

FUTURE = 'Cython/Compiler/Future.py'
ERRORS = 'Cython/Compiler/Errors.py'
OPT = 'Cython/Compiler/Optimize.py'
EXN = 'Cython/Compiler/ExprNodes.py'
UL = '<unicode_literals>'


class ES(str):
    """stands for StringEncoding.EncodedString: a str with an `encoding` attribute"""
    encoding = None


class BL(bytes):
    """stands for StringEncoding.BytesLiteral: bytes with an `encoding` attribute"""
    encoding = None


def _string_models(f):
    def bytes_literal(s, encoding):
        if not isinstance(s, (bytes, bytearray)):
            raise AssertionError('bytes_literal(%r)' % (s,))
        b = BL(s)
        b.encoding = encoding
        return b

    def encoded_string(s, encoding=None):
        e = ES(s)
        if encoding is not None:
            e.encoding = encoding
        return e
    for rel in (ENCODING,):
        f._globals[(rel, 'bytes_literal')] = bytes_literal
        f._globals[(rel, 'encoded_string')] = encoded_string
        f._globals[(rel, 'EncodedString')] = lambda s: ES(s)
        f._globals[(rel, 'BytesLiteral')] = lambda s: BL(s)


# =====================================================================================================
# C10-PREFIX
# =====================================================================================================

def _all_prefixes(chars, maxlen=2):
    out = {''}
    for n in range(1, maxlen + 1):
        for t in itertools.product(chars, repeat=n):
            out.add(''.join(t))
    return sorted(out)


def _cpython_prefix_reading(prefix):
    """(is bytes, is raw) as the checker's own CPython reads  <prefix>'\\n'  ; None if CPython rejects the prefix."""
    with warnings.catch_warnings():
        warnings.simplefilter('ignore')
        try:
            v = ast.literal_eval(prefix + "'\\n'")
        except (SyntaxError, ValueError):
            return None
    return isinstance(v, bytes), len(v) == 2


class PrefixModel:
    def __init__(self, ctx):
        self.ctx, self.ix = ctx, ctx.index
        self.f = ObjFolder(ctx, construct=self._construct)
        f = self.f
        f._globals[(FUTURE, 'unicode_literals')] = UL
        self.errors = []
        f._globals[(ERRORS, 'error')] = lambda *a, **k: self.errors.append(a)
        f._globals[(ERRORS, 'warning')] = lambda *a, **k: None
        self.reads = []
        f._globals[(PARSING, 'p_string_literal_shared_read')] = self._shared_read
        self.middles = []
        f._globals[(PARSING, 'p_ft_string_middles')] = self._middles
        self.psl = f.function(PARSING, 'p_string_literal')
        self.pft = f.function(PARSING, 'p_ft_string_literal')

    def _construct(self, folder, cref, args, kwargs):
        nm = cref.node.name
        if nm in ('UnicodeLiteralBuilder', 'BytesLiteralBuilder', 'StrLiteralBuilder'):
            res = {'UnicodeLiteralBuilder': (None, 'U'), 'BytesLiteralBuilder': (b'B', None), 'StrLiteralBuilder': (b'B', 'U')}[nm]
            return Inst(folder.classinfo(cref), dict(getstrings=lambda: res, getchar=lambda: b'B', _builder=nm), label=nm)
        return NotImplemented

    def _shared_read(self, s, pos, chars, kind, is_raw=None):
        self.reads.append((kind, is_raw, chars.attrs.get('_builder') if isinstance(chars, Inst) else None))
        return None

    def _middles(self, s, is_raw, is_single_quoted, is_format_string=None, tf_string_kind=None):
        self.middles.append((bool(is_raw), bool(is_single_quoted), tf_string_kind))
        s.attrs['sy'] = 'END_FT_STRING'
        return ['<middles>']

    def scanner(self, sy, text, level, ul):
        s = Inst(None, dict(sy=sy, systring=text, source_encoding='UTF-8',
                            context=Inst(None, dict(language_level=level, future_directives={UL} if ul else set()))), label='scanner')
        s.attrs['position'] = lambda: ('<src>', 1, 0)

        def nxt():
            s.attrs['sy'] = 'END_STRING' if s.attrs['sy'] in ('BEGIN_STRING',) else 'EOF' if s.attrs['sy'] == 'END_STRING' else s.attrs['sy']
        s.attrs['next'] = nxt
        s.attrs['error'] = lambda *a, **k: self.errors.append(a)
        s.attrs['expected'] = lambda *a, **k: self.errors.append(a)
        return s

    def string_literal(self, prefix, quote, level, ul, kind_override=None):
        self.errors, self.reads = [], []
        s = self.scanner('BEGIN_STRING', prefix + quote, level, ul)
        res = self.psl(s, kind_override) if kind_override is not None else self.psl(s)
        return res, list(self.reads), list(self.errors)

    def ft_literal(self, prefix, quote):
        self.errors, self.middles = [], []
        s = self.scanner('BEGIN_FT_STRING', prefix + quote, 3, True)
        res = self.pft(s)
        return res, list(self.middles), list(self.errors)


def rule_prefix(ctx):
    r = Rule('C10-PREFIX', 'string prefixes: p_string_literal / p_ft_string_literal and the scanner actions begin_string_action / begin_ft_string_action folded on every prefix the '
             'lexicon accepts (all spellings and orders, four quote styles, language level 2/3): kind, rawness and builder are those CPython assigns to the prefix; the lexicon '
             'state entered by the scanner is the one of the quote style, raw exactly when the parser treats the literal as raw', floor=295)
    pm = PrefixModel(ctx)
    f = pm.f
    lex = f.module_attr(LEXICON, 'any_string_prefix'), f.module_attr(LEXICON, 'ft_string_prefixes'), f.module_attr(LEXICON, 'raw_prefixes'), \
        f.module_attr(LEXICON, 'string_prefixes'), f.module_attr(LEXICON, 'char_prefixes')
    any_p, ft_p, raw_p, str_p, chr_p = lex
    if not all(isinstance(x, str) and x for x in lex):
        raise AnalysisError('Lexicon prefix alphabets are not plain strings any more')
    bad = {}

    def note(key, rel, msg):
        bad.setdefault(key, (rel, msg))
    want_builder = {'b': 'BytesLiteralBuilder', 'u': 'UnicodeLiteralBuilder', '': 'StrLiteralBuilder'}
    # ---- plain literals: every 0..2 letter word over the string / raw prefix letters (the lexicon repeats them freely), and the char prefix
    prefixes = _all_prefixes(str_p + raw_p, 2) + list(chr_p)
    for p in prefixes:
        low = p.lower()
        valid_cy = len(low) <= 1 or (len(low) == 2 and len(set(low)) == 2 and 'r' in low)
        ref = _cpython_prefix_reading(p) if 'c' not in low else None
        for level, ul in ((3, True), (2, False)):
            key = 'prefix:%s:level%d' % (p or '-', level)
            try:
                (kind, bval, uval), reads, errors = pm.string_literal(p, "'", level, ul)
            except AnalysisError:
                raise
            except Exception as e:
                r.inst(key, sample='crash %r' % e)
                note('p_string_literal:crash', PARSING, 'p_string_literal raises %s: %s for the prefix %r' % (type(e).__name__, e, p))
                continue
            r.inst(key, sample='%r -> kind %r, reads %r, errors %d' % (p, kind, reads[:1], len(errors)))
            if not valid_cy:
                if not errors:
                    note('p_string_literal:invalid-accepted', PARSING, 'the invalid string prefix %r is accepted without an error' % p)
                continue
            if errors:
                if ref is not None or low in ('ur', 'ru', 'c'):
                    note('p_string_literal:valid-rejected:%s' % low, PARSING, 'the string prefix %r is rejected (%r); CPython / Cython accept it' % (p, errors[0][-1:]))
                continue
            if not reads:
                raise AnalysisError('p_string_literal no longer reads the body through p_string_literal_shared_read')
            rkind, is_raw, builder = reads[0]
            if 'c' in low:
                if kind != 'c' or builder != 'BytesLiteralBuilder':
                    note('p_string_literal:char', PARSING, "the character literal prefix %r gives kind %r collected in %s" % (p, kind, builder))
                continue
            exp_bytes = ref[0] if ref is not None else ('b' in low)
            exp_raw = ref[1] if ref is not None else ('r' in low)
            exp_kind = 'b' if exp_bytes else 'u' if ('u' in low or ul) else ''
            if bool(is_raw) != exp_raw:
                note('p_string_literal:raw', PARSING, 'the literal %s\'...\' is read %s; CPython reads it %s' % (p, 'raw' if is_raw else 'with escape decoding', 'raw' if exp_raw else 'with escape decoding'))
            if kind != exp_kind or rkind != exp_kind:
                note('p_string_literal:kind:%s' % (exp_kind or 'str'), PARSING, 'the literal %s\'...\' (language level %d%s) gets kind %r (body read as %r); expected %r: %s' % (
                    p, level, ', unicode_literals' if ul else '', kind, rkind, exp_kind, 'a bytes literal' if exp_bytes else 'a str literal'))
            eb = 'BytesLiteralBuilder' if exp_bytes else 'UnicodeLiteralBuilder' if 'u' in low else 'StrLiteralBuilder'
            if builder != eb:
                note('p_string_literal:builder:%s' % (exp_kind or 'str'), PARSING, 'the body of %s\'...\' is collected in %s, expected %s' % (p, builder, eb))
            exp_vals = (b'B', None) if exp_bytes else (None, 'U') if 'u' in low else (b'B', 'U')
            if (bval, uval) != exp_vals:
                note('p_string_literal:values:%s' % (exp_kind or 'str'), PARSING, 'the literal %s\'...\' returns (bytes, unicode) = (%r, %r) from its builder; expected %r' % (p, bval, uval, exp_vals))
    # ---- f / t strings: parser rawness and lexicon state
    sc = pm.ix.cls('Scanning', 'PyrexScanner')
    ft_prefixes = sorted({a + b for a in ft_p for b in [''] + list(raw_p)} | {a + b for a in raw_p for b in ft_p})
    states = f._class_member(sc, 'string_states')
    if not states or states[0] != 'value' or not isinstance(states[1], dict):
        raise AnalysisError('PyrexScanner.string_states is not a literal dict any more')
    states = states[1]
    for p in ft_prefixes:
        for quote in sorted(states):
            key = 'ft:%s:%s' % (p, quote)
            exp_raw = 'r' in p.lower()
            try:
                (kind, bval, middles), calls, errors = pm.ft_literal(p, quote)
            except AnalysisError:
                raise
            except Exception as e:
                r.inst(key, sample='crash %r' % e)
                note('p_ft_string_literal:crash', PARSING, 'p_ft_string_literal raises %s: %s for %r' % (type(e).__name__, e, p + quote))
                continue
            me = Inst(sc, dict(ft_string_state_stack=[], in_ft_string_expr_prescan=0), label='scanner')
            log = []
            me.attrs['begin'] = lambda st: log.append(('begin', st))
            me.attrs['produce'] = lambda *a: log.append(('produce',) + a)
            try:
                f.inst_attr(me, 'begin_ft_string_action')(p + quote)
            except AnalysisError:
                raise
            except Exception as e:
                note('begin_ft_string_action:crash', SCANNING, 'PyrexScanner.begin_ft_string_action(%r) raises %s: %s' % (p + quote, type(e).__name__, e))
                continue
            begun = [x[1] for x in log if x[0] == 'begin']
            r.inst(key, sample='%s -> parser raw=%r kind=%r, scanner state %r' % (p + quote, calls[0][0] if calls else None, kind, begun))
            if not calls:
                raise AnalysisError('p_ft_string_literal no longer reads the body through p_ft_string_middles')
            exp_kind = 't' if 't' in p.lower() else 'f'
            if kind != exp_kind or calls[0][2] != exp_kind:
                note('p_ft_string_literal:kind', PARSING, 'the literal %s...%s gets kind %r / %r, expected %r' % (p, quote, kind, calls[0][2], exp_kind))
            if calls[0][0] != exp_raw:
                note('p_ft_string_literal:raw', PARSING, 'the %s-string %s...%s is parsed %s; its prefix says %s' % (exp_kind, p, quote, 'raw' if calls[0][0] else 'not raw', 'raw' if exp_raw else 'not raw'))
            if calls[0][1] != (len(quote) == 1):
                note('p_ft_string_literal:quotes', PARSING, 'the literal %s...%s is treated as %s-quoted' % (p, quote, 'single' if calls[0][1] else 'triple'))
            exp_state = '%s_FT%s' % (states[quote], 'R' if exp_raw else '')
            if begun != [exp_state]:
                note('begin_ft_string_action:state', SCANNING, 'the scanner enters %r for %s...%s; the body of a %s %s-string in %s quotes is tokenised by %r (the parser treats it as %s)' % (
                    begun, p, quote, 'raw' if exp_raw else 'non-raw', exp_kind, quote, exp_state, 'raw' if exp_raw else 'not raw'))
    # ---- begin_string_action: state of the quote style for every prefix
    for p in prefixes:
        for quote in sorted(states):
            me = Inst(sc, dict(in_ft_string_expr_prescan=0), label='scanner')
            log = []
            me.attrs['begin'] = lambda st: log.append(('begin', st))
            me.attrs['produce'] = lambda *a: log.append(('produce',) + a)
            try:
                f.inst_attr(me, 'begin_string_action')(p + quote)
            except AnalysisError:
                raise
            except Exception as e:
                note('begin_string_action:crash', SCANNING, 'PyrexScanner.begin_string_action(%r) raises %s: %s' % (p + quote, type(e).__name__, e))
                continue
            begun = [x[1] for x in log if x[0] == 'begin']
            r.inst('begin:%s:%s' % (p or '-', quote), sample='%s -> %r' % (p + quote, begun))
            if begun != [states[quote]]:
                note('begin_string_action:state', SCANNING, 'the scanner enters %r for the literal opener %r; expected %r' % (begun, p + quote, states[quote]))
    for key, (rel, msg) in sorted(bad.items()):
        r.violate(('Parsing.' if rel == PARSING else 'Scanning.PyrexScanner.') + key, rel, 0, msg)
    r.positive_control(_cpython_prefix_reading('rb') == (True, True) and _cpython_prefix_reading('u') == (False, False) and _cpython_prefix_reading('bu') is None,
                       'reference reading of prefixes by the checker\'s CPython')
    return r


# =====================================================================================================
# C10-CAT
# =====================================================================================================

def rule_cat(ctx):
    r = Rule('C10-CAT', 'implicit concatenation: Parsing.p_cat_string_literal folded on every sequence of two or three adjacent literals of the kinds b / u / unprefixed / f: '
             'the parts are joined in source order in both the bytes and the str value, a plain part next to an f-string becomes a part of the f-string, mixed bytes / str '
             'is an error', floor=68)
    f = ObjFolder(ctx)
    _string_models(f)
    f._globals[(PARSING, 'EncodedString')] = lambda s: ES(s)
    errors = []
    f._globals[(ERRORS, 'error')] = lambda *a, **k: errors.append(a)
    queue = []

    def p_string_literal(s, kind_override=None):
        kind, b, u = queue.pop(0)
        s.attrs['sy'] = ('BEGIN_FT_STRING' if queue[0][0] == 'f' else 'BEGIN_STRING') if queue else 'EOF'
        return kind, b, u
    f._globals[(PARSING, 'p_string_literal')] = p_string_literal
    cat = f.function(PARSING, 'p_cat_string_literal')
    fn_line = tables.find_function(ctx.parse(PARSING), 'p_cat_string_literal').lineno
    kinds = ('b', 'u', '', 'f')
    bad = {}
    letters = 'xyz'
    for n in (2, 3):
        for combo in itertools.product(kinds, repeat=n):
            parts = []
            for i, k in enumerate(combo):
                ch = letters[i]
                if k == 'b':
                    parts.append((k, BL(ch.encode()), None))
                elif k == 'u':
                    parts.append((k, None, ES(ch)))
                elif k == '':
                    parts.append((k, BL(ch.encode()), ES(ch)))
                else:
                    parts.append((k, None, [Inst(None, {'value': ch}, label='fpart ' + ch)]))
            queue[:] = parts
            del errors[:]
            s = Inst(None, dict(sy='BEGIN_STRING', source_encoding='UTF-8'), label='scanner')
            s.attrs['position'] = lambda: ('<src>', 1, 0)
            key = 'cat:' + '+'.join(k or 'str' for k in combo)
            try:
                kind, bval, uval = cat(s)
            except AnalysisError:
                raise
            except Exception as e:
                r.inst(key, sample='crash %r' % e)
                bad.setdefault('crash', 'p_cat_string_literal raises %s: %s for adjacent literals of kinds %s' % (type(e).__name__, e, list(combo)))
                continue
            r.inst(key, sample='%s -> kind %r bytes %r str %r errors %d' % (list(combo), kind, bval, uval if not isinstance(uval, list) else [getattr(x, 'attrs', {}).get('value') for x in uval], len(errors)))
            ks = set(combo)
            text = letters[:n]
            if 'u' in ks and '' in ks:
                continue        # Py2-style source only: u'' next to a native-str '' is Cython's own (lenient) rule, not CPython's
            mixed = 'b' in ks and len(ks) > 1
            if mixed:
                if not errors:
                    bad.setdefault('mixed-accepted', 'adjacent literals of kinds %s are concatenated without an error' % list(combo))
                continue
            if errors:
                bad.setdefault('valid-rejected:%s' % '+'.join(sorted(k or 'str' for k in ks)), 'adjacent literals of kinds %s are rejected: %r' % (list(combo), errors[0][-1:]))
                continue
            if 'f' in ks:
                vals = [x.attrs.get('value') if isinstance(x, Inst) else None for x in uval] if isinstance(uval, list) else None
                if kind != 'f' or vals != list(text):
                    bad.setdefault('fstring-parts', 'adjacent literals of kinds %s give kind %r with the parts %r; expected an f-string with the parts %r in source order' % (list(combo), kind, vals, list(text)))
                continue
            exp_kind = combo[0]
            if kind != exp_kind:
                bad.setdefault('kind', 'adjacent literals of kinds %s give kind %r' % (list(combo), kind))
            if exp_kind in ('u', '') and uval != text:
                bad.setdefault('str-order', 'adjacent %s literals %s have the str value %r; CPython concatenates them to %r' % (repr(exp_kind + "''"), list(text), uval, text))
            if exp_kind in ('b', '') and bval != text.encode():
                bad.setdefault('bytes-order', 'adjacent %s literals %s have the bytes value %r; expected %r' % (repr(exp_kind + "''"), list(text), bval, text.encode()))
            if exp_kind == 'b' and uval is not None:
                bad.setdefault('bytes-str', 'adjacent bytes literals also carry a str value %r' % (uval,))
    for k, msg in sorted(bad.items()):
        r.violate('Parsing.p_cat_string_literal:' + k, PARSING, fn_line, msg)
    r.positive_control(ES('a') + ES('b') == 'ab' and isinstance(BL(b'x'), bytes), 'string models')
    return r


# =====================================================================================================
# C10-TAB: layout of the module string table
# =====================================================================================================

import operator as _operator
from . import pC10 as _pC10
_pC10.STDLIB.setdefault('operator', {'itemgetter': _operator.itemgetter})


class TES(ES):
    def utf8encode(self):
        return self.encode('UTF-8')

    def byteencode(self):
        return self.encode(self.encoding)

    @property
    def is_unicode(self):
        return self.encoding is None


class TBL(BL):
    def byteencode(self):
        return bytes(self)

    is_unicode = False


def _tab_writer(lines):
    w = Inst(None, {}, label='writer')
    w.attrs.update(
        putln=lambda s='', **kw: lines.append(s), put=lambda s='', **kw: lines.append(s),
        name_in_main_c_code_module_state=lambda x: 'MS->' + x, name_in_module_state=lambda x: 'MS->' + x,
        error_goto_if_null=lambda *a, **k: 'ERR', error_goto=lambda *a, **k: 'ERR')
    return w


def run_string_table(lines, defines, tab_cname, data, registry):
    """Interpret the emitted initialisation code -> ({branch label: {slot: value}}, {cname: slot}, problems)."""
    problems = []
    index = {}
    # split the text into the part before the branches, the branches and the common tail
    branches, cur, head, tail, state = [], None, [], [], 'head'
    for ln in lines:
        s = ln.strip()
        m = re.match(r'#(if|elif)\s+(.*?)\s*/\*\s*compression: (\w+)', s)
        if m and state in ('head', 'branch'):
            cur = [m.group(3), m.group(2), []]
            branches.append(cur)
            state = 'branch'
            continue
        m = re.match(r'(#else\s+)?/\*\s*compression: none', s)
        if m and state in ('head', 'branch'):
            cur = ['none', '', []]
            branches.append(cur)
            state = 'branch'
            continue
        if state == 'branch' and s == '#endif' and cur is not None and not any(x.strip().startswith('#if') and not x.strip().startswith('#if !CYTHON_ASSUME_SAFE_MACROS') for x in cur[2][-1:]):
            # the #endif of an inner "#if !CYTHON_ASSUME_SAFE_MACROS" belongs to the branch
            if cur[2] and any(x.strip() == '#if !CYTHON_ASSUME_SAFE_MACROS' for x in cur[2]) and sum(1 for x in cur[2] if x.strip() == '#endif') < sum(1 for x in cur[2] if x.strip() == '#if !CYTHON_ASSUME_SAFE_MACROS'):
                cur[2].append(ln)
                continue
            state = 'tail'
            continue
        if state == 'head':
            head.append(s)
        elif state == 'branch':
            cur[2].append(ln)
            if cur[0] == 'none' and not any(b[0] != 'none' for b in branches) and s == 'PyObject *data = NULL;':
                state = 'tail'      # no compressed branch at all: there is no #endif
        else:
            tail.append(s)
    for s in head:
        m = re.match(r'const struct \{ const unsigned int length: (\d+); \} (\w+)_length_index\[\] = \{(.*)\};', s)
        if m:
            w = int(m.group(1))
            vals = [int(x) for x in re.findall(r'\{(\d+)\}', m.group(3))]
            for v in vals:
                if v >= (1 << w):
                    problems.append('the length %d is stored in a %d-bit field of %s_length_index and truncated to %d' % (v, w, m.group(2), v & ((1 << w) - 1)))
            index[m.group(2)] = [v & ((1 << w) - 1) for v in vals]
    results = {}
    for label, guard, body in branches:
        buf = None
        for ln in body:
            s = ln.strip()
            m = re.match(r'DATA (\w+) (\d+)$', s)
            if m:
                var, k = m.group(1), int(m.group(2))
                if var == 'bytes':
                    buf = data[k]
                else:
                    pending = data[k]
                continue
            m = re.match(r'PyObject \*data = (__Pyx_DecompressString\w*)\((\w+), (\d+), (\d+)\);', s)
            if m:
                src = registry.get(bytes(pending))
                if src is None:
                    problems.append('branch %s decompresses data that no compressor produced' % label)
                    buf = b''
                else:
                    buf = src[1]
                    if src[0] != label:
                        problems.append('branch %s (guard %s) carries the data compressed by %s' % (label, guard, src[0]))
                continue
        if buf is None:
            raise AnalysisError('string table: branch %s defines no byte buffer' % label)
        slots, pos, i = {}, 0, 0
        t = list(tail)
        j = 0
        while j < len(t):
            s = t[j]
            j += 1
            m = re.match(r'for \((?:int|Py_ssize_t) (\w+) = (\d+); \1 < (\d+); (?:\1\+\+|\+\+\1)\) \{', s)
            if not m:
                continue
            lv, lo, hi = m.group(1), int(m.group(2)), int(m.group(3))
            body_l, depth = [], 1
            while j < len(t):
                b = t[j]
                j += 1
                if b.endswith('{'):
                    depth += 1
                if b == '}':
                    depth -= 1
                    if depth == 0:
                        break
                body_l.append(b)
            txt = ' '.join(body_l)
            mi = re.search(r'(\w+) = (\w+)_length_index\[%s(?:\s*-\s*(\d+))?\]\.length;' % re.escape(lv), txt)
            if not mi:
                continue            # the hash / immortalisation loops
            lenv = mi.group(1)
            mk = re.search(r'(\w+) = (PyUnicode_DecodeUTF8|PyBytes_FromStringAndSize)\((\w+) \+ (\w+), %s[,)]' % re.escape(lenv), txt)
            kind = None if not mk else 'str' if mk.group(2) == 'PyUnicode_DecodeUTF8' else 'bytes'
            if kind is None or not re.search(r'\w+\[%s\] = %s;' % (re.escape(lv), re.escape(mk.group(1))), txt) or not re.search(r'%s \+= %s;' % (re.escape(mk.group(4)), re.escape(lenv)), txt):
                raise AnalysisError('string table: unpacking loop not understood: %r' % txt[:200])
            mint = re.search(r'%s >= (\d+)\) PyUnicode_InternInPlace' % re.escape(lv), txt)
            arrname = mi.group(2)
            arr, off = index.get(arrname), int(mi.group(3) or 0)
            for i in range(lo, hi):
                if arr is None or not (0 <= i - off < len(arr)):
                    problems.append('the unpacking loop reads %s_length_index[%d], outside its %s entries' % (arrname, i - off, len(arr) if arr is not None else 'no'))
                    n = 0
                else:
                    n = arr[i - off]
                chunk = buf[pos:pos + n]
                if kind == 'str':
                    try:
                        val = chunk.decode('utf-8')
                    except UnicodeDecodeError:
                        val = ('undecodable', bytes(chunk))
                    val = ('str', val, bool(mint and i >= int(mint.group(1))))
                else:
                    val = ('bytes', bytes(chunk), False)
                if i in slots:
                    problems.append('table slot %d is filled twice' % i)
                slots[i] = val
                pos += n
        results[label] = slots
    where = {}
    for d in defines:
        m = re.fullmatch(r'#define (\w+) %s\[(\d+)\]' % re.escape(tab_cname), d.strip())
        if not m:
            raise AnalysisError('emitted #define not understood: %r' % d)
        where.setdefault(m.group(1), []).append(int(m.group(2)))
    return results, where, problems


def rule_strtab(ctx):
    r = Rule('C10-TAB', 'GlobalState.generate_pystring_constants folded on every mix of plain / non-ASCII / interned text constants and bytes constants (with and without data long '
             'enough to be compressed): interpreting the emitted length indexes, #if branches, unpacking loops and #defines, every constant name denotes a table slot that is '
             'filled with exactly its value and type in every branch', floor=45)
    ix = ctx.index
    gs = ix.cls('Code', 'GlobalState')
    if 'generate_pystring_constants' not in gs.methods:
        raise AnalysisError('GlobalState.generate_pystring_constants vanished')
    line = gs.methods['generate_pystring_constants'].lineno
    f = ObjFolder(ctx)
    tab = f.module_attr('Cython/Compiler/Naming.py', 'stringtab_cname')
    algos = tables.module_assign(ctx.parse(CODE), 'compression_algorithms')
    rows = []
    for e in getattr(algos, 'elts', []):
        if isinstance(e, ast.Tuple) and len(e.elts) == 3:
            n, nm = tables.literal(e.elts[0]), tables.literal(e.elts[1])
            if isinstance(n, int) and isinstance(nm, str):
                rows.append((n, nm))
    if len(rows) < 2:
        raise AnalysisError('Code.compression_algorithms: table rows not found')
    registry, data = {}, []

    def make_compress(name):
        def compress(b):
            token = ('<%s:%d>' % (name, len(registry))).encode()
            registry[token] = (name, bytes(b))
            return token
        return compress
    f._globals[(CODE, 'compression_algorithms')] = [(n, nm, make_compress(nm)) for n, nm in rows]
    f._globals[(CODE, 'UtilityCode')] = Inst(None, {'load_cached': lambda *a, **k: None}, label='UtilityCode')

    # the writers of the table data: _write_escaped_cstring_const is folded as written; the escaper it calls is the folded StringEncoding.escape_byte_string and the
    # text that reaches _write_cstring_const is read back with the reference C reader of pC11 - `data` holds the bytes a C compiler sees (the cut into pieces is C10-CSTR-CUT's)
    from .pC11 import _escaper, c_read, CReadError
    unreadable = []

    def write_cstring(w, escaped, name, length=None):
        try:
            b = c_read(escaped)
        except CReadError as x:
            unreadable.append('the text written for the C array `%s` is not a readable C string literal (%s)' % (name, x))
            b = b''
        data.append(bytes(b))
        w.attrs['putln']('DATA %s %d' % (name, len(data) - 1))
    f._globals[(CODE, '_write_cstring_const')] = write_cstring
    f._globals[(ENCODING, 'escape_byte_string')] = _escaper(ctx)
    plain = [None, [('hello world', False)], [('née €', False), ('zz top', False)]]
    interned = [None, [('abc', True)], [('name2', True), ('x', True)]]
    # (handed over in reverse, i.e. unsorted, order); in either order of the last two the seam between them reads `??=` - a trigraph unless the table data is escaped as a whole
    bytes_c = [None, [b'x'], [b'?=a?', b'?=b?\x00bytes']]
    filler = ('lorem ipsum ' * 30, False)
    bad = {}
    for pl, it, by, fill in itertools.product(plain, interned, bytes_c, (False, True)):
        if not (pl or it or by or fill):
            continue
        texts, byts, expect = [], [], {}
        k = 0
        for txt, is_int in (pl or []) + (it or []) + ([filler] if fill else []):
            k += 1
            cname = 'S%d' % k
            texts.append((is_int, cname, TES(txt)))
            expect[cname] = ('str', txt, is_int)
        for b in (by or []):
            k += 1
            cname = 'B%d' % k
            v = TBL(b)
            v.encoding = 'utf8'
            byts.append((False, cname, v))
            expect[cname] = ('bytes', b, False)
        texts.reverse()
        byts.reverse()
        out = {}
        parts = {}
        for p in ('init_constants', 'constant_name_defines', 'module_state', 'module_state_traverse', 'module_state_clear'):
            out[p] = []
            parts[p] = _tab_writer(out[p])
        me = Inst(gs, dict(parts=parts, module_pos=('<module>', 1, 0)), label='globalstate')
        me.attrs['use_utility_code'] = lambda *a, **k: None
        del data[:]
        registry.clear()
        key = 'table:%s+%s+%s%s' % (len(pl or []), len(it or []), len(by or []), '+long' if fill else '')
        try:
            f.inst_attr(me, 'generate_pystring_constants')(texts, byts)
            results, where, problems = run_string_table(out['init_constants'], out['constant_name_defines'], tab, data, registry)
        except AnalysisError:
            raise
        except Exception as e:
            r.inst(key, sample='crash %r' % e)
            bad.setdefault('crash', (key, 'generate_pystring_constants raises %s: %s' % (type(e).__name__, e)))
            continue
        r.inst(key, sample='%d constants, branches %s' % (len(expect), sorted(results)))
        if fill and len(results) < 2:
            bad.setdefault('no-compressed-branch', (key, 'no compressed branch is emitted for %d bytes of string data although every algorithm shrinks it' % sum(len(x[1]) for x in registry.values() or [('', b'')])))
        for p in unreadable:
            bad.setdefault('c-text', (key, p))
        del unreadable[:]
        for p in problems:
            cls = 'bit-width' if 'truncated' in p else 'index' if 'reads' in p else 'slot-twice' if 'twice' in p else 'branch-data'
            bad.setdefault(cls, (key, p))
        for cname, want in sorted(expect.items()):
            slots_of = where.get(cname, [])
            if len(slots_of) != 1:
                bad.setdefault('define', (key, 'the constant %s gets %d #defines into the string table' % (cname, len(slots_of))))
                continue
            for label, slots in sorted(results.items()):
                got = slots.get(slots_of[0])
                if got is None or got[:2] != want[:2]:
                    kind = 'bytes' if want[0] == 'bytes' else 'non-ascii' if not want[1].isascii() else 'str'
                    bad.setdefault('slot:' + kind, (key, 'the %s constant %r is #defined as table slot %d, which the emitted code (branch "%s") fills with %r' % (want[0], want[1], slots_of[0], label, got)))
                elif want[0] == 'str' and want[2] and not got[2]:
                    bad.setdefault('not-interned', (key, 'the identifier-like constant %r (slot %d) is not interned by the unpacking loop' % (want[1], slots_of[0])))
        owners = {}
        for cname, sl in where.items():
            for x in sl:
                owners.setdefault(x, []).append(cname)
        for x, cn in sorted(owners.items()):
            if len(cn) > 1:
                bad.setdefault('shared-slot', (key, 'the constants %s are all #defined as table slot %d' % (', '.join(sorted(cn)), x)))
    for ck, (key, msg) in sorted(bad.items()):
        r.violate('Code.GlobalState.generate_pystring_constants:' + ck, CODE, line, '%s [%s]' % (msg, key))
    # positive control: hand-written emission whose bytes loop forgets the index offset
    lines = ['{', 'const struct { const unsigned int length: 3; } str_length_index[] = {{2}};', 'const struct { const unsigned int length: 3; } bytes_length_index[] = {{1}};',
             '/* compression: none (3 bytes) */', 'DATA bytes 0', 'PyObject *data = NULL;', 'PyObject **stringtab = MS->T;', 'Py_ssize_t pos = 0;',
             'for (int i = 0; i < 1; i++) {', 'Py_ssize_t bytes_length = str_length_index[i].length;', 'PyObject *string = PyUnicode_DecodeUTF8(bytes + pos, bytes_length, NULL);', 'stringtab[i] = string;', 'pos += bytes_length;', '}',
             'for (int i = 1; i < 2; i++) {', 'Py_ssize_t bytes_length = bytes_length_index[i].length;', 'PyObject *string = PyBytes_FromStringAndSize(bytes + pos, bytes_length);', 'stringtab[i] = string;', 'pos += bytes_length;', '}', '}']
    res, where, problems = run_string_table(lines, ['#define A T[0]', '#define B T[1]'], 'T', [b'abc'], {})
    r.positive_control(any('outside' in p for p in problems) and res['none'][0][:2] == ('str', 'ab'), 'a bytes loop that indexes bytes_length_index with the absolute slot number')
    return r


# =====================================================================================================
# C10-PYKEY: cache of Python string constants per C string
# =====================================================================================================

def rule_pykey(ctx):
    r = Rule('C10-PYKEY', 'StringConst.get_py_string_const folded on every ordered pair of requests (str / identifier / bytes in several encodings) for one C string: the object returned '
             'for the second request has the kind, encoding and interning a fresh request would get - a cache hit never hands a str for bytes or vice versa', floor=160)
    ix = ctx.index
    sc = ix.cls('Code', 'StringConst')
    if 'get_py_string_const' not in sc.methods:
        raise AnalysisError('StringConst.get_py_string_const vanished')
    line = sc.methods['get_py_string_const'].lineno

    def construct(folder, cref, args, kwargs):
        if cref.node.name == 'PyStringConst':
            ci = folder.classinfo(cref)
            inst = Inst(ci, {}, label='PyStringConst')
            init = folder._class_member(ci, '__init__')
            if init is None or init[0] != 'method':
                raise AnalysisError('PyStringConst.__init__ vanished')
            Closure(folder, init[2], Env({}, None, init[1].module.rel))(inst, *args, **kwargs)
            return inst
        return NotImplemented
    f = ObjFolder(ctx, construct=construct)
    prefix = f.module_attr('Cython/Compiler/Naming.py', 'const_prefix')

    def fresh(text):
        return Inst(sc, dict(cname=prefix + 'abc', text=text, py_strings=None, c_used=False), label='StringConst')
    requests = [('str', None, None), ('identifier', None, True), ('not-identifier', None, False), ('bytes-utf8', 'utf8', None), ('bytes-UTF-8', 'UTF-8', None),
                ('bytes-ascii', 'ascii', None), ('bytes-latin1', 'latin1', None), ('bytes-iso', 'ISO-8859-1', None)]
    texts = [('identifier-like text', TES('abc')), ('plain text', TES('a b')), ('bytes text', TBL(b'abc'))]

    def attrs_of(o):
        if not isinstance(o, Inst):
            return ('not an object', o)
        enc = o.attrs.get('encoding')
        return (bool(o.attrs.get('is_unicode')), enc.lower().replace('-', '') if isinstance(enc, str) else enc, bool(o.attrs.get('intern')))
    bad = {}
    for tname, text in texts:
        for (n1, e1, i1), (n2, e2, i2) in itertools.product(requests, repeat=2):
            key = 'pair:%s:%s->%s' % (tname.split()[0], n1, n2)
            try:
                c = fresh(text)
                get = f.inst_attr(c, 'get_py_string_const')
                o1 = get(e1, i1)
                o2 = get(e2, i2)
                want = f.inst_attr(fresh(text), 'get_py_string_const')(e2, i2)
            except AnalysisError:
                raise
            except Exception as e:
                r.inst(key, sample='crash %r' % e)
                bad.setdefault('crash', 'StringConst.get_py_string_const raises %s: %s (%s)' % (type(e).__name__, e, key))
                continue
            r.inst(key, sample='%s then %s -> %r' % (n1, n2, attrs_of(o2)))
            if attrs_of(o2) != attrs_of(want):
                a, b = attrs_of(o2), attrs_of(want)
                what = 'kind' if a[0] != b[0] else 'encoding' if a[1] != b[1] else 'interning'
                bad.setdefault(what, 'after a %s request, a %s request for the same C string (%s) returns the cached constant (unicode=%r, encoding=%r, intern=%r); a fresh request creates '
                               '(unicode=%r, encoding=%r, intern=%r): the two literals share one Python object of the wrong %s' % ((n1, n2, tname) + a + b + (what,)))
            if (e2 is None) != attrs_of(want)[0] and i2 is None:
                bad.setdefault('kind-of-request', 'a %s request creates a constant with is_unicode=%r' % (n2, attrs_of(want)[0]))
    for k, msg in sorted(bad.items()):
        r.violate('Code.StringConst.get_py_string_const:' + k, CODE, line, msg)
    r.positive_control(True, 'pairs of requests evaluated on the folded method')
    return r


# =====================================================================================================
# C10-STRFOLD: constant folding of string literals
# =====================================================================================================

def rule_strfold(ctx):
    r = Rule('C10-STRFOLD', 'Optimize.ConstantFolding folded on `literal * n`, `n * literal` and `literal + literal` for str literals with and without a bytes twin and for bytes '
             'literals: the str value and the bytes value of the result are both the CPython result of the operation (same operand order, same multiplier)', floor=16)
    ix = ctx.index
    cf = ix.cls('Optimize', 'ConstantFolding')
    en = ix.mod('ExprNodes')

    def construct(folder, cref, args, kwargs):
        nm = cref.node.name
        if nm in ('UnicodeNode', 'BytesNode'):
            attrs = dict(kwargs)
            if args:
                attrs['pos'] = args[0]
                if len(args) > 1:
                    attrs['value'] = args[1]
            attrs.setdefault('constant_result', attrs.get('value'))
            return Inst(folder.classinfo(cref), attrs, label='new ' + nm)
        return NotImplemented
    f = ObjFolder(ctx, construct=construct)
    _string_models(f)
    for rel in (OPT,):
        f._globals[(rel, 'EncodedString')] = lambda s: ES(s)
    f._globals[(OPT, 'bytes_literal')] = f._globals[(ENCODING, 'bytes_literal')]
    f._globals[(OPT, 'encoded_string')] = f._globals[(ENCODING, 'encoded_string')]

    def unode(s, with_bytes):
        v = ES(s)
        b = None
        if with_bytes:
            b = BL(s.encode('latin1'))
            b.encoding = 'latin1'
        return Inst(en.classes['UnicodeNode'], dict(value=v, bytes_value=b, constant_result=v, is_literal=True, pos=('<src>', 1, 0)), label=repr(s))

    def bnode(b):
        v = BL(b)
        v.encoding = 'latin1'
        return Inst(en.classes['BytesNode'], dict(value=v, constant_result=v, is_literal=True, pos=('<src>', 1, 0)), label=repr(b))

    def inode(n):
        return Inst(en.classes['IntNode'], dict(value=str(n), constant_result=n, is_literal=True, pos=('<src>', 1, 0)), label=str(n))

    def transform():
        me = Inst(cf, dict(reevaluate=False), label='ConstantFolding')
        me.attrs['_calculate_const'] = lambda node: None
        me.attrs['visitchildren'] = lambda node, *a, **k: None
        me.attrs['visit_BinopNode'] = lambda node: node
        return me
    bad = {}

    def check(key, meth, src, got, want_u, want_b, had_bytes):
        if not isinstance(got, Inst) or got.cls is None or got.cls.name not in ('UnicodeNode', 'BytesNode'):
            return
        if got.cls.name == 'UnicodeNode':
            u, b = got.attrs.get('value'), got.attrs.get('bytes_value')
            if u != want_u:
                bad.setdefault(key + ':str', (meth, 'ConstantFolding.%s folds `%s` to the str value %r; CPython gives %r' % (meth, src, u, want_u)))
            if b is not None and bytes(b) != want_b:
                bad.setdefault(key + ':bytes-twin', (meth, 'ConstantFolding.%s folds `%s` to the str value %r but keeps the bytes twin %r (used when the literal is coerced to char*); '
                                                   'the two representations must denote the same text: expected %r' % (meth, src, u, bytes(b), want_b)))
        else:
            v = got.attrs.get('value')
            if v is None or bytes(v) != want_b:
                bad.setdefault(key + ':bytes', (meth, 'ConstantFolding.%s folds `%s` to the bytes value %r; CPython gives %r' % (meth, src, v, want_b)))
    for with_bytes in (False, True):
        for n in (2, 3, 0):
            for swapped in (False, True):
                s = unode('ab', with_bytes)
                m = inode(n)
                node = Inst(en.classes['MulNode'], dict(operator='*', operand1=m if swapped else s, operand2=s if swapped else m, constant_result='ab' * n, pos=('<src>', 1, 0)), label='mul')
                node.attrs['has_constant_result'] = lambda: True
                key = 'mul:str%s' % (':twin' if with_bytes else '')
                src = ('%d * %r' if swapped else '%r * %d') % ((n, 'ab') if swapped else ('ab', n))
                r.inst('%s:%d:%s' % (key, n, swapped), sample=src)
                try:
                    got = f.inst_attr(transform(), 'visit_MulNode')(node)
                except AnalysisError:
                    raise
                except Exception as e:
                    bad.setdefault(key + ':crash', ('visit_MulNode', 'ConstantFolding.visit_MulNode raises %s: %s for `%s`' % (type(e).__name__, e, src)))
                    continue
                check(key, '_multiply_string', src, got, 'ab' * n, b'ab' * n, with_bytes)
    for n in (2, 0):
        for swapped in (False, True):
            s, m = bnode(b'ab'), inode(n)
            node = Inst(en.classes['MulNode'], dict(operator='*', operand1=m if swapped else s, operand2=s if swapped else m, constant_result=b'ab' * n, pos=('<src>', 1, 0)), label='mul')
            node.attrs['has_constant_result'] = lambda: True
            src = ('%d * %r' if swapped else '%r * %d') % ((n, b'ab') if swapped else (b'ab', n))
            r.inst('mul:bytes:%d:%s' % (n, swapped), sample=src)
            try:
                got = f.inst_attr(transform(), 'visit_MulNode')(node)
            except AnalysisError:
                raise
            except Exception as e:
                bad.setdefault('mul:bytes:crash', ('visit_MulNode', 'ConstantFolding.visit_MulNode raises %s: %s for `%s`' % (type(e).__name__, e, src)))
                continue
            check('mul:bytes', '_multiply_string', src, got, None, b'ab' * n, False)
    for with_bytes in (False, True):
        a, b = unode('ab', with_bytes), unode('cd', with_bytes)
        node = Inst(en.classes['AddNode'], dict(operator='+', operand1=a, operand2=b, constant_result=ES('abcd'), pos=('<src>', 1, 0)), label='add')
        r.inst('add:str%s' % (':twin' if with_bytes else ''), sample="'ab' + 'cd'")
        try:
            got = f.inst_attr(transform(), 'visit_AddNode')(node)
            check('add:str', 'visit_AddNode', "'ab' + 'cd'", got, 'abcd', b'abcd', with_bytes)
        except AnalysisError:
            raise
        except Exception as e:
            bad.setdefault('add:crash', ('visit_AddNode', 'ConstantFolding.visit_AddNode raises %s: %s' % (type(e).__name__, e)))
    a, b = bnode(b'ab'), bnode(b'cd')
    node = Inst(en.classes['AddNode'], dict(operator='+', operand1=a, operand2=b, constant_result=b'abcd', pos=('<src>', 1, 0)), label='add')
    r.inst('add:bytes', sample="b'ab' + b'cd'")
    try:
        got = f.inst_attr(transform(), 'visit_AddNode')(node)
        check('add:bytes', 'visit_AddNode', "b'ab' + b'cd'", got, None, b'abcd', False)
    except AnalysisError:
        raise
    except Exception as e:
        bad.setdefault('add:crash', ('visit_AddNode', 'ConstantFolding.visit_AddNode raises %s: %s' % (type(e).__name__, e)))
    for k, (meth, msg) in sorted(bad.items()):
        r.violate('Optimize.ConstantFolding:' + k, OPT, cf.methods[meth].lineno if meth in cf.methods else 0, msg)
    r.positive_control(True, 'folded handlers evaluated')
    return r


# =====================================================================================================
# C10-CLEN: lengths of string data handed to C
# =====================================================================================================

def rule_clen(ctx):
    r = Rule('C10-CLEN', 'lengths of string data handed to C: an emitted decode / FromStringAndSize call that takes sizeof(<C string constant>) as the length subtracts the '
             'terminating NUL; the length parameter of __Pyx_DecompressString reaches the buffer constructor unchanged', floor=2)
    ix = ctx.index
    n_sizeof = 0
    for m in ix.modules.values():
        if not m.name.startswith('Cython.Compiler'):
            continue
        for c in ast.walk(m.tree):
            if isinstance(c, ast.Constant) and isinstance(c.value, str) and 'sizeof(%s)' in c.value and re.search(r'Decode\w*\(|FromStringAndSize\(', c.value):
                for mo in re.finditer(r'(\w+)\(([^;]*?sizeof\(%s\)[^;]*?)\)\s*;', c.value):
                    callee, args = mo.group(1), mo.group(2)
                    for am in re.finditer(r'sizeof\(%s\)(\s*-\s*1)?', args):
                        n_sizeof += 1
                        key = '%s:%s:sizeof' % (m.short, callee)
                        r.inst(key, sample='%s(... %s ...)' % (callee, am.group(0)))
                        if not am.group(1):
                            r.violate('%s:emitted:%s:sizeof-without-terminator' % (m.short, callee), m.rel, c.lineno,
                                      'the emitted call %s(...) passes sizeof(<string constant>) as the data length: the terminating NUL of the C string becomes part of the Python string' % callee)
    if n_sizeof < 1:
        raise AnalysisError('no emitted decode call with sizeof(<string constant>) found')
    decl = [d for d in ctx.cat.decls.get('__Pyx_DecompressString', []) if d.kind == 'func' and d.body]
    if not decl:
        raise AnalysisError('__Pyx_DecompressString not found')
    pn = decl[0].param_names()
    lp = [p for p in pn if p and 'len' in p.lower()]
    if not lp:
        raise AnalysisError('__Pyx_DecompressString has no length parameter any more')
    from ..engine.cutil import strip_c_comments
    body = strip_c_comments(decl[0].body)
    uses = 0
    for mo in re.finditer(r'\b(\w+)\s*\(([^()]*\b%s\b[^()]*)\)' % re.escape(lp[0]), body):
        callee, args = mo.group(1), [a.strip() for a in mo.group(2).split(',')]
        if callee in ('CYTHON_UNUSED_VAR', 'sizeof', 'if', 'unlikely', 'likely'):
            continue
        uses += 1
        key = 'decompress:%s:length' % callee
        r.inst(key, sample='%s(%s)' % (callee, ', '.join(args)))
        for a in args:
            if re.search(r'\b%s\b' % re.escape(lp[0]), a) and not re.fullmatch(r'(\(\s*\w+\s*\)\s*)?%s' % re.escape(lp[0]), a):
                r.violate('StringTools.__Pyx_DecompressString:length', 'Cython/Utility/StringTools.c', decl[0].line,
                          '__Pyx_DecompressString passes %r instead of its length parameter to %s: the decompressor sees a different number of bytes than the compiler wrote' % (a, callee))
    if not uses:
        raise AnalysisError('__Pyx_DecompressString: the length parameter is not passed to any call')
    return r


# =====================================================================================================
# C10-BUILD: what the literal builders hand back ; C10-PYREQ: kind of the Python constant requested for a literal
# =====================================================================================================

def rule_builders(ctx):
    r = Rule('C10-BUILD', 'literal builders folded with their own __init__ / append / getstring(s) / getchar: UnicodeLiteralBuilder returns (None, str), BytesLiteralBuilder '
             '(bytes, None), StrLiteralBuilder (bytes, str); text pieces of a bytes literal are encoded with the source encoding, the str value is the text itself', floor=23)
    ix = ctx.index
    enc = ix.mod('StringEncoding')
    f = ObjFolder(ctx)
    _string_models(f)
    for c in ('UnicodeLiteralBuilder', 'BytesLiteralBuilder', 'StrLiteralBuilder'):
        if c not in enc.classes:
            raise AnalysisError('StringEncoding.%s vanished' % c)

    def construct(folder, cref, args, kwargs):
        ci = folder.classinfo(cref)
        if ci.module is enc and ci.name.endswith('LiteralBuilder'):
            inst = Inst(ci, {}, label=ci.name)
            init = folder._class_member(ci, '__init__')
            if init is None or init[0] != 'method':
                raise AnalysisError('%s.__init__ vanished' % ci.name)
            Closure(folder, init[2], Env({}, None, init[1].module.rel))(inst, *args, **kwargs)
            return inst
        return NotImplemented
    f._construct = construct
    texts = ['abc', 'né €', '']
    bad = {}
    for cname in ('UnicodeLiteralBuilder', 'BytesLiteralBuilder', 'StrLiteralBuilder'):
        for src_enc in ('UTF-8', 'ISO-8859-15', 'cp1252'):
            for text in texts:
                key = '%s:%s:%r' % (cname, src_enc, text)
                try:
                    b = construct(f, f.classref(enc.classes[cname]), () if cname == 'UnicodeLiteralBuilder' else (src_enc,), {})
                    for piece in (text[:1], text[1:]):
                        f.inst_attr(b, 'append')(piece)
                    got = f.inst_attr(b, 'getstrings')()
                except AnalysisError:
                    raise
                except Exception as e:
                    r.inst(key, sample='crash %r' % e)
                    bad.setdefault(cname + ':crash', '%s(%r) raises %s: %s while collecting %r' % (cname, src_enc, type(e).__name__, e, text))
                    continue
                r.inst(key, sample='%r -> %r' % (text, got))
                want_b = text.encode(src_enc) if cname != 'UnicodeLiteralBuilder' else None
                want_u = text if cname != 'BytesLiteralBuilder' else None
                if not isinstance(got, tuple) or len(got) != 2:
                    bad.setdefault(cname + ':shape', '%s.getstrings() returns %r instead of a (bytes, str) pair' % (cname, got))
                    continue
                gb, gu = got
                if (gb is None) != (want_b is None) or (gu is None) != (want_u is None) or (gb is not None and not isinstance(gb, bytes)) or (gu is not None and not isinstance(gu, str)):
                    bad.setdefault(cname + ':slots', '%s.getstrings() returns (%r, %r): p_string_literal unpacks it as (bytes value, str value); expected %s' % (
                        cname, gb, gu, '(None, str)' if want_b is None else '(bytes, None)' if want_u is None else '(bytes, str)'))
                    continue
                if gb is not None and bytes(gb) != want_b:
                    bad.setdefault(cname + ':bytes-value', '%s(%r) collects the source text %r as the bytes %r; the source file holds %r' % (cname, src_enc, text, bytes(gb), want_b))
                if gu is not None and gu != want_u:
                    bad.setdefault(cname + ':str-value', '%s collects the source text %r as the str %r' % (cname, text, gu))
    for k, msg in sorted(bad.items()):
        r.violate('StringEncoding.' + k, ENCODING, 0, msg)
    r.positive_control('né €'.encode('cp1252') != 'né €'.encode('UTF-8'), 'the source encodings of the domain give different bytes')
    return r


def rule_pyrequest(ctx):
    r = Rule('C10-PYREQ', 'GlobalState.get_py_string_const folded on str, identifier and bytes literals: the Python constant created for a literal has the kind (str / bytes) '
             'and encoding of the literal', floor=5)
    ix = ctx.index
    gs = ix.cls('Code', 'GlobalState')
    sc = ix.cls('Code', 'StringConst')

    def construct(folder, cref, args, kwargs):
        nm = cref.node.name
        if nm == 'PyStringConst':
            ci = folder.classinfo(cref)
            inst = Inst(ci, {}, label=nm)
            init = folder._class_member(ci, '__init__')
            Closure(folder, init[2], Env({}, None, init[1].module.rel))(inst, *args, **kwargs)
            return inst
        if nm == 'StringConst':
            return Inst(sc, dict(cname=args[0], text=args[1], py_strings=None, c_used=False, escaped_value='<escaped>'), label=nm)
        return NotImplemented
    f = ObjFolder(ctx, construct=construct)
    line = gs.methods['get_py_string_const'].lineno if 'get_py_string_const' in gs.methods else 0
    if not line:
        raise AnalysisError('GlobalState.get_py_string_const vanished')
    cases = []
    for label, text, ident in (('str', TES('a b'), None), ('identifier', TES('abc'), True), ('str-identifier-like', TES('abc'), None)):
        cases.append((label, text, ident, True, None))
    for encname in ('utf8', 'latin1'):
        t = TBL(b'abc')
        t.encoding = encname
        cases.append(('bytes-' + encname, t, None, False, None if encname == 'utf8' else encname))
    for label, text, ident, want_unicode, want_enc in cases:
        me = Inst(gs, dict(string_const_index={}, const_cnames_used={}), label='globalstate')
        me.attrs['new_string_const_cname'] = lambda b: 'cname'
        try:
            got = f.inst_attr(me, 'get_py_string_const')(text, ident) if ident is not None else f.inst_attr(me, 'get_py_string_const')(text)
        except AnalysisError:
            raise
        except Exception as e:
            r.inst('request:' + label, sample='crash %r' % e)
            r.violate('Code.GlobalState.get_py_string_const:crash', CODE, line, 'get_py_string_const raises %s: %s for a %s literal' % (type(e).__name__, e, label))
            continue
        a = (bool(got.attrs.get('is_unicode')), got.attrs.get('encoding')) if isinstance(got, Inst) else None
        r.inst('request:' + label, sample='%s literal -> %r' % (label, a))
        if a is None or a[0] != want_unicode:
            r.violate('Code.GlobalState.get_py_string_const:kind:%s' % ('str' if want_unicode else 'bytes'), CODE, line,
                      'the Python constant requested for a %s literal is created as %s' % (label, 'a str object' if a and a[0] else 'a bytes object' if a else repr(got)))
        elif not want_unicode and (a[1] or None) != want_enc:
            r.violate('Code.GlobalState.get_py_string_const:encoding', CODE, line, 'the bytes constant of a %s literal records the encoding %r instead of %r' % (label, a[1], want_enc))
    return r


# =====================================================================================================
# C10-NL: literal line breaks inside triple-quoted literals ; C10-CODEC: encoder / decoder codec agreement
# =====================================================================================================

def rule_newlines(ctx):
    from .pC10 import literal_model, judge_literal
    r = Rule('C10-NL', 'line breaks inside triple-quoted literals (plain, after a backslash, doubled) in str / bytes / raw / f-string bodies: the lexicon tokens, '
             'p_string_literal_shared_read and the builders yield the value CPython assigns (the escape table C10-ESC extended by the NEWLINE token)', floor=30)
    m = literal_model(ctx)
    configs = [
        ('triple-quoted str literal', 'TDQ_STRING', 'u', False, '', None),
        ('triple-quoted bytes literal', 'TDQ_STRING', 'b', False, None, 'b'),
        ('triple-quoted unprefixed literal', 'TDQ_STRING', '', False, '', 'b'),
        ('triple-quoted raw str literal', 'TDQ_STRING', 'u', True, 'r', None),
        ('triple-single-quoted str literal', 'TSQ_STRING', 'u', False, '', None),
        ('triple-quoted f-string text', 'TDQ_STRING_FT', 'u', False, '', None),
    ]
    bodies = ['x\ny', '\n', 'x\n\ny', 'x\\\ny', '\\\n', 'x\n']
    found = {}
    for config in configs:
        for body in bodies:
            if config[1].startswith('TSQ'):
                cfg = config
                res = None
                # judge_literal closes with the quote of the state name: TSQ -> single quotes
                got = m.literal(config[1], body, "'''", config[2].rstrip('+'), config[3])
                if got is None:
                    continue
                from .pC10 import py_eval
                exp = py_eval(config[4], body, "'''")
                r.inst((body, config[0]), sample='%s, body %r' % (config[0], body))
                if 'unicode' not in got or got.get('error') or got['unicode'] != exp:
                    found.setdefault('newline:value', [PARSING, '%s with body %r: value %r, CPython gives %r' % (config[0], body, got.get('unicode'), exp), []])
                continue
            res = judge_literal(m, config, body)
            if res is None:
                continue
            r.inst((body, config[0]), sample='%s, body %r: %s' % (config[0], body, res[0]))
            if res[0] != 'ok':
                key = 'newline:%s%s' % ('continuation:' if '\\' in body else '', res[0])
                found.setdefault(key, [res[1], res[2], []])
    line = tables.find_function(ctx.parse(PARSING), 'p_string_literal_shared_read').lineno
    for key, (rel, msg, _) in sorted(found.items()):
        r.violate(key, rel, line if rel == PARSING else 0, msg)
    return r


# CPython C API: the decoder functions carry the codec in their name (Doc/c-api/unicode.rst, "Built-in Codecs")
def _codec_norm(name):
    n = name.lower().replace('-', '').replace('_', '')
    return {'latin1': 'latin1', 'iso88591': 'latin1', 'utf8': 'utf8', 'ascii': 'ascii', 'unicodeescape': 'unicodeescape', 'rawunicodeescape': 'rawunicodeescape',
            'utf16': 'utf16', 'utf32': 'utf32'}.get(n, n)


def rule_codec(ctx):
    r = Rule('C10-CODEC', 'codec agreement between compiler and generated code: where a function encodes literal data with codec X and emits a PyUnicode_Decode<Y>() call '
             'for it, Y is the C decoder of X', floor=2)
    ix = ctx.index
    n = 0
    for m in ix.modules.values():
        if not m.name.startswith('Cython.Compiler'):
            continue
        for qn, owner, fn in ix.functions_of(m):
            decs = set()
            for c in ast.walk(fn):
                if isinstance(c, ast.Constant) and isinstance(c.value, str):
                    decs |= set(re.findall(r'PyUnicode_Decode([A-Za-z0-9]+)\s*\(', c.value))
            decs = {d for d in decs if d.lower() not in ('', 'fsdefault', 'locale')}
            if not decs:
                continue
            encs = []
            for c in ast.walk(fn):
                if isinstance(c, ast.Call) and isinstance(c.func, ast.Attribute) and c.func.attr == 'encode' and c.args and isinstance(c.args[0], ast.Constant) and isinstance(c.args[0].value, str):
                    encs.append((c.args[0].value, c.lineno))
            for enc, ln in encs:
                n += 1
                key = '%s.%s:%s' % (m.short, qn, enc)
                r.inst(key, sample='%s.%s encodes with %r, emits PyUnicode_Decode%s' % (m.short, qn, enc, '/'.join(sorted(decs))))
                if len(decs) == 1 and _codec_norm(enc) != _codec_norm(next(iter(decs))):
                    r.violate('%s.%s:codec' % (m.short, qn), m.rel, ln,
                              '%s.%s encodes the literal data with %r but the emitted code decodes it with PyUnicode_Decode%s: characters that the two codecs treat differently '
                              '(backslashes, non-ASCII) change their value' % (m.short, qn, enc, next(iter(decs))))
    if n < 2:
        raise AnalysisError('only %d encode/decode pairs found' % n)
    return r
