"""C22 — exception-state bookkeeping of the try/except/finally generators (fourth round).

C22-ROLE / C22-ZERO: slot roles of the exception triples.
    The generators keep exception state in groups of three C temporaries.  Which *kind* of state a group holds is fixed by the
    helper that fills it:
        __Pyx_ExceptionSave / __Pyx_ExceptionSwap (&a, &b, &c)  ->  SAVED   the previous sys.exc_info() ("handled" exception)
        __Pyx_GetException / __Pyx_ErrFetch[WithState]          ->  CAUGHT  the exception that was raised / is propagating
    and each consumer needs one kind:
        __Pyx_ExceptionReset(a, b, c)           installs the triple as sys.exc_info()      -> needs SAVED
        __Pyx_ErrRestore[WithState](a, b, c)    re-raises the triple                       -> needs CAUGHT
        code.funcstate.exc_vars = G             what a bare `raise` / except* re-raises    -> needs CAUGHT
    Independently every slot has a *position* (type, value, traceback) given by the argument position at which it is passed.
    The rule evaluates the emitting functions symbolically (sequences of slots: allocation comprehensions, slices, tuple
    concatenation, `* 2`, loop variables, locals, parameters bound at the self.method(...) call sites, nested closures, %-format /
    f-string / join emission) and collects, per slot, every role and position fact.  A slot with two different roles or two
    different positions is a violation (the wrong triple is restored / re-raised, or type and value are exchanged).
    C22-ZERO: a function that emits `slot = 0;` for slots it did not fill itself must have handed them to a consuming helper or
    a decref in the same function — otherwise the saved state is dropped instead of restored.

C22-FSTATE: a generator that overwrites an attribute of code.funcstate after saving the old value in a local puts the saved
    value back on every normal path (path-sensitive, pyflow).

C22-CLEAR: in ExceptClauseNode.generate_handling_code every path to the generation of the handler body has emitted a helper
    that takes the raised exception out of the thread state (__Pyx_GetException, or __Pyx_ErrRestore(0,0,0) / __Pyx_PyErr_Clear).
"""
import ast, re

from ..core import Rule, AnalysisError, node_src
from ..engine import pyflow
from ..engine.pyindex import walk_no_nested

WRITERS = {'__Pyx_ExceptionSave': 'SAVED', '__Pyx_ExceptionSwap': 'SAVED',
           '__Pyx_GetException': 'CAUGHT', '__Pyx_ErrFetch': 'CAUGHT', '__Pyx_ErrFetchWithState': 'CAUGHT'}
CONSUMERS = {'__Pyx_ExceptionReset': 'SAVED', '__Pyx_ErrRestore': 'CAUGHT', '__Pyx_ErrRestoreWithState': 'CAUGHT'}
HELPERS = dict(WRITERS, **CONSUMERS)
POSNAME = ('type', 'value', 'traceback')
ROLEDESC = {'SAVED': 'the previous sys.exc_info() (filled by __Pyx_ExceptionSave/__Pyx_ExceptionSwap, to be given to __Pyx_ExceptionReset)',
            'CAUGHT': 'the raised exception (filled by __Pyx_GetException/__Pyx_ErrFetch, to be re-raised by __Pyx_ErrRestore or published as funcstate.exc_vars)'}
DECREFS = ('put_xdecref_clear', 'put_decref_clear', 'put_xdecref', 'put_decref', 'put_var_xdecref_clear', 'put_var_decref_clear')
FS = ('FS', 'code.funcstate.exc_vars')


# ------------------------------------------------------------------------------------------------- abstract values
class Seq:
    """root[start:stop] — a sequence of slots; stop None = open end"""
    __slots__ = ('root', 'start', 'stop')

    def __init__(self, root, start=0, stop=None):
        self.root, self.start, self.stop = root, start, stop

    def length(self):
        return None if self.stop is None else max(0, self.stop - self.start)

    def slots(self, n=None):
        k = self.length()
        if k is None:
            k = n if n is not None else 3
        elif n is not None:
            k = min(k, n)
        return [Slot(self.root, self.start + i) for i in range(k)]

    def cut(self, lo, hi):
        ln = self.length()
        if lo is None:
            lo = 0
        if lo < 0 or (hi is not None and hi < 0):
            if ln is None:
                return None
            lo = lo + ln if lo < 0 else lo
            hi = hi + ln if (hi is not None and hi < 0) else hi
        stop = self.stop if hi is None else (self.start + hi if self.stop is None else min(self.stop, self.start + hi))
        return Seq(self.root, self.start + lo, stop)

    def key(self):
        return ('seq', self.root, self.start, self.stop)

    def __eq__(self, o):
        return isinstance(o, Seq) and self.key() == o.key()

    def __hash__(self):
        return hash(self.key())


class Cat:
    """concatenation of sequences; every part but the last has a known length"""
    def __init__(self, parts):
        self.parts = parts

    def length(self):
        ls = [p.length() for p in self.parts]
        return None if any(l is None for l in ls) else sum(ls)

    def slots(self, n=None):
        out = []
        for p in self.parts:
            want = None if n is None else n - len(out)
            if want is not None and want <= 0:
                break
            out += p.slots(want)
        return out

    def cut(self, lo, hi):
        ln = self.length()
        lo = 0 if lo is None else lo
        if lo < 0 or (hi is not None and hi < 0):
            if ln is None:
                return None
            lo = lo + ln if lo < 0 else lo
            hi = hi + ln if (hi is not None and hi < 0) else hi
        parts, pos = [], 0
        for p in self.parts:
            pl = p.length()
            a = max(lo - pos, 0)
            b = None if hi is None else hi - pos
            if pl is None:
                c = p.cut(a, b)
                if c is None:
                    return None
                parts.append(c)
                break
            if (b is None or b > 0) and a < pl:
                parts.append(p.cut(a, b if (b is not None and b < pl) else None))
            pos += pl
        parts = [p for p in parts if p is not None and p.length() != 0]
        if not parts:
            return None
        return parts[0] if len(parts) == 1 else Cat(parts)

    def __eq__(self, o):
        return isinstance(o, Cat) and self.parts == o.parts

    def __hash__(self):
        return hash(tuple(self.parts))


class Slot:
    __slots__ = ('root', 'index')

    def __init__(self, root, index):
        self.root, self.index = root, index

    def key(self):
        return (self.root, self.index)

    def __eq__(self, o):
        return isinstance(o, Slot) and self.key() == o.key()

    def __hash__(self):
        return hash(self.key())

    def __repr__(self):
        return '%s[%d]' % (self.root[-1], self.index)


class Elem:
    """the loop variable of `for v in seq`"""
    def __init__(self, seq):
        self.seq = seq

    def __eq__(self, o):
        return isinstance(o, Elem) and self.seq == o.seq

    def __hash__(self):
        return hash(('elem', self.seq))


class Txt:
    """a string under construction: pieces = str | Slot | Elem | OP"""
    def __init__(self, pieces):
        self.pieces = pieces

    def __eq__(self, o):
        return isinstance(o, Txt) and self.pieces == o.pieces

    def __hash__(self):
        return hash(tuple(self.pieces))


class _Op:
    def __repr__(self):
        return '<?>'


OP = _Op()
ALLOC = 'alloc'
SPEC = re.compile(r'%(?:\((\w+)\))?[-#0 +]*(?:\d+|\*)?(?:\.\d+)?([diouxXeEfFgGcrsa%])')


def is_seq(v):
    return isinstance(v, (Seq, Cat))


# ------------------------------------------------------------------------------------------------- evaluator
class SlotEval:
    def __init__(self, ctx, modules):
        self.ctx, self.ix = ctx, ctx.index
        self.modules = modules
        self.facts = []           # (kind, slot, value, site)   kind in role-w, role-c, pos, zero, decref, fill
        self.sites = {}           # site key -> (rel, line, description)
        self.unresolved = []      # (site, helper, why)
        self.alloc_count = {}
        self.active = set()
        # seventh round (C22-GUARD): the emitted C conditionals open at each helper emission, per writer object
        self.cstack = {}          # writer source text -> [(kind, condition text)]   kind in block / if / else / pp
        self.cpending = {}        # writer -> condition of a brace-less `if (...)` emitted at the end of the previous text
        self.clast = {}           # writer -> entry closed last (for `} else {`)
        self.gfacts = []          # (helper, slots, site, conditions, fnq)
        self.calledfrom = {}      # function -> functions it was inlined into

    # ---- sites
    def site(self, cls, fnq, what, node):
        key = '%s:%s' % (fnq, what)
        self.sites.setdefault(key, (cls.module.rel if cls is not None else self.cur_rel, getattr(node, 'lineno', 0)))
        return key

    # ---- values
    def V(self, e, env, cls, fnq):
        if isinstance(e, ast.Name):
            return env.get(e.id)
        if isinstance(e, ast.Attribute):
            txt = node_src(e, 200)
            if txt.endswith('funcstate.exc_vars'):
                return Seq(FS, 0, None)
            if isinstance(e.value, ast.Name) and e.value.id == 'self':
                if ('self.' + e.attr) in env:
                    return env['self.' + e.attr]
                return Seq(('attr', cls.qual if cls is not None else '?', 'self.' + e.attr), 0, None)
            return None
        if isinstance(e, ast.Subscript):
            base = self.V(e.value, env, cls, fnq)
            if not is_seq(base):
                return None
            sl = e.slice
            if isinstance(sl, ast.Slice):
                if sl.step is not None:
                    return None
                lo, hi = self.const_int(sl.lower), self.const_int(sl.upper)
                if (sl.lower is not None and lo is None) or (sl.upper is not None and hi is None):
                    return None
                return base.cut(lo, hi)
            i = self.const_int(sl)
            if i is None:
                return None
            if i < 0:
                ln = base.length()
                if ln is None:
                    return None
                i += ln
            s = base.cut(i, i + 1)
            ss = s.slots(1) if s is not None else []
            return ss[0] if ss else None
        if isinstance(e, ast.Call):
            f = e.func
            if isinstance(f, ast.Name) and f.id in ('tuple', 'list') and len(e.args) == 1 and not e.keywords:
                return self.V(e.args[0], env, cls, fnq)
            if isinstance(f, ast.Attribute) and f.attr == 'join':
                return Txt(self.S(e, env, cls, fnq))
            return None
        if isinstance(e, (ast.ListComp, ast.GeneratorExp)):
            if len(e.generators) == 1 and not e.generators[0].ifs:
                g = e.generators[0]
                it = g.iter
                if isinstance(e.elt, ast.Call) and isinstance(e.elt.func, ast.Attribute) and e.elt.func.attr == 'allocate_temp' \
                        and isinstance(it, ast.Call) and isinstance(it.func, ast.Name) and it.func.id == 'range' and len(it.args) == 1:
                    n = self.const_int(it.args[0])
                    if n is not None:
                        return (ALLOC, n)
            return None
        if isinstance(e, ast.BinOp):
            if isinstance(e.op, ast.Add):
                a, b = self.V(e.left, env, cls, fnq), self.V(e.right, env, cls, fnq)
                if is_seq(a) and is_seq(b):
                    parts = (a.parts if isinstance(a, Cat) else [a]) + (b.parts if isinstance(b, Cat) else [b])
                    if all(p.length() is not None for p in parts[:-1]):
                        return Cat(parts)
                    return None
                if isinstance(a, Txt) or isinstance(b, Txt) or self.strish(e):
                    return Txt(self.S(e, env, cls, fnq))
                return None
            if isinstance(e.op, ast.Mult):
                a, k = self.V(e.left, env, cls, fnq), self.const_int(e.right)
                if is_seq(a) and k is not None and a.length() is not None and 0 < k <= 4:
                    parts = (a.parts if isinstance(a, Cat) else [a]) * k
                    return Cat(parts)
                if self.strish(e):
                    return Txt(self.S(e, env, cls, fnq))
                return None
            if isinstance(e.op, ast.Mod):
                return Txt(self.S(e, env, cls, fnq))
            return None
        if isinstance(e, ast.JoinedStr) or (isinstance(e, ast.Constant) and isinstance(e.value, str)):
            return Txt(self.S(e, env, cls, fnq))
        if isinstance(e, ast.IfExp):
            a, b = self.V(e.body, env, cls, fnq), self.V(e.orelse, env, cls, fnq)
            return a if a == b else None
        return None

    @staticmethod
    def const_int(e):
        if e is None:
            return None
        if isinstance(e, ast.Constant) and isinstance(e.value, int) and not isinstance(e.value, bool):
            return e.value
        if isinstance(e, ast.UnaryOp) and isinstance(e.op, ast.USub) and isinstance(e.operand, ast.Constant) and isinstance(e.operand.value, int):
            return -e.operand.value
        return None

    def strish(self, e):
        if isinstance(e, ast.JoinedStr) or (isinstance(e, ast.Constant) and isinstance(e.value, str)):
            return True
        if isinstance(e, ast.BinOp) and isinstance(e.op, (ast.Add, ast.Mod, ast.Mult)):
            return self.strish(e.left)
        if isinstance(e, ast.Call) and isinstance(e.func, ast.Attribute) and e.func.attr == 'join':
            return True
        if isinstance(e, ast.List) and e.elts and all(self.strish(x) for x in e.elts):
            return True
        return False

    # ---- strings
    def S(self, e, env, cls, fnq):
        """pieces of the string value of e"""
        if isinstance(e, ast.Constant):
            return [e.value if isinstance(e.value, str) else str(e.value)]
        if isinstance(e, ast.JoinedStr):
            out = []
            for v in e.values:
                if isinstance(v, ast.Constant):
                    out.append(str(v.value))
                else:
                    out += self.as_pieces(self.V(v.value, env, cls, fnq))
            return out
        if isinstance(e, ast.BinOp) and isinstance(e.op, ast.Add):
            return self.S(e.left, env, cls, fnq) + self.S(e.right, env, cls, fnq)
        if isinstance(e, ast.BinOp) and isinstance(e.op, ast.Mult):
            k = self.const_int(e.right)
            base = self.S(e.left, env, cls, fnq)
            if k is not None and 0 < k <= 8:
                return base * k
            return [OP]
        if isinstance(e, ast.BinOp) and isinstance(e.op, ast.Mod):
            left = self.S(e.left, env, cls, fnq)
            if isinstance(e.right, ast.Tuple):
                supply = [self.V(x, env, cls, fnq) for x in e.right.elts]
            else:
                v = self.V(e.right, env, cls, fnq)
                if is_seq(v):
                    supply = v
                else:
                    supply = [v]
            return self.subst(left, supply)
        if isinstance(e, ast.Call) and isinstance(e.func, ast.Attribute) and e.func.attr == 'join' and len(e.args) == 1:
            sep = self.S(e.func.value, env, cls, fnq)
            sep = sep[0] if (len(sep) == 1 and isinstance(sep[0], str)) else ' '
            a = e.args[0]
            if isinstance(a, (ast.ListComp, ast.GeneratorExp)) and len(a.generators) == 1 and isinstance(a.generators[0].target, ast.Name):
                g = a.generators[0]
                it = self.V(g.iter, env, cls, fnq)
                if is_seq(it) and not g.ifs:
                    env2 = dict(env)
                    env2[g.target.id] = Elem(it)
                    return self.S(a.elt, env2, cls, fnq) if self.strish(a.elt) else self.as_pieces(self.V(a.elt, env2, cls, fnq))
                return [OP]
            if isinstance(a, ast.List):
                out = []
                for i, x in enumerate(a.elts):
                    if i:
                        out.append(sep)
                    out += self.S(x, env, cls, fnq) if self.strish(x) else self.as_pieces(self.V(x, env, cls, fnq))
                return out
            if isinstance(a, ast.BinOp) and isinstance(a.op, ast.Mult) and isinstance(a.left, ast.List):
                k = self.const_int(a.right)
                if k is not None and 0 < k <= 8:
                    one = []
                    for x in a.left.elts:
                        one.append(self.S(x, env, cls, fnq) if self.strish(x) else [OP])
                    out = []
                    for i in range(k):
                        for p in one:
                            if out:
                                out.append(sep)
                            out += p
                    return out
                return [OP]
            v = self.V(a, env, cls, fnq)
            if is_seq(v):
                return [Elem(v)]
            return [OP]
        return self.as_pieces(self.V(e, env, cls, fnq))

    @staticmethod
    def as_pieces(v):
        if isinstance(v, Txt):
            return list(v.pieces)
        if isinstance(v, (Slot, Elem)):
            return [v]
        return [OP]

    @staticmethod
    def subst(left, supply):
        """apply the %-operands to the pieces of the format string"""
        it = iter(supply.slots(64)) if is_seq(supply) else iter(supply)
        out = []
        for p in left:
            if not isinstance(p, str):
                out.append(p)
                continue
            pos = 0
            for m in SPEC.finditer(p):
                out.append(p[pos:m.start()])
                pos = m.end()
                if m.group(2) == '%':
                    out.append('%')
                    continue
                if m.group(1):
                    out.append(OP)
                    continue
                try:
                    v = next(it)
                except StopIteration:
                    v = None
                out += SlotEval.as_pieces(v)
            out.append(p[pos:])
        return out

    # ---- scanning emitted text
    def scan(self, pieces, cls, fnq, node):
        marks, text = [], ''
        for p in pieces:
            if isinstance(p, str):
                text += p.replace('\x00', ' ')
            else:
                text += '\x00%d\x00' % len(marks)
                marks.append(p)
        conds_at = self.guard_pass(text, marks, node)
        if not marks and not any(h in text for h in HELPERS):
            return

        def marks_in(s):
            return [marks[int(k)] for k in re.findall(r'\x00(\d+)\x00', s)]
        for m in re.finditer(r'\b(__Pyx_\w+)\s*\(', text):
            name = m.group(1)
            if name not in HELPERS:
                continue
            depth, i, args, cur = 0, m.end(), [], ''
            while i < len(text):
                ch = text[i]
                if ch in '([':
                    depth += 1
                elif ch in ')]':
                    if depth == 0:
                        break
                    depth -= 1
                if ch == ',' and depth == 0:
                    args.append(cur)
                    cur = ''
                else:
                    cur += ch
                i += 1
            args.append(cur)
            slots = None
            allm = [marks_in(a) for a in args]
            if len(args) == 3 and all(len(x) == 1 and isinstance(x[0], Slot) for x in allm):
                slots = [x[0] for x in allm]
            elif len(args) == 1 and len(allm[0]) == 1 and isinstance(allm[0][0], Elem):
                slots = allm[0][0].seq.slots(3)
                if len(slots) != 3:
                    slots = None
            elif all(not x for x in allm) and all(re.fullmatch(r'\s*(0|NULL)\s*', a) for a in args):
                self.facts.append(('clear', None, name, self.site(cls, fnq, name + '(0,0,0)', node)))
                continue
            site = self.site(cls, fnq, name, node)
            if slots is None:
                self.unresolved.append((site, name, 'arguments `%s`' % re.sub(r'\x00\d+\x00', '<slot>', ','.join(args))[:60]))
                continue
            role = HELPERS[name]
            kind = 'role-w' if name in WRITERS else 'role-c'
            self.gfacts.append((name, tuple(slots), site, conds_at.get(m.start(), ()), fnq))
            for k, s in enumerate(slots):
                self.facts.append((kind, s, role, site, name, fnq))
                self.facts.append(('pos', s, k, site, name, fnq))
        # zeroing / typed stores
        for m in re.finditer(r'(?:^|[;{}\s])\x00(\d+)\x00\s*=(?!=)\s*([^;]*);', text):
            mk, rhs = marks[int(m.group(1))], m.group(2).strip()
            tgt = mk.seq.slots() if isinstance(mk, Elem) else [mk] if isinstance(mk, Slot) else []
            if re.fullmatch(r'0|NULL', rhs):
                for s in tgt:
                    self.facts.append(('zero', s, None, self.site(cls, fnq, 'zero', node), '= 0', fnq))
            elif isinstance(mk, Slot):
                if re.match(r'(\(\s*PyObject\s*\*\s*\)\s*)?Py_TYPE\s*\(', rhs):
                    self.facts.append(('pos', mk, 0, self.site(cls, fnq, 'store:Py_TYPE', node), '= Py_TYPE(...)', fnq))
                elif re.match(r'PyException_GetTraceback\s*\(', rhs):
                    self.facts.append(('pos', mk, 2, self.site(cls, fnq, 'store:GetTraceback', node), '= PyException_GetTraceback(...)', fnq))

    # ---- emitted C conditionals (C22-GUARD)
    @staticmethod
    def writer_of(node):
        f = getattr(node, 'func', None)
        if isinstance(f, ast.Attribute) and f.attr in ('putln', 'put', 'put_safe'):
            return node_src(f.value, 80)
        return None

    @staticmethod
    def cond_text(s, marks):
        def nm(m):
            v = marks[int(m.group(1))]
            if isinstance(v, Slot):
                return '<%s>' % slot_name(v)
            if isinstance(v, Elem):
                return '<each of %s>' % '/'.join(slot_name(x) for x in v.seq.slots(3))
            return '<?>'
        return re.sub(r'\s+', ' ', re.sub(r'\x00(\d+)\x00', nm, s)).strip()

    def guard_pass(self, text, marks, node):
        """follow the braces / preprocessor lines of one emitted text; -> {offset of a helper call: conditions open there}"""
        w = self.writer_of(node)
        track = w is not None
        w = w or 'code'
        stack = self.cstack.setdefault(w, []) if track else list(self.cstack.get(w, []))
        t = re.sub(r'/\*.*?\*/', lambda m: ' ' * len(m.group(0)), text, flags=re.S)
        out = {}
        start = 0
        pend = self.cpending.pop(w, None) if track else None
        for m in re.finditer(r'(?m)^[ \t]*#[ \t]*(if|ifdef|ifndef|elif|else|endif)\b([^\n]*)|[{};]|\b(__Pyx_\w+)\s*\(', t):
            tok = m.group(0)
            if m.group(1):
                d, rest = m.group(1), self.cond_text(m.group(2), marks)
                if d in ('if', 'ifdef', 'ifndef'):
                    stack.append(('pp', '#%s %s' % (d, rest)))
                elif d in ('elif', 'else'):
                    old = stack.pop() if stack and stack[-1][0] == 'pp' else ('pp', '#if ?')
                    stack.append(('pp', '#%s %s after %s' % (d, rest, old[1]) if rest else '#else of %s' % old[1]))
                elif stack and stack[-1][0] == 'pp':
                    stack.pop()
                start = m.end()
            elif tok == '{':
                prefix = t[start:m.start()].strip()
                pm = re.match(r'(?:else\s+)?(?:if|while|for|switch)\s*\(.*\)$', prefix, re.S)
                if pm:
                    stack.append(('if', self.cond_text(prefix, marks)))
                elif prefix == 'else':
                    last = self.clast.get(w)
                    stack.append(('else', 'else of ' + (last[1] if last and last[1] else '?')))
                elif pend and not prefix:
                    stack.append(('if', pend))
                else:
                    stack.append(('block', None))
                pend = None
                start = m.end()
            elif tok == '}':
                if stack and stack[-1][0] != 'pp':
                    self.clast[w] = stack.pop()
                start = m.end()
            elif tok == ';':
                start = m.end()
                pend = None
            elif m.group(3) in HELPERS:
                conds = [c for k, c in stack if k != 'block']
                if pend:
                    conds.append(pend)
                prefix = t[start:m.start()]
                pm = re.match(r'\s*(?:else\s+)?(?:if|while|for)\s*\(', prefix)
                if pm:
                    depth, i = 1, pm.end()
                    while i < len(prefix) and depth:
                        depth += {'(': 1, ')': -1}.get(prefix[i], 0)
                        i += 1
                    if depth == 0:
                        conds.append(self.cond_text(prefix[:i], marks))
                elif re.match(r'\s*else\b', prefix):
                    conds.append('else')
                out[m.start()] = tuple(conds)
        if track:
            tail = t[start:].strip()
            if re.match(r'(?:else\s+)?(?:if|while|for)\s*\(.*\)$', tail, re.S) and tail.count('(') == tail.count(')'):
                self.cpending[w] = self.cond_text(tail, marks)
            elif pend and not tail:
                self.cpending[w] = pend
        return out

    def cs_save(self):
        return {k: list(v) for k, v in self.cstack.items()}

    @staticmethod
    def cs_merge(pre, a, b):
        out = {}
        for k in set(a) | set(b):
            va, vb, vp = a.get(k, []), b.get(k, []), pre.get(k, [])
            if va == vb or vb == vp:
                out[k] = va
            elif va == vp:
                out[k] = vb
            elif len(va) == len(vb):
                out[k] = [x if x == y else ('if', '%s | %s' % (x[1], y[1])) for x, y in zip(va, vb)]
            else:
                out[k] = va if len(va) > len(vb) else vb
        return out

    # ---- statements
    def merge(self, pre, a, b):
        out = {}
        for k in set(a) | set(b):
            va, vb = a.get(k), b.get(k)
            if va == vb:
                out[k] = va
            elif va is None:
                out[k] = vb
            elif vb is None:
                out[k] = va
            elif vb == pre.get(k):
                out[k] = va          # assigned in the first arm only: later uses are guarded by the same condition
            elif va == pre.get(k):
                out[k] = vb
            else:
                out[k] = None
        return out

    def bind(self, target, val, env, cls, fnq, value_node=None):
        if isinstance(target, ast.Name):
            if isinstance(val, tuple) and val and val[0] == ALLOC:
                k = self.alloc_count.get((fnq, target.id), 0) + 1
                self.alloc_count[(fnq, target.id)] = k
                val = Seq(('local', fnq, target.id if k == 1 else '%s#%d' % (target.id, k)), 0, val[1])
            env[target.id] = val
        elif isinstance(target, (ast.Tuple, ast.List)):
            if isinstance(value_node, (ast.Tuple, ast.List)) and len(value_node.elts) == len(target.elts):
                vals = [self.V(x, env, cls, fnq) for x in value_node.elts]
                for t, v, vn in zip(target.elts, vals, value_node.elts):
                    self.bind(t, v, env, cls, fnq, vn)
            else:
                for t in target.elts:
                    self.bind(t, None, env, cls, fnq)
        elif isinstance(target, ast.Attribute):
            txt = node_src(target, 200)
            if txt.endswith('funcstate.exc_vars') and is_seq(val):
                site = self.site(cls, fnq, 'funcstate.exc_vars=', target)
                for k, s in enumerate(val.slots(3)):
                    self.facts.append(('role-c', s, 'CAUGHT', site, 'code.funcstate.exc_vars = ...', fnq))
                    self.facts.append(('pos', s, k, site, 'code.funcstate.exc_vars = ...', fnq))
            elif isinstance(target.value, ast.Name) and target.value.id == 'self':
                env['self.' + target.attr] = val if not (isinstance(val, tuple) and val and val[0] == ALLOC) else \
                    Seq(('attr', cls.qual if cls is not None else '?', 'self.' + target.attr), 0, val[1])

    def exprs(self, node, env, cls, fnq):
        """effects of the calls inside one simple statement / expression"""
        for c in [n for n in walk_no_nested(node) if isinstance(n, ast.Call)] if not isinstance(node, ast.Call) else \
                [n for n in ast.walk(node) if isinstance(n, ast.Call)]:
            f = c.func
            for a in list(c.args) + [k.value for k in c.keywords]:
                if self.strish(a) or (isinstance(a, ast.Name) and isinstance(env.get(a.id), Txt)):
                    self.scan(self.S(a, env, cls, fnq), cls, fnq, c)
            if isinstance(f, ast.Attribute):
                if f.attr in DECREFS and c.args:
                    v = self.V(c.args[0], env, cls, fnq)
                    tgt = v.seq.slots() if isinstance(v, Elem) else [v] if isinstance(v, Slot) else []
                    for s in tgt:
                        self.facts.append(('decref', s, None, self.site(cls, fnq, f.attr, c), f.attr, fnq))
                elif f.attr == 'set_var' and len(c.args) == 1 and isinstance(f.value, ast.Attribute) and f.value.attr == 'exc_value' \
                        and isinstance(f.value.value, ast.Name) and f.value.value.id == 'self':
                    v = self.V(c.args[0], env, cls, fnq)
                    if isinstance(v, Slot):
                        self.facts.append(('pos', v, 1, self.site(cls, fnq, 'self.exc_value.set_var', c), 'self.exc_value.set_var(...) (the `as` target)', fnq))
                elif isinstance(f.value, ast.Name) and f.value.id == 'self' and cls is not None:
                    r = self.ix.find_method(cls, f.attr)
                    if r is not None and self.relevant(r[0], r[1]):
                        owner, fn = r
                        params = [x.arg for x in fn.args.args][1:]
                        env2 = {}
                        for p, a in zip(params, c.args):
                            env2[p] = self.V(a, env, cls, fnq)
                        for k in c.keywords:
                            if k.arg:
                                env2[k.arg] = self.V(k.value, env, cls, fnq)
                        self.run_fn(owner, fn, env2, '%s.%s' % (owner.qual, fn.name))

    def walk(self, stmts, env, cls, fnq):
        for st in stmts:
            if isinstance(st, (ast.FunctionDef, ast.AsyncFunctionDef)):
                keep = self.cstack, self.cpending
                self.cstack, self.cpending = {}, {}
                self.walk(st.body, dict(env), cls, fnq + '.' + st.name)
                self.cstack, self.cpending = keep
            elif isinstance(st, ast.ClassDef):
                continue
            elif isinstance(st, ast.If):
                self.exprs(st.test, env, cls, fnq)
                pre = dict(env)
                a = dict(env)
                cpre = self.cs_save()
                self.walk(st.body, a, cls, fnq)
                ca = self.cs_save()
                self.cstack = {k: list(v) for k, v in cpre.items()}
                b = dict(env)
                self.walk(st.orelse, b, cls, fnq)
                self.cstack = self.cs_merge(cpre, ca, self.cs_save())
                env.clear()
                env.update(self.merge(pre, a, b))
            elif isinstance(st, (ast.For, ast.AsyncFor)):
                self.exprs(st.iter, env, cls, fnq)
                it = self.V(st.iter, env, cls, fnq)
                if isinstance(st.target, ast.Name):
                    env[st.target.id] = Elem(it) if is_seq(it) else None
                else:
                    self.bind(st.target, None, env, cls, fnq)
                self.walk(st.body, env, cls, fnq)
                self.walk(st.orelse, env, cls, fnq)
            elif isinstance(st, ast.While):
                self.exprs(st.test, env, cls, fnq)
                self.walk(st.body, env, cls, fnq)
                self.walk(st.orelse, env, cls, fnq)
            elif isinstance(st, (ast.With, ast.AsyncWith)):
                for it in st.items:
                    self.exprs(it.context_expr, env, cls, fnq)
                self.walk(st.body, env, cls, fnq)
            elif isinstance(st, ast.Try):
                self.walk(st.body, env, cls, fnq)
                for h in st.handlers:
                    self.walk(h.body, env, cls, fnq)
                self.walk(st.orelse, env, cls, fnq)
                self.walk(st.finalbody, env, cls, fnq)
            elif isinstance(st, ast.Assign):
                self.exprs(st.value, env, cls, fnq)
                val = self.V(st.value, env, cls, fnq)
                for t in st.targets:
                    self.bind(t, val, env, cls, fnq, st.value)
            elif isinstance(st, ast.AnnAssign) and st.value is not None:
                self.exprs(st.value, env, cls, fnq)
                self.bind(st.target, self.V(st.value, env, cls, fnq), env, cls, fnq, st.value)
            elif isinstance(st, ast.AugAssign):
                self.exprs(st.value, env, cls, fnq)
                self.bind(st.target, None, env, cls, fnq)
            else:
                self.exprs(st, env, cls, fnq)

    def relevant(self, cls, fn):
        src = self.src_of(cls.module, fn)
        return 'exc_vars' in src or any(h in src for h in HELPERS) or 'exc_save' in src

    @staticmethod
    def src_of(m, fn):
        lines = m.src.split('\n')
        return '\n'.join(lines[fn.lineno - 1:fn.end_lineno])

    def run_fn(self, cls, fn, env, fnq):
        if fnq in self.active or len(self.active) > 4:
            return
        if not self.active:
            self.cstack, self.cpending, self.clast = {}, {}, {}
        for a in self.active:
            self.calledfrom.setdefault(fnq, set()).add(a)      # fnq is emitted as a part of a (self.helper() inlined)
        self.active.add(fnq)
        try:
            e = {}
            for a in fn.args.args[1:] + fn.args.kwonlyargs:
                e[a.arg] = env.get(a.arg)
            self.walk(fn.body, e, cls, fnq)
        finally:
            self.active.discard(fnq)


def collect(ctx):
    ix = ctx.index
    mods = [m for m in ix.modules.values() if m.rel.startswith('Cython/Compiler/') and any(h + '(' in m.src for h in HELPERS)]
    if not mods:
        raise AnalysisError('no compiler module emits the exception-state helpers any more')
    ev = SlotEval(ctx, mods)
    for m in mods:
        ev.cur_rel = m.rel
        classes = [c for c in ix.all_classes() if c.module is m]
        for c in classes:
            # methods of the class that are called as self.m(...) from a sibling are analysed through their callers
            called = set()
            for fn in c.methods.values():
                for n in walk_no_nested(fn):
                    if isinstance(n, ast.Call) and isinstance(n.func, ast.Attribute) and isinstance(n.func.value, ast.Name) and n.func.value.id == 'self':
                        called.add(n.func.attr)
            for name, fn in c.methods.items():
                if not ev.relevant(c, fn):
                    continue
                if name in called and any(isinstance(n, ast.Call) and isinstance(n.func, ast.Attribute) and n.func.attr == name and ev.relevant(c, f2)
                                          for f2 in c.methods.values() if f2 is not fn for n in walk_no_nested(f2)):
                    continue
                ev.run_fn(c, fn, {}, '%s.%s' % (c.qual, name))
    return ev


def slot_name(s):
    root = s.root
    if root == FS:
        return 'code.funcstate.exc_vars[%d]' % s.index
    if root[0] == 'local':
        return '%s:%s[%d]' % (root[1], root[2], s.index)
    if root[0] == 'attr':
        return '%s:%s[%d]' % (root[1], root[2], s.index)
    return '%r[%d]' % (root, s.index)


def group_name(s):
    root = s.root
    if root == FS:
        return 'code.funcstate.exc_vars'
    return '%s:%s' % (root[1], root[2])


CONTROL_ROLE = '''
class T:
    def gen(self, code):
        six = tuple([code.funcstate.allocate_temp(t, manage_ref=False) for _ in range(6)])
        self.catch(code, six)
        self.clean(code, six)
    def catch(self, code, v):
        code.putln("__Pyx_ExceptionSwap(&%s, &%s, &%s);" % v[3:])
        code.putln("if (__Pyx_GetException(&%s, &%s, &%s) < 0) __Pyx_ErrFetch(&%s, &%s, &%s);" % (v[:3] * 2))
    def clean(self, code, v):
        saved, caught = v[:3], v[3:]
        code.putln("__Pyx_ExceptionReset(%s, %s, %s);" % saved)
        for x in caught:
            code.put_xdecref_clear(x, t)
'''


def role_problems(facts):
    """-> [(slot, kind, message, site)]"""
    by = {}
    for f in facts:
        if f[1] is None:
            continue
        by.setdefault(f[1].key(), []).append(f)
    out = []
    for k, fs in sorted(by.items(), key=lambda kv: repr(kv[0])):
        slot = fs[0][1]
        roles = {}
        for f in fs:
            if f[0] in ('role-w', 'role-c'):
                roles.setdefault(f[2], []).append(f)
        if len(roles) > 1:
            ws = [f for f in fs if f[0] == 'role-w']
            cs = [f for f in fs if f[0] == 'role-c']
            # blame the consumer that disagrees with the writers (or, without a writer, the minority)
            wroles = {f[2] for f in ws}
            bad = [f for f in cs if wroles and f[2] not in wroles] or cs or ws
            f = bad[0]
            other = next(x for x in fs if x[0] in ('role-w', 'role-c') and x[2] != f[2])
            out.append((slot, 'role', '%s is passed to %s in %s, which needs %s, but %s (%s) makes it %s' % (
                slot_name(slot), f[4], f[5], ROLEDESC[f[2]].split(' (')[0], other[4], other[5], ROLEDESC[other[2]].split(' (')[0]), f[3]))
        poss = {}
        for f in fs:
            if f[0] == 'pos':
                poss.setdefault(f[2], []).append(f)
        if len(poss) > 1:
            items = sorted(poss.items())
            # blame the use that disagrees with the position the writer helper gave the slot
            wsite = {f[3] for f in fs if f[0] == 'role-w'}
            wpos = {f[2] for f in fs if f[0] == 'pos' and f[3] in wsite}
            cand = [f for p, l in items for f in l if wpos and p not in wpos] or items[-1][1]
            f = cand[0]
            other = next(x for p, l in items for x in l if p != f[2])
            out.append((slot, 'position', '%s is used as the %s of the triple by %s (%s) but as the %s by %s (%s): type / value / traceback are exchanged' % (
                slot_name(slot), POSNAME[f[2]], f[4], f[5], POSNAME[other[2]], other[4], other[5]), f[3]))
    return out


def zero_problems(facts, calledfrom=None):
    """functions that zero slots they neither filled nor consumed (themselves or in a self.helper() they call) -> [(fn, group, site, slots)]"""
    calledfrom = calledfrom or {}
    per_fn = {}
    for f in facts:
        if f[1] is None:
            continue
        per_fn.setdefault(f[5], []).append(f)
    roles = {f[1].key() for f in facts if f[0] in ('role-w', 'role-c')}
    out, inst = [], []
    for fnq, fs in sorted(per_fn.items()):
        zeroed = {}
        for f in fs:
            if f[0] == 'zero' and f[1].key() in roles:
                zeroed.setdefault(f[1].key(), f)
        if not zeroed:
            continue
        handled = {f[1].key() for f in fs if f[0] in ('role-w', 'role-c', 'decref')}
        handled |= {f[1].key() for f in facts if f[1] is not None and f[0] in ('role-w', 'role-c', 'decref') and fnq in calledfrom.get(f[5], ())}
        inst.append((fnq, sorted(zeroed)))
        missing = sorted(k for k in zeroed if k not in handled)
        if missing:
            out.append((fnq, zeroed[missing[0]], missing))
    return inst, out


CONTROL_GUARD = '''
class T:
    def gen(self, code):
        six = tuple([code.funcstate.allocate_temp(t, manage_ref=False) for _ in range(6)])
        self.catch(code, six)
        self.clean(code, six)
    def catch(self, code, v):
        code.putln("__Pyx_ExceptionSwap(&%s, &%s, &%s);" % v[3:])
    def clean(self, code, v):
        code.putln("if (%s) {" % v[4])
        code.putln("__Pyx_ExceptionReset(%s, %s, %s);" % v[3:])
        code.putln("}")
'''


def guard_problems(gfacts):
    """SAVED triples: the emitted C conditions around the helper that restores them equal those around the helper that saved them
    -> (instances [(site, sample)], problems [(site, group, message)])"""
    by = {}
    for name, slots, site, conds, fnq in gfacts:
        if HELPERS[name] != 'SAVED':
            continue
        by.setdefault(group_name(slots[0]), []).append((name, site, conds, fnq))
    inst, out = [], []
    for grp, fs in sorted(by.items()):
        ws = [f for f in fs if f[0] in WRITERS]
        cs = [f for f in fs if f[0] in CONSUMERS]
        for f in fs:
            inst.append((f[1], '%s: %s of %s under %s' % (f[1], f[0], grp, ' && '.join(f[2]) or 'no emitted condition')))
        if not ws or not cs:
            continue
        wconds, cconds = {f[2] for f in ws}, {f[2] for f in cs}
        for name, site, conds, fnq in cs:
            if conds not in wconds:
                w = ws[0]
                extra = [c for c in conds if c not in w[2]] or list(conds)
                out.append((site, grp, '%s emits %s for %s inside the emitted C condition `%s`, but the triple was filled by %s (%s) %s: on the paths where the condition '
                            'does not hold the previous sys.exc_info() is not put back (a saved state of NULL/NULL/NULL means "no exception was being handled" and must be '
                            'restored like any other: the exception installed in between stays the handled one, sys.exc_info() / __context__ of later exceptions are stale)'
                            % (fnq, name, grp, ' && '.join(extra), w[0], w[3], 'under `%s`' % ' && '.join(w[2]) if w[2] else 'unconditionally')))
        for name, site, conds, fnq in ws:
            if conds not in cconds:
                c = cs[0]
                out.append((site, grp, '%s emits %s for %s under the emitted C condition `%s`, but %s (%s) hands the triple back %s: when the save did not run the '
                            'restore installs an empty / stale triple as sys.exc_info()' % (fnq, name, grp, ' && '.join(conds) or 'none', c[0], c[3],
                                                                                     'under `%s`' % ' && '.join(c[2]) if c[2] else 'unconditionally')))
    return inst, out


def _control_eval(ctx, src):
    ctl = SlotEval(ctx, [])
    ctl.cur_rel = '<control>'
    tree = ast.parse(src)

    class FakeCls:
        qual = 'T'
        module = type('M', (), {'rel': '<control>', 'src': src})()
        methods = {f.name: f for f in tree.body[0].body}
    ctl.ix = type('IX', (), {'find_method': staticmethod(lambda c, n: (c, c.methods[n]) if n in c.methods else None)})()
    ctl.run_fn(FakeCls, FakeCls.methods['gen'], {}, 'T.gen')
    return ctl


def rule_guard(ctx, ev):
    g = Rule('C22-GUARD', 'the previous sys.exc_info() saved by __Pyx_ExceptionSave/Swap is put back by __Pyx_ExceptionReset under exactly the emitted C conditions '
             '(if / else / loop blocks, brace-less if, #if arms) under which it was saved - in particular never depending on whether a saved slot is NULL', floor=4)
    inst, probs = guard_problems(ev.gfacts)
    for site, sample in inst:
        g.inst(site, sample=sample)
    seen = set()
    for site, grp, msg in probs:
        key = '%s:guard:%s' % (site, grp)
        if key in seen:
            continue
        seen.add(key)
        rel, line = ev.sites[site]
        g.violate(key, rel, line, msg)
    g.positive_control(bool(guard_problems(_control_eval(ctx, CONTROL_GUARD).gfacts)[1]), '__Pyx_ExceptionReset emitted inside `if (saved value) {`')
    return g


def rules_slots(ctx):
    ev = collect(ctx)
    r = Rule('C22-ROLE', 'exception triples of the try/except/finally generators: a slot filled by __Pyx_ExceptionSave/Swap (previous sys.exc_info()) only reaches '
             '__Pyx_ExceptionReset, a slot filled by __Pyx_GetException/__Pyx_ErrFetch (raised exception) only reaches __Pyx_ErrRestore / code.funcstate.exc_vars, '
             'and every slot keeps its position (type, value, traceback) in all helper calls', floor=16)
    sites = {}
    for f in ev.facts:
        if f[0] in ('role-w', 'role-c'):
            sites.setdefault(f[3], []).append(f)
    for site, fs in sorted(sites.items()):
        r.inst(site, sample='%s: %s %s <- %s' % (site, fs[0][0], fs[0][2], ', '.join(slot_name(f[1]) for f in fs[:3])))
    for site, name, why in ev.unresolved:
        r.inst(site + ':unresolved', nontrivial=False)
        r.info('%s: the slots passed to %s cannot be resolved (%s); not checked' % (site, name, why))
    for f in ev.facts:
        if f[0] == 'pos' and f[3] not in sites:
            r.inst(f[3], sample='%s: position %s <- %s' % (f[3], POSNAME[f[2]], slot_name(f[1])))
    seen = set()
    for slot, kind, msg, site in role_problems(ev.facts):
        key = '%s:%s:%s' % (site, kind, group_name(slot))
        if key in seen:
            continue
        seen.add(key)
        rel, line = ev.sites[site]
        r.violate(key, rel, line, msg + (' — sys.exc_info()/__context__ after the statement or the re-raised exception is the wrong one' if kind == 'role' else ''))
    # positive control: seed C22c shape
    ctl = SlotEval(ctx, [])
    ctl.cur_rel = '<control>'
    tree = ast.parse(CONTROL_ROLE)

    class FakeCls:
        qual = 'T'
        module = type('M', (), {'rel': '<control>', 'src': CONTROL_ROLE})()
        methods = {f.name: f for f in tree.body[0].body}
    ctl.ix = type('IX', (), {'find_method': staticmethod(lambda c, n: (c, c.methods[n]) if n in c.methods else None)})()
    ctl.run_fn(FakeCls, FakeCls.methods['gen'], {}, 'T.gen')
    r.positive_control(any(k == 'role' for _, k, _, _ in role_problems(ctl.facts)), 'cleanup hands the caught triple to __Pyx_ExceptionReset (slices swapped)')

    z = Rule('C22-ZERO', 'a generator function that emits `slot = 0;` for exception-state slots it did not fill itself has passed them to __Pyx_ExceptionReset / '
             '__Pyx_ErrRestore or decref\'ed them in the same function (otherwise the saved sys.exc_info() is dropped, not restored)', floor=3)
    inst, probs = zero_problems(ev.facts, ev.calledfrom)
    for fnq, ks in inst:
        z.inst(fnq + ':zero', sample='%s zeroes %d slot(s)' % (fnq, len(ks)))
    for fnq, f, missing in probs:
        rel, line = ev.sites[f[3]]
        z.violate('%s:zero-without-consume:%s' % (fnq, group_name(f[1])), rel, line,
                  '%s emits `= 0;` for %s without having passed %s to __Pyx_ExceptionReset/__Pyx_ErrRestore or a decref in this function: '
                  'the exception state held there is forgotten (sys.exc_info() keeps the stale exception, the references leak)' % (
                      fnq, ', '.join(slot_name(Slot(*k)) for k in missing), 'them' if len(missing) > 1 else 'it'))
    zf = [('zero', Slot(('local', 'f', 'v'), 3), None, 's', '= 0', 'f'), ('role-w', Slot(('local', 'f', 'v'), 3), 'SAVED', 's0', 'w', 'g')]
    z.positive_control(bool(zero_problems(zf)[1]), 'slot zeroed without a consumer in the function')
    return [r, z, rule_guard(ctx, ev)]


# ================================================================================================= C22-FSTATE
def _fs_attr(n):
    """'exc_vars' for <code>.funcstate.exc_vars"""
    if isinstance(n, ast.Attribute) and isinstance(n.value, ast.Attribute) and n.value.attr == 'funcstate':
        return n.attr
    return None


def _fstate_transfer(saved_attrs):
    def tr(node, state):
        s = set(state)
        if isinstance(node, ast.Assign):
            val = node.value
            for tgt in node.targets:
                a = _fs_attr(val)
                if isinstance(tgt, ast.Name) and a in saved_attrs:
                    s = {f for f in s if not (f[0] == 'S' and f[1] == tgt.id)}
                    if ('M', a) not in s:
                        s.add(('S', tgt.id, a))
                    continue
                a = _fs_attr(tgt)
                if a in saved_attrs:
                    if isinstance(val, ast.Name) and ('S', val.id, a) in s:
                        s.discard(('M', a))
                    else:
                        s.add(('M', a))
                elif isinstance(tgt, ast.Name):
                    s = {f for f in s if not (f[0] == 'S' and f[1] == tgt.id)}
        return frozenset(s)
    return tr


def fstate_check(fn):
    """-> (saved attrs, attrs left modified on some normal exit) or None when the function does not save+modify"""
    saved, modified = set(), set()
    for n in walk_no_nested(fn):
        if isinstance(n, ast.Assign):
            for t in n.targets:
                if isinstance(t, ast.Name) and _fs_attr(n.value):
                    saved.add(_fs_attr(n.value))
                if _fs_attr(t):
                    modified.add(_fs_attr(t))
    both = saved & modified
    if not both:
        return None
    o = pyflow.Flow(_fstate_transfer(both)).run(fn)
    bad = set()
    for st in o.normal | o.returns:
        for f in st:
            if f[0] == 'M':
                bad.add(f[1])
    return both, bad


def rule_fstate(ctx):
    from .gen import gen_functions
    r = Rule('C22-FSTATE', 'a code generator that saves an attribute of code.funcstate (exc_vars, current_except, gil_owned, ...) in a local and overwrites it '
             'puts the saved value back on every normal exit path (the enclosing construct would otherwise re-raise / consult the state of a finished inner handler)', floor=3)
    for m, qn, owner, fn in gen_functions(ctx):
        if 'funcstate' not in SlotEval.src_of(m, fn):
            continue
        try:
            res = fstate_check(fn)
        except pyflow.TooManyStates:
            r.info('%s.%s: state explosion, skipped' % (m.short, qn))
            continue
        if res is None:
            continue
        both, bad = res
        for a in sorted(both):
            key = '%s.%s:funcstate.%s' % (m.short, qn, a)
            r.inst(key, sample=key)
            if a in bad:
                r.violate(key, m.rel, fn.lineno, '%s saves code.funcstate.%s, overwrites it and does not put the saved value back on some normal exit path: code generated '
                          'after this construct sees the state of the finished inner construct (e.g. a bare `raise` re-raises from released temporaries)' % (qn, a))
    pc = ast.parse("def f(self, code):\n    old = code.funcstate.exc_vars\n    code.funcstate.exc_vars = v\n    self.body.generate_execution_code(code)\n"
                   "    if self.x:\n        code.funcstate.exc_vars = old\n").body[0]
    res = fstate_check(pc)
    r.positive_control(res is not None and 'exc_vars' in res[1], 'restore under an unrelated condition only')
    return r


# ================================================================================================= C22-CLEAR
TAKES = re.compile(r'__Pyx_GetException\s*\(|__Pyx_ErrFetch\w*\s*\(|__Pyx_PyErr_Clear\s*\(|\bPyErr_Clear\s*\(|__Pyx_ErrRestore\w*\s*\(\s*(?:0|NULL)\s*,\s*(?:0|NULL)\s*,\s*(?:0|NULL)\s*\)')
PUTS = re.compile(r'__Pyx_ErrRestore\w*\s*\(')


def clear_check(fn):
    """states at `self.body.generate_execution_code(...)`: -> (number of such calls, number reached with the raised exception still set)"""
    seen = []

    def tr(node, state):
        s = set(state)
        for n in (ast.walk(node) if not isinstance(getattr(node, 'body', None), list) else ()):
            if isinstance(n, ast.Constant) and isinstance(n.value, str):
                if TAKES.search(n.value):
                    s.add('CLEAR')
                elif PUTS.search(n.value):
                    s.discard('CLEAR')
        for c in pyflow.calls_in(node):
            f = c.func
            if isinstance(f, ast.Attribute) and f.attr == 'generate_execution_code' and isinstance(f.value, ast.Attribute) and f.value.attr == 'body' \
                    and isinstance(f.value.value, ast.Name) and f.value.value.id == 'self':
                seen.append(('CLEAR' in s, c.lineno))
        return frozenset(s)
    pyflow.Flow(tr).run(fn)
    return seen


def rule_clear(ctx):
    ix = ctx.index
    r = Rule('C22-CLEAR', 'an except clause generates its handler body only after a helper that takes the raised exception out of the thread state '
             '(__Pyx_GetException, __Pyx_ErrRestore(0,0,0), __Pyx_PyErr_Clear) has been emitted on every path; a triple re-set by __Pyx_ErrRestore(vars) counts as raised again', floor=1)
    c = ix.cls('Nodes', 'ExceptClauseNode')
    if c is None:
        raise AnalysisError('Nodes.ExceptClauseNode vanished')
    n = 0
    for k in [c] + list(ix.subclasses(c)):
        fn = k.methods.get('generate_handling_code')
        if fn is None:
            continue
        seen = clear_check(fn)
        if not seen:
            raise AnalysisError('%s.generate_handling_code no longer generates self.body' % k.qual)
        key = '%s.generate_handling_code:body' % k.qual
        r.inst(key, sample='%s reached on %d path state(s)' % (key, len(seen)))
        n += 1
        bad = [ln for ok, ln in seen if not ok]
        if bad:
            r.violate(key + ':exception-still-set', k.module.rel, bad[0], 'the handler body is generated on a path where no emitted helper has cleared the raised exception '
                      '(__Pyx_GetException / __Pyx_ErrRestore(0,0,0)): inside the `except` block PyErr_Occurred() is still true, C-API calls of the body fail and the exception resurfaces after the statement')
    if not n:
        raise AnalysisError('no generate_handling_code method found')
    pc = ast.parse("def generate_handling_code(self, code):\n    if self.t:\n        code.putln('if (__Pyx_GetException(&a, &b, &c) < 0) goto bad;')\n"
                   "    self.body.generate_execution_code(code)\n").body[0]
    r.positive_control(any(not ok for ok, _ in clear_check(pc)), 'branch without any clearing helper')
    return r


# ================================================================================================= C22-WITH
class N:
    """descriptor of a tree node built by a constructor call"""
    def __init__(self, cls, kw, line):
        self.cls, self.kw, self.line = cls, kw, line

    def __repr__(self):
        return '%s(%s)' % (self.cls, ', '.join('%s=%r' % kv for kv in sorted(self.kw.items())))


class Cond:
    def __init__(self, test, a, b):
        self.test, self.a, self.b = test, a, b

    def __repr__(self):
        return '(%r if %s else %r)' % (self.a, self.test, self.b)


class Sym:
    def __init__(self, text):
        self.text = text

    def __repr__(self):
        return '<%s>' % self.text

    def __eq__(self, o):
        return isinstance(o, Sym) and o.text == self.text

    def __hash__(self):
        return hash(self.text)


class Rep:
    def __init__(self, item, n):
        self.item, self.n = item, n

    def __repr__(self):
        return '[%r]*%s' % (self.item, self.n)


def build_tree(fn):
    """symbolic evaluation of a transform method that builds a replacement tree: -> (env of locals, attributes stored on the node parameter)"""
    params = [a.arg for a in fn.args.args]
    node_param = params[1] if len(params) > 1 else None
    env, stored = {}, {}

    def ev(e):
        if isinstance(e, ast.Constant):
            return e.value
        if isinstance(e, ast.Name):
            if e.id in env:
                return env[e.id]
            return Sym(e.id)
        if isinstance(e, ast.Attribute):
            if isinstance(e.value, ast.Name) and e.value.id == node_param and e.attr in stored:
                return stored[e.attr]
            return Sym(node_src(e, 80))
        if isinstance(e, (ast.List, ast.Tuple)):
            return [ev(x) for x in e.elts]
        if isinstance(e, ast.ListComp) and len(e.generators) == 1 and not e.generators[0].ifs:
            it = e.generators[0].iter
            n = None
            if isinstance(it, ast.Call) and isinstance(it.func, ast.Name) and it.func.id == 'range' and len(it.args) == 1 and isinstance(it.args[0], ast.Constant):
                n = it.args[0].value
            return Rep(ev(e.elt), n)
        if isinstance(e, ast.IfExp):
            return Cond(node_src(e.test, 60), ev(e.body), ev(e.orelse))
        if isinstance(e, ast.Call):
            f = e.func
            name = f.attr if isinstance(f, ast.Attribute) else f.id if isinstance(f, ast.Name) else None
            if name == 'EncodedString' and len(e.args) == 1:
                return ev(e.args[0])
            if name and (name.endswith('Node') or name.endswith('StatNode')) and name[:1].isupper():
                return N(name, {k.arg: ev(k.value) for k in e.keywords if k.arg}, e.lineno)
            return Sym(node_src(e, 80))
        return Sym(node_src(e, 80))

    def assign(t, v, vn):
        if isinstance(t, ast.Name):
            env[t.id] = v
        elif isinstance(t, ast.Attribute) and isinstance(t.value, ast.Name) and t.value.id == node_param:
            stored[t.attr] = v
        elif isinstance(t, (ast.Tuple, ast.List)) and isinstance(vn, (ast.Tuple, ast.List)) and len(vn.elts) == len(t.elts):
            for tt, x in zip(t.elts, vn.elts):
                assign(tt, ev(x), x)

    def walk(stmts):
        for st in stmts:
            if isinstance(st, ast.Assign):
                v = ev(st.value)
                for t in st.targets:
                    assign(t, v, st.value)
            elif isinstance(st, ast.If):
                before_env, before_st = dict(env), dict(stored)
                walk(st.body)
                a_env, a_st = dict(env), dict(stored)
                env.clear(); env.update(before_env); stored.clear(); stored.update(before_st)
                walk(st.orelse)
                test = node_src(st.test, 60)
                for d, a in ((env, a_env), (stored, a_st)):
                    for k in set(d) | set(a):
                        if d.get(k) is not a.get(k):
                            d[k] = Cond(test, a.get(k, Sym(k)), d.get(k, Sym(k)))
            elif isinstance(st, (ast.For, ast.While, ast.Try, ast.With)):
                raise AnalysisError('%s: a %s statement in the tree-building method is not modelled' % (fn.name, type(st).__name__))
    walk(fn.body)
    return env, stored, node_param


def _alts(v):
    """unconditional alternatives of a value: [(condition text tuple, value)]"""
    if isinstance(v, Cond):
        return [((('T', v.test),) + c, x) for c, x in _alts(v.a)] + [((('F', v.test),) + c, x) for c, x in _alts(v.b)]
    return [((), v)]


def _contains(v, sym):
    if isinstance(v, Sym):
        return v == sym
    if isinstance(v, Cond):
        return _contains(v.a, sym) and _contains(v.b, sym)
    if isinstance(v, N):
        return any(_contains(x, sym) for x in v.kw.values())
    if isinstance(v, list):
        return any(_contains(x, sym) for x in v)
    if isinstance(v, Rep):
        return _contains(v.item, sym)
    return False


def _async_polarity(v, async_val, sync_val, test_names=('is_async', 'node.is_async', 'self.is_async')):
    """is v == (async_val if <async flag> else sync_val)?  -> True / False / None (another shape)"""
    if isinstance(v, Cond):
        core, neg = v.test, False
        while core.startswith('not '):
            core, neg = core[4:].strip(), not neg
        if core not in test_names:
            return None
        a, b = (v.b, v.a) if neg else (v.a, v.b)
        return match_val(a, async_val) and match_val(b, sync_val)
    return None


def match_val(v, want):
    if callable(want):
        return bool(want(v))
    return v == want


def with_problems(env, stored, node_param):
    """PEP 343 / language reference 8.5: the skeleton the with statement must be rewritten to.  -> [(key, message, line)]"""
    P = []
    body0 = Sym('%s.body' % node_param)
    top = stored.get('body')
    line = getattr(top, 'line', 0)

    def is_n(v, cls):
        return isinstance(v, N) and v.cls == cls

    if not is_n(top, 'TryFinallyStatNode'):
        return [('shape', 'the with statement body is no longer replaced by a TryFinallyStatNode (found %r): the skeleton cannot be compared with PEP 343' % (top,), 0)], 0
    checks = 0
    te = top.kw.get('body')
    checks += 1
    if not is_n(te, 'TryExceptStatNode'):
        P.append(('nesting', 'the try/finally does not wrap a try/except (found %r): PEP 343 runs __exit__(*exc_info) in an except clause inside the finally that runs __exit__(None, None, None)' % (te,), line))
        return P, checks
    checks += 1
    if not _contains(te.kw.get('body'), body0):
        P.append(('body', 'the try block of the generated try/except does not contain the original with-body on every path', te.line))
    clauses = te.kw.get('except_clauses')
    checks += 1
    if not (isinstance(clauses, list) and len(clauses) == 1 and is_n(clauses[0], 'ExceptClauseNode')):
        P.append(('clauses', 'the generated try/except does not have exactly one except clause (%r)' % (clauses,), te.line))
        return P, checks
    ec = clauses[0]
    checks += 1
    if ec.kw.get('pattern', None) is not None:
        P.append(('pattern', 'the generated except clause has a pattern (%r): PEP 343 uses a bare `except:` — BaseException subclasses such as KeyboardInterrupt/GeneratorExit must reach __exit__(*exc_info) too' % (ec.kw.get('pattern'),), ec.line))
    checks += 1
    if te.kw.get('else_clause') is not None:
        P.append(('else', 'the generated try/except has an else clause', te.line))
    # if not EXIT(*exc_info): raise
    ifs = ec.kw.get('body')
    ok_if = is_n(ifs, 'IfStatNode') and isinstance(ifs.kw.get('if_clauses'), list) and len(ifs.kw['if_clauses']) == 1 and is_n(ifs.kw['if_clauses'][0], 'IfClauseNode') \
        and ifs.kw.get('else_clause') is None
    checks += 1
    if not ok_if:
        P.append(('handler', 'the handler body is not a single `if ...: raise` statement (%r)' % (ifs,), ec.line))
        return P, checks
    ic = ifs.kw['if_clauses'][0]
    cond = ic.kw.get('condition')
    checks += 1
    exit1 = None
    if is_n(cond, 'NotNode') and is_n(cond.kw.get('operand'), 'WithExitCallNode'):
        exit1 = cond.kw['operand']
    else:
        P.append(('suppress-test', 'the handler re-raises under the condition %r instead of `not __exit__(*exc_info)`: the exception must propagate exactly when __exit__ returns a false value' % (cond,), ic.line))
        if is_n(cond, 'WithExitCallNode'):
            exit1 = cond
    checks += 1
    if not is_n(ic.kw.get('body'), 'ReraiseStatNode'):
        P.append(('reraise', 'the body of `if not __exit__(...)` is %r, not a bare re-raise' % (ic.kw.get('body'),), ic.line))
    if exit1 is not None:
        checks += 3
        if exit1.kw.get('test_if_run', True) is not False:
            P.append(('exit1-guard', 'the __exit__(*exc_info) call of the handler has test_if_run=%r: it must call unconditionally (the call clears the exit method, which is how the finally clause knows not to call again)' % (exit1.kw.get('test_if_run', True),), exit1.line))
        if exit1.kw.get('args') is not ec.kw.get('excinfo_target') or exit1.kw.get('args') is None:
            P.append(('exit1-args', 'the arguments of the handler\'s __exit__ call are not the excinfo_target tuple of the except clause: __exit__ does not receive the caught (type, value, traceback)', exit1.line))
        else:
            a = exit1.kw['args']
            items = a.kw.get('args') if is_n(a, 'TupleNode') else None
            if not (isinstance(items, Rep) and items.n == 3 and is_n(items.item, 'ExcValueNode')) and not (isinstance(items, list) and len(items) == 3 and all(is_n(x, 'ExcValueNode') for x in items)):
                P.append(('exit1-arity', '__exit__ is called with %r, not three exception-info values' % (items,), exit1.line))
        if exit1.kw.get('with_stat') != Sym(node_param):
            P.append(('exit1-stat', 'the handler\'s __exit__ call refers to %r, not to this with statement' % (exit1.kw.get('with_stat'),), exit1.line))
    # finally: EXIT(None, None, None) if not yet called
    fin = top.kw.get('finally_clause')
    exit2 = fin.kw.get('expr') if is_n(fin, 'ExprStatNode') else None
    checks += 1
    if not is_n(exit2, 'WithExitCallNode'):
        P.append(('finally', 'the finally clause is %r, not the __exit__(None, None, None) call' % (fin,), getattr(fin, 'line', line)))
    else:
        checks += 3
        if exit2.kw.get('test_if_run', True) is not True:
            P.append(('exit2-guard', 'the __exit__(None, None, None) call of the finally clause has test_if_run=%r: after the handler has called __exit__(*exc_info) it would be called a second time (through the cleared method pointer)' % (exit2.kw.get('test_if_run'),), exit2.line))
        a = exit2.kw.get('args')
        items = a.kw.get('args') if is_n(a, 'TupleNode') else None
        if not ((isinstance(items, Rep) and items.n == 3 and is_n(items.item, 'NoneNode')) or (isinstance(items, list) and len(items) == 3 and all(is_n(x, 'NoneNode') for x in items))):
            P.append(('exit2-args', 'the finally clause calls __exit__ with %r, not (None, None, None)' % (items,), exit2.line))
        if exit2.kw.get('with_stat') != Sym(node_param):
            P.append(('exit2-stat', 'the finally clause\'s __exit__ call refers to %r, not to this with statement' % (exit2.kw.get('with_stat'),), exit2.line))
    # async polarity
    for label, ex in (('exit1', exit1), ('exit2', exit2)):
        if is_n(ex, 'WithExitCallNode'):
            checks += 1
            pol = _async_polarity(ex.kw.get('await_expr'), lambda v: is_n(v, 'AwaitExprNode'), None)
            if pol is not True and ex.kw.get('await_expr') is not None:
                P.append((label + '-await', 'the __exit__ call is awaited under %r, not exactly for `async with`' % (ex.kw.get('await_expr'),), ex.line))
            elif ex.kw.get('await_expr') is None:
                P.append((label + '-await', 'the __aexit__ result of `async with` is never awaited (await_expr missing)', ex.line))
    enter = stored.get('enter_call')
    checks += 2
    alts = _alts(enter)
    plain = [v for c, v in alts if not is_n(v, 'AwaitExprNode')]
    awaited = [(c, v) for c, v in alts if is_n(v, 'AwaitExprNode')]
    base = plain[0] if plain else None
    if not (is_n(base, 'SimpleCallNode') and is_n(base.kw.get('function'), 'AttributeNode')):
        P.append(('enter', 'node.enter_call is %r, not a call of the __enter__ attribute of the manager' % (enter,), getattr(base, 'line', line)))
    else:
        attr = base.kw['function'].kw.get('attribute')
        if _async_polarity(attr, '__aenter__', '__enter__') is not True:
            P.append(('enter-name', 'the method called on entry is %r, not `__aenter__` for async with and `__enter__` otherwise' % (attr,), base.line))
        if len(awaited) != 1 or [t for t in awaited[0][0]] not in ([('T', 'is_async')], [('T', 'node.is_async')]):
            P.append(('enter-await', 'the __aenter__ call is not awaited exactly when the statement is `async with` (%r)' % (enter,), base.line))
    checks += 1
    if top.kw.get('handle_error_case', True) is not False and False:
        pass
    return P, checks


def exit_name_polarity(ctx):
    """the special-method name WithStatNode looks up for leaving the block: (value descriptor, line, rel)"""
    ix = ctx.index
    c = ix.cls('Nodes', 'WithStatNode')
    fn = c.methods.get('generate_execution_code') if c else None
    if fn is None:
        raise AnalysisError('Nodes.WithStatNode.generate_execution_code vanished')
    found = []
    for n in walk_no_nested(fn):
        if isinstance(n, ast.IfExp):
            vals = {x.value for x in (n.body, n.orelse) if isinstance(x, ast.Constant)}
            if vals & {'__exit__', '__aexit__'}:
                found.append((Cond(node_src(n.test, 60), n.body.value if isinstance(n.body, ast.Constant) else None, n.orelse.value if isinstance(n.orelse, ast.Constant) else None), n.lineno))
    loose = [n for n in walk_no_nested(fn) if isinstance(n, ast.Constant) and n.value in ('__exit__', '__aexit__')]
    return c.module.rel, found, len(loose)


WITH_CONTROL = """
def visit_WithStatNode(self, node):
    pos = node.pos
    is_async = node.is_async
    node.enter_call = A.SimpleCallNode(pos, function=A.AttributeNode(pos, obj=m, attribute=EncodedString('__aenter__' if is_async else '__enter__')), args=[])
    if is_async:
        node.enter_call = A.AwaitExprNode(pos, arg=node.enter_call)
    t = A.TupleNode(pos, args=[A.ExcValueNode(pos) for _ in range(3)])
    node.body = B.TryFinallyStatNode(pos, body=B.TryExceptStatNode(pos, body=node.body, except_clauses=[
        B.ExceptClauseNode(pos, body=B.IfStatNode(pos, if_clauses=[B.IfClauseNode(pos, condition=A.WithExitCallNode(pos, with_stat=node, test_if_run=False, args=t,
            await_expr=A.AwaitExprNode(pos, arg=None) if is_async else None), body=B.ReraiseStatNode(pos))], else_clause=None), pattern=None, target=None, excinfo_target=t)],
        else_clause=None), finally_clause=B.ExprStatNode(pos, expr=A.WithExitCallNode(pos, with_stat=node, test_if_run=True,
            args=A.TupleNode(pos, args=[A.NoneNode(pos) for _ in range(3)]), await_expr=A.AwaitExprNode(pos, arg=None) if is_async else None)))
    return node
"""


def rule_with(ctx):
    ix = ctx.index
    r = Rule('C22-WITH', 'WithTransform rewrites `with` to the skeleton of PEP 343 / language reference 8.5: try/finally around try/except around the body; a bare except clause running '
             '`if not __exit__(*exc_info): raise` unconditionally; a finally clause running __exit__(None, None, None) only if __exit__ was not called yet; '
             '__aenter__/__aexit__ + await exactly for `async with`', floor=18)
    c = ix.cls('ParseTreeTransforms', 'WithTransform')
    fn = c.methods.get('visit_WithStatNode') if c else None
    if fn is None:
        raise AnalysisError('ParseTreeTransforms.WithTransform.visit_WithStatNode vanished')
    env, stored, node_param = build_tree(fn)
    probs, checks = with_problems(env, stored, node_param)
    base = 'ParseTreeTransforms.WithTransform.visit_WithStatNode'
    for i in range(checks):
        r.inst('%s:clause%d' % (base, i), sample='%s: %d skeleton clauses compared' % (base, checks) if i == 0 else None)
    for key, msg, line in probs:
        r.violate('%s:%s' % (base, key), c.module.rel, line or fn.lineno, msg)
    rel, found, loose = exit_name_polarity(ctx)
    key = 'Nodes.WithStatNode.generate_execution_code:exit-name'
    r.inst(key, sample='%s -> %r' % (key, found))
    if len(found) != 1:
        if loose:
            r.info('%s: the exit method name is not chosen by a conditional expression on is_async; polarity not compared' % key)
        else:
            raise AnalysisError('WithStatNode.generate_execution_code no longer looks up __exit__/__aexit__')
    elif _async_polarity(found[0][0], '__aexit__', '__exit__') is not True:
        r.violate(key, rel, found[0][1], 'WithStatNode looks up %r when leaving the block; WithTransform enters through `__aenter__` for async with and `__enter__` otherwise: '
                  'the two halves of the protocol disagree' % (found[0][0],))
    cfn = ast.parse(WITH_CONTROL).body[0]
    ce, cs, cp = build_tree(cfn)
    cprobs, _ = with_problems(ce, cs, cp)
    r.positive_control([k for k, _, _ in cprobs] == ['suppress-test'], 'handler re-raises when __exit__ returns true (NotNode missing)')
    return r


# ================================================================================================= C22-STATE (C helpers)
STATE_SECTIONS = ('PyErrFetchRestore', 'GetException', 'ReRaiseException', 'SaveResetException', 'SwapException')
FIELD_ROLE = {'exc_type': 0, 'curexc_type': 0, 'exc_value': 1, 'curexc_value': 1, 'current_exception': 1,
              'exc_traceback': 2, 'curexc_traceback': 2, 'traceback': 2}
CUR_FIELDS = ('curexc_type', 'curexc_value', 'curexc_traceback', 'current_exception')
HANDLED_FIELDS = ('exc_type', 'exc_value', 'exc_traceback')
# C-API functions taking (or filling) the triple: name -> index of the `type` argument
API_TRIPLE = {'PyErr_Fetch': 0, 'PyErr_Restore': 0, 'PyErr_SetExcInfo': 0, 'PyErr_GetExcInfo': 0, 'PyErr_NormalizeException': 0,
              '__Pyx_ErrRestore': 0, '__Pyx_ErrFetch': 0, '__Pyx_ErrRestoreInState': 1, '__Pyx_ErrFetchInState': 1,
              '__Pyx_ErrRestoreWithState': 0, '__Pyx_ErrFetchWithState': 0}
API_ROLES = {'PyException_SetTraceback': (1, 2), 'PyErr_SetHandledException': (1,), 'PyErr_SetRaisedException': (1,)}
API_ACCESS = {'PyErr_Fetch': {('CUR', 'r'), ('CUR', 'clear')}, 'PyErr_GetRaisedException': {('CUR', 'r'), ('CUR', 'clear')},
              'PyErr_Restore': {('CUR', 'w')}, 'PyErr_SetRaisedException': {('CUR', 'w')},
              'PyErr_GetExcInfo': {('HANDLED', 'r')}, 'PyErr_GetHandledException': {('HANDLED', 'r')},
              'PyErr_SetExcInfo': {('HANDLED', 'w')}, 'PyErr_SetHandledException': {('HANDLED', 'w')}}
# what each helper is (the contract the role table of C22-ROLE relies on; CPython: PyErr_Fetch/Restore, PyErr_GetExcInfo/SetExcInfo, ceval PUSH_EXC_INFO/RERAISE)
CONTRACT = {
    'ErrRestore': (('CUR', 'w'),), 'ErrFetch': (('CUR', 'r'), ('CUR', 'clear')),
    'ExceptionSave': (('HANDLED', 'r'),), 'ExceptionReset': (('HANDLED', 'w'),), 'ExceptionSwap': (('HANDLED', 'r'), ('HANDLED', 'w')),
    'GetException': (('CUR', 'r'), ('CUR', 'clear'), ('HANDLED', 'w')), 'ReraiseException': (('HANDLED', 'r'), ('CUR', 'w')),
}
FORBID = {
    'ErrRestore': (('HANDLED', 'w'),), 'ErrFetch': (('HANDLED', 'w'),), 'ExceptionSave': (('HANDLED', 'w'), ('CUR', 'w'), ('CUR', 'clear')),
    'ExceptionReset': (('CUR', 'w'), ('CUR', 'clear')), 'ExceptionSwap': (('CUR', 'w'), ('CUR', 'clear')), 'GetException': (),
    'ReraiseException': (('HANDLED', 'w'),),
}
TOPMOST_READERS = ('ExceptionSave', 'ReraiseException')          # PyErr_GetExcInfo / RERAISE look at the topmost non-empty item
DIRECT_WRITERS = ('ExceptionReset', 'ExceptionSwap', 'GetException')   # PyErr_SetExcInfo / PUSH_EXC_INFO write the current item
ACCESSDESC = {('CUR', 'r'): 'reads the raised exception (tstate->curexc_* / current_exception / PyErr_Fetch)',
              ('CUR', 'w'): 'sets the raised exception (tstate->curexc_* / current_exception / PyErr_Restore)',
              ('CUR', 'clear'): 'clears the raised exception',
              ('HANDLED', 'r'): 'reads the handled exception (exc_info->exc_* / PyErr_GetExcInfo)',
              ('HANDLED', 'w'): 'stores the handled exception (exc_info->exc_* / PyErr_SetExcInfo)'}


def canonical(name):
    n = re.sub(r'^__Pyx_+', '', name)
    n = re.sub(r'(InState|WithState)$', '', n)
    return n


def c_functions(text):
    """top-level function definitions of a utility section: [(header candidates [(name, [param texts])], body text, offset)]"""
    from ..engine.cutil import strip_c_comments
    from .sC22 import split_top
    t = strip_c_comments(text)
    out, depth, last, start = [], 0, 0, None
    i = 0
    while i < len(t):
        ch = t[i]
        if ch in '"\'':
            q = ch
            i += 1
            while i < len(t) and t[i] != q:
                i += 2 if t[i] == '\\' else 1
        elif ch == '{':
            if depth == 0:
                start = i
            depth += 1
        elif ch == '}':
            depth -= 1
            if depth == 0 and start is not None:
                header = t[last:start]
                cands = [(m.group(1), [x.strip() for x in split_top(m.group(2))]) for m in re.finditer(r'\b(__Pyx\w+)\s*\(([^()]*)\)', header)]
                if cands and not re.search(r'#\s*define', header.split('\n')[-1]):
                    out.append((cands, t[start:i + 1], start))
                last = i + 1
                start = None
        i += 1
    return out


def _pname(p):
    m = re.search(r'([A-Za-z_]\w*)\s*$', p)
    return m.group(1) if m else None


def _strip_expr(e):
    e = e.strip()
    while True:
        e2 = re.sub(r'^\(\s*(?:const\s+)?(?:struct\s+)?[A-Za-z_]\w*\s*\*+\s*\)\s*', '', e)        # pointer cast
        if e2.startswith('(') and e2.endswith(')'):
            depth, ok = 0, True
            for k, ch in enumerate(e2):
                depth += ch == '('
                depth -= ch == ')'
                if depth == 0 and k < len(e2) - 1:
                    ok = False
                    break
            if ok:
                e2 = e2[1:-1].strip()
        if e2 == e:
            return e
        e = e2.strip()


def expr_role(e, roles):
    """position (0 type, 1 value, 2 traceback) an expression denotes, or None"""
    from .sC22 import split_top
    e = _strip_expr(e)
    e = re.sub(r'^[*&]\s*', '', e)
    e = _strip_expr(e)
    m = re.fullmatch(r'.+?->\s*(\w+)', e, re.S)
    if m:
        return FIELD_ROLE.get(m.group(1))
    if re.fullmatch(r'[A-Za-z_]\w*', e):
        r = roles.get(e)
        return next(iter(r)) if r and len(r) == 1 else None
    m = re.fullmatch(r'([A-Za-z_]\w*)\s*\((.*)\)', e, re.S)
    if m:
        f, a = m.group(1), m.group(2)
        if f == 'Py_TYPE':
            return 0
        if f == 'PyException_GetTraceback':
            return 2
        if f in ('PyErr_GetRaisedException', 'PyErr_GetHandledException'):
            return 1
        if f in ('Py_NewRef', 'Py_XNewRef', '__Pyx_NewRef', 'likely', 'unlikely'):
            return expr_role(a, roles)
    return None


def _assignments(text):
    """(lhs, rhs) pairs of one simple statement (declarations with several declarators included)"""
    from .sC22 import split_top
    t = text.strip()
    if re.match(r'^(return|goto|break|continue)\b', t):
        return []
    m = re.match(r'^((?:const\s+|static\s+|struct\s+)*[A-Za-z_]\w*\s*(?:const\s*)?)(\*+\s*[A-Za-z_]\w*.*|[A-Za-z_]\w*\s*(?:=.*|,.*)?)$', t, re.S)
    parts = [t]
    if m and not re.match(r'^[A-Za-z_]\w*\s*(=|->|\(|\[|$)', t):
        parts = split_top(m.group(2))
    out = []
    for p in parts:
        depth = 0
        for k, ch in enumerate(p):
            if ch in '([':
                depth += 1
            elif ch in ')]':
                depth -= 1
            elif ch == '=' and depth == 0 and p[k + 1:k + 2] != '=' and p[k - 1:k] not in ('=', '!', '<', '>', '+', '-', '|', '&', '*', '/', '^', '%'):
                out.append((p[:k].strip(), p[k + 1:].strip()))
                break
    return out


def _calls(text):
    from .sC22 import split_top
    for m in re.finditer(r'\b([A-Za-z_]\w*)\s*\(', text):
        i, depth = m.end(), 0
        j = i
        while j < len(text):
            if text[j] == '(':
                depth += 1
            elif text[j] == ')':
                if depth == 0:
                    break
                depth -= 1
            j += 1
        yield m.group(1), [a.strip() for a in split_top(text[i:j])] if text[i:j].strip() else []


def analyse_variant(names, params, body):
    """one preprocessor variant of a state helper: -> dict(problems=[(key, msg)], access=set, exc_info=[init texts], assigned=set of out-params always written)"""
    from .pC17 import parse_body, walk as st_walk, as_list
    stmts = parse_body(body)
    pn = [_pname(p) for p in params]
    triple = pn[-3:] if len(pn) >= 3 else []
    roles = {n: {k} for k, n in enumerate(triple) if n}
    texts = [st.text for st in st_walk(stmts) if st.text and st.kind in ('simple', 'if', 'while', 'for', 'do', 'switch')]
    assigns = []
    for st in st_walk(stmts):
        if st.kind == 'simple':
            assigns += _assignments(st.text)
    # local roles: fixpoint
    changed = True
    while changed:
        changed = False
        for lhs, rhs in assigns:
            l = _strip_expr(lhs)
            l = re.sub(r'^\*+\s*', '', l) if re.fullmatch(r'\*+\s*[A-Za-z_]\w*', l) else l
            if re.fullmatch(r'[A-Za-z_]\w*', l) and l not in triple:
                r = expr_role(rhs, roles)
                if r is not None and r not in roles.setdefault(l, set()):
                    roles[l].add(r)
                    changed = True
        for t in texts:
            for f, args in _calls(t):
                pos = None
                if f in API_TRIPLE and len(args) >= API_TRIPLE[f] + 3:
                    pos = [(args[API_TRIPLE[f] + k], k) for k in range(3)]
                elif f in API_ROLES and len(args) >= len(API_ROLES[f]):
                    pos = list(zip(args, API_ROLES[f]))
                for a, k in pos or []:
                    a2 = re.sub(r'^[*&]\s*', '', _strip_expr(a))
                    if re.fullmatch(r'[A-Za-z_]\w*', a2) and a2 not in triple and a2 not in ('NULL',) and expr_role(a, roles) is None and a2 not in roles:
                        roles[a2] = {k}
                        changed = True
    probs = []
    for n, r in sorted(roles.items()):
        if len(r) > 1:
            probs.append(('local:%s' % n, 'the local `%s` receives the %s of the exception triple' % (n, ' and the '.join(POSNAME[k] for k in sorted(r)))))
    for lhs, rhs in assigns:
        a, b = expr_role(lhs, roles), expr_role(rhs, roles)
        if a is not None and b is not None and a != b:
            probs.append(('store:%s' % POSNAME[a], '`%s = %s` stores the %s of the triple into the %s slot' % (' '.join(lhs.split()), ' '.join(rhs.split()), POSNAME[b], POSNAME[a])))
    for t in texts:
        for f, args in _calls(t):
            pos = None
            if f in API_TRIPLE and len(args) >= API_TRIPLE[f] + 3:
                pos = [(args[API_TRIPLE[f] + k], k) for k in range(3)]
            elif f in API_ROLES and len(args) >= len(API_ROLES[f]):
                pos = list(zip(args, API_ROLES[f]))
            for a, k in pos or []:
                r = expr_role(a, roles)
                if r is not None and r != k:
                    probs.append(('arg:%s:%s' % (f, POSNAME[k]), '%s(...) receives the %s of the triple (`%s`) as its %s argument' % (f, POSNAME[r], ' '.join(a.split()), POSNAME[k])))
    # thread-state accesses
    access = set()
    for lhs, rhs in assigns:
        m = re.search(r'->\s*(\w+)\s*$', _strip_expr(lhs))
        if m and m.group(1) in CUR_FIELDS:
            access.add(('CUR', 'w'))
            if re.fullmatch(r'0|NULL', _strip_expr(rhs)):
                access.add(('CUR', 'clear'))
        if m and m.group(1) in HANDLED_FIELDS:
            access.add(('HANDLED', 'w'))
    for t in texts:
        body_rhs = t
        for lhs, rhs in _assignments(t) if t in [st.text for st in st_walk(stmts) if st.kind == 'simple'] else []:
            body_rhs = rhs
        for m in re.finditer(r'->\s*(\w+)\b(?!\s*=(?!=))', t):
            if m.group(1) in CUR_FIELDS:
                access.add(('CUR', 'r'))
            if m.group(1) in HANDLED_FIELDS:
                access.add(('HANDLED', 'r'))
        for f, args in _calls(t):
            access |= API_ACCESS.get(f, set())
            cf = canonical(f)
            if f.startswith('__Pyx') and cf in CONTRACT and f not in names:
                access |= set(CONTRACT[cf])
    exc_info = []
    for st in st_walk(stmts):
        if st.kind == 'simple':
            m = re.match(r'^_PyErr_StackItem\s*\*\s*[A-Za-z_]\w*\s*=(?!=)\s*(.+)$', st.text.strip(), re.S)
            if m:
                exc_info.append(' '.join(m.group(1).split()))
    # out-parameters written on every path
    outs = [n for p, n in zip(params[-3:], triple) if n and re.search(r'\*\s*\*', p)]

    def must(stmts):
        got = set()
        for st in stmts:
            if st.kind == 'simple':
                for lhs, rhs in _assignments(st.text):
                    m = re.fullmatch(r'\*\s*([A-Za-z_]\w*)', _strip_expr(lhs))
                    if m:
                        got.add(m.group(1))
                for f, args in _calls(st.text):
                    if f in API_TRIPLE:
                        got |= {a for a in args if a in outs}
                if re.match(r'^(return|goto)\b', st.text.strip()):
                    return got | set(outs) if re.match(r'^goto\b', st.text.strip()) else got
            elif st.kind == 'block':
                got |= must(st.body)
            elif st.kind == 'if' and st.orelse is not None:
                got |= must(as_list(st.body)) & must(as_list(st.orelse))
        return got
    assigned = must(stmts) if outs else set()
    return dict(problems=probs, access=access, exc_info=exc_info, outs=outs, assigned=assigned)


STATE_CONTROL = ('__Pyx__ExceptionSwap', ['PyThreadState *tstate', 'PyObject **type', 'PyObject **value', 'PyObject **tb'], """{
    PyObject *tmp_type, *tmp_value, *tmp_tb;
    _PyErr_StackItem *exc_info = tstate->exc_info;
    tmp_type = exc_info->exc_type;
    tmp_value = exc_info->exc_value;
    tmp_tb = exc_info->exc_traceback;
    exc_info->exc_type = *type;
    exc_info->exc_value = *type;
    exc_info->exc_traceback = *tb;
    *type = tmp_type;
    *tb = tmp_tb;
}""")


def rule_state(ctx):
    from .sC22 import pp_variants
    r = Rule('C22-STATE', 'exception-state helpers of Exceptions.c, every #if variant: type/value/traceback keep their slot in every store and C-API call; each helper touches exactly the '
             'thread-state store its contract names (ErrFetch/ErrRestore: raised exception; ExceptionSave/Reset/Swap: handled exception; GetException: moves raised -> handled; '
             'ReraiseException: handled -> raised); readers of the handled exception use the topmost non-empty exc_info item, writers the current one; out-parameters are written on every path', floor=400)
    f = ctx.cat.files.get('Exceptions.c')
    if f is None:
        raise AnalysisError('Cython/Utility/Exceptions.c is not in the utility catalogue')
    rel = 'Cython/Utility/Exceptions.c'
    seen_helpers = set()
    for sec in STATE_SECTIONS:
        if sec not in f or 'impl' not in f[sec]:
            raise AnalysisError('Exceptions.c has no section %s' % sec)
        S = f[sec]['impl']
        for cands, body, off in c_functions(S.text):
            names = [n for n, _ in cands]
            cn = canonical(names[0])
            line = S.line + S.text[:off].count('\n')
            params = cands[0][1]
            for n2, p2 in cands[1:]:
                if [_pname(x) for x in p2[-3:]] != [_pname(x) for x in params[-3:]]:
                    raise AnalysisError('%s: alternative headers %s name their last three parameters differently' % (sec, '/'.join(names)))
            try:
                variants, seen_text = [], set()
                for label, text in pp_variants(body, limit=4096):
                    k = ' '.join(text.split())
                    if k not in seen_text:          # configurations that select the same text are one variant
                        seen_text.add(k)
                        variants.append((label, text))
            except AnalysisError as e:
                raise AnalysisError('%s: %s' % (names[0], e))
            seen_helpers.add(cn)
            found = {}
            for label, text in variants:
                res = analyse_variant(names, params, text)
                base = 'Exceptions.c:%s' % names[0]
                r.inst('%s:roles[%s]' % (base, label), sample='%s [%s]: accesses %s' % (names[0], label, sorted(res['access'])))
                for key, msg in res['problems']:
                    found.setdefault('%s:%s' % (base, key), '%s (%s): %s — sys.exc_info() / the re-raised exception gets type, value and traceback mixed up' % (names[0], label, msg))
                if cn in CONTRACT:
                    r.inst('%s:contract[%s]' % (base, label))
                    for acc in CONTRACT[cn]:
                        if acc not in res['access']:
                            found.setdefault('%s:missing:%s-%s' % (base, acc[0], acc[1]), '%s (%s) no longer %s: %s' % (names[0], label, ACCESSDESC[acc],
                                             {'GetException': 'inside an except/finally block the exception must be moved from "raised" to "handled"',
                                              'ErrFetch': 'the fetched exception must be removed from the thread state'}.get(cn, 'the helper does not do what the generators emit it for')))
                    for acc in FORBID[cn]:
                        if acc in res['access']:
                            found.setdefault('%s:forbidden:%s-%s' % (base, acc[0], acc[1]), '%s (%s) %s, which is not its job: the other exception store is clobbered' % (names[0], label, ACCESSDESC[acc]))
                    if res['exc_info']:
                        r.inst('%s:exc_info[%s]' % (base, label))
                        for init in res['exc_info']:
                            top = 'GetTopmostException' in init
                            if cn in TOPMOST_READERS and not top:
                                found.setdefault('%s:exc_info-not-topmost' % base, '%s (%s) reads the handled exception from `%s`; CPython (PyErr_GetExcInfo, RERAISE) reads the topmost non-empty '
                                                 'item of the exc_info stack — inside a generator/coroutine frame the own item is empty while the caller is handling an exception' % (names[0], label, init))
                            if cn in DIRECT_WRITERS and top:
                                found.setdefault('%s:exc_info-topmost-written' % base, '%s (%s) stores into the item returned by `%s`; the handled exception of the running frame is tstate->exc_info '
                                                 '(writing the topmost item overwrites the state of the caller)' % (names[0], label, init))
                if res['outs']:
                    r.inst('%s:out[%s]' % (base, label))
                    miss = [o for o in res['outs'] if o not in res['assigned']]
                    if miss:
                        found.setdefault('%s:out:%s' % (base, ','.join(miss)), '%s (%s) does not write *%s on every path: the caller\'s slot keeps its old content (the generators zero or reuse it)' % (
                            names[0], label, ', *'.join(miss)))
            for key, msg in sorted(found.items()):
                r.violate(key, rel, line, msg)
    missing = set(CONTRACT) - seen_helpers
    if missing:
        raise AnalysisError('state helpers not found in Exceptions.c: %s' % ', '.join(sorted(missing)))
    n, p, b = STATE_CONTROL
    res = analyse_variant([n], p, b)
    r.positive_control(any(k == 'store:value' for k, _ in res['problems']) and 'value' not in res['assigned'], 'exc_value stored from *type; *value never written back')
    return r


def rules(ctx):
    return rules_slots(ctx) + [rule_fstate(ctx), rule_clear(ctx), rule_with(ctx), rule_state(ctx)]
