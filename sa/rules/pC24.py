"""Rules for C24 (argument binding): the interface between the Python wrapper generator (Nodes.DefNodeWrapper)
and the C helpers of Cython/Utility/FunctionArguments.c / CythonFunction.c.

Everything is extracted from the current sources: emitted helper calls (with the `Signature.fastvar` suffix expanded
over its finite domain), the `#if` tree of the `fastcall` utility section (evaluated for every assignment of the
preprocessor atoms it mentions), utility loads, label handling, METH_* flag switches.
"""
import ast, re, itertools, collections

from ..core import Rule, AnalysisError, node_src
from ..engine import pyflow
from ..engine.pyindex import walk_no_nested, is_self_attr
from ..engine.cutil import split_args, match_paren, Catalogue
from . import iface
from .iface import str_template, PLACEHOLDER, local_env, LOADERS

UFILE = 'FunctionArguments.c'


# ===================================================================================== C preprocessor conditions
_TOK = re.compile(r'\s*(0[xX][0-9a-fA-F]+|\d+|[A-Za-z_]\w*|&&|\|\||[!<>=]=|[!<>()])')


class Cond:
    """Parsed `#if` expression over integer-valued identifiers; `defined(X)` is the identifier 'defined:X'."""

    def __init__(self, text):
        self.text = ' '.join(text.split())
        s = re.sub(r'defined\s*\(\s*(\w+)\s*\)|defined\s+(\w+)', lambda m: 'defined__' + (m.group(1) or m.group(2)), self.text)
        toks, pos = [], 0
        while pos < len(s):
            if s[pos].isspace():
                pos += 1
                continue
            m = _TOK.match(s, pos)
            if not m:
                raise AnalysisError('cannot tokenise preprocessor condition %r' % text)
            t = m.group(1)
            pos = m.end()
            t = re.sub(r'[uUlL]+$', '', t) if t[0].isdigit() else t
            toks.append(t)
        self.toks, self.i = toks, 0
        self.tree = self._or()
        if self.i != len(self.toks):
            raise AnalysisError('cannot parse preprocessor condition %r' % text)

    def _peek(self):
        return self.toks[self.i] if self.i < len(self.toks) else None

    def _eat(self):
        self.i += 1
        return self.toks[self.i - 1]

    def _or(self):
        n = self._and()
        while self._peek() == '||':
            self._eat()
            n = ('or', n, self._and())
        return n

    def _and(self):
        n = self._cmp()
        while self._peek() == '&&':
            self._eat()
            n = ('and', n, self._cmp())
        return n

    def _cmp(self):
        n = self._un()
        if self._peek() in ('<', '>', '<=', '>=', '==', '!='):
            op = self._eat()
            n = ('cmp', op, n, self._un())
        return n

    def _un(self):
        t = self._peek()
        if t == '!':
            self._eat()
            return ('not', self._un())
        if t == '(':
            self._eat()
            n = self._or()
            if self._peek() != ')':
                raise AnalysisError('unbalanced preprocessor condition %r' % self.text)
            self._eat()
            return n
        if t is None or t in (')', '&&', '||'):
            raise AnalysisError('cannot parse preprocessor condition %r' % self.text)
        self._eat()
        if t[0].isdigit():
            return ('num', int(t, 0))
        if self._peek() == '(':           # function-like test such as __has_attribute(x): one opaque atom
            depth, parts = 0, [t]
            while True:
                x = self._eat()
                parts.append(x)
                depth += (x == '(') - (x == ')')
                if depth == 0:
                    break
            return ('id', ''.join(parts))
        return ('id', t.replace('defined__', 'defined:'))

    def atoms(self, out=None):
        """identifier -> set of integer thresholds it is compared with."""
        out = collections.defaultdict(set) if out is None else out

        def rec(n):
            if n[0] == 'id':
                out[n[1]]
            elif n[0] == 'cmp':
                a, b = n[2], n[3]
                if a[0] == 'id' and b[0] == 'num':
                    out[a[1]].add(b[1])
                elif b[0] == 'id' and a[0] == 'num':
                    out[b[1]].add(a[1])
                else:
                    rec(a), rec(b)
            elif n[0] in ('or', 'and'):
                rec(n[1]), rec(n[2])
            elif n[0] == 'not':
                rec(n[1])
        rec(self.tree)
        return out

    def eval(self, env):
        def ev(n):
            k = n[0]
            if k == 'num':
                return n[1]
            if k == 'id':
                return env.get(n[1], 0)
            if k == 'not':
                return int(not ev(n[1]))
            if k == 'and':
                return int(bool(ev(n[1])) and bool(ev(n[2])))
            if k == 'or':
                return int(bool(ev(n[1])) or bool(ev(n[2])))
            a, b = ev(n[2]), ev(n[3])
            return int({'<': a < b, '>': a > b, '<=': a <= b, '>=': a >= b, '==': a == b, '!=': a != b}[n[1]])
        return bool(ev(self.tree))


_DIRECTIVE = re.compile(r'^[ \t]*#[ \t]*(if|ifdef|ifndef|elif|else|endif|define|error|undef)\b[ \t]*(.*)$', re.S)


def logical_lines(text):
    out, cur = [], ''
    for ln in text.split('\n'):
        if ln.rstrip().endswith('\\'):
            cur += ln.rstrip()[:-1] + ' '
            continue
        out.append(cur + ln)
        cur = ''
    if cur:
        out.append(cur)
    return out


class PPSection:
    """A utility section seen through the preprocessor: for each assignment of its condition atoms, which macros and
    function declarations are active."""

    def __init__(self, text, extra_conds=()):
        self.lines = []
        self.conds = {}
        for ln in logical_lines(text):
            m = _DIRECTIVE.match(ln)
            if not m:
                self.lines.append(('text', ln))
                continue
            d, rest = m.group(1), m.group(2).strip()
            if d == 'ifdef':
                d, rest = 'if', 'defined(%s)' % rest
            elif d == 'ifndef':
                d, rest = 'if', '!defined(%s)' % rest
            if d in ('if', 'elif'):
                self.conds[rest] = self.conds.get(rest) or Cond(rest)
            self.lines.append((d, rest))
        self.extra = [Cond(c) for c in extra_conds]
        atoms = collections.defaultdict(set)
        for c in list(self.conds.values()) + self.extra:
            c.atoms(atoms)
        self.domains = {}
        for a, th in atoms.items():
            self.domains[a] = sorted({t + d for t in th for d in (-1, 0, 1)}) if th else [0, 1]
        n = 1
        for d in self.domains.values():
            n *= len(d)
        if n > 20000:
            raise AnalysisError('preprocessor configuration space too large (%d)' % n)

    def configs(self):
        names = sorted(self.domains)
        for vals in itertools.product(*[self.domains[a] for a in names]):
            yield dict(zip(names, vals))

    def view(self, env):
        """-> (defs, feasible): defs maps C name -> ('macro', params|None, body) | ('func', nparams, None)."""
        stack = []          # [parent_active, taken, active]
        active = True
        defs = {}
        text = []
        for d, rest in self.lines:
            if d == 'if':
                v = active and self.conds[rest].eval(env)
                stack.append([active, v, v])
                active = v
            elif d == 'elif':
                if not stack:
                    raise AnalysisError('#elif without #if')
                fr = stack[-1]
                v = fr[0] and not fr[1] and self.conds[rest].eval(env)
                fr[1] = fr[1] or v
                fr[2] = v
                active = v
            elif d == 'else':
                if not stack:
                    raise AnalysisError('#else without #if')
                fr = stack[-1]
                v = fr[0] and not fr[1]
                fr[1] = True
                fr[2] = v
                active = v
            elif d == 'endif':
                if not stack:
                    raise AnalysisError('#endif without #if')
                fr = stack.pop()
                active = fr[0]
            elif not active:
                continue
            elif d == 'error':
                return None, False
            elif d == 'define':
                m = re.match(r'(\w+)(\()?', rest)
                if not m:
                    continue
                name = m.group(1)
                if m.group(2):
                    rp = match_paren(rest, m.end() - 1)
                    params = split_args(rest[m.end():rp])
                    body = rest[rp + 1:].strip()
                else:
                    params, body = None, rest[m.end():].strip()
                defs[name] = ('macro', params, ' '.join(body.split()))
            elif d == 'undef':
                defs.pop(rest.strip(), None)
            elif d == 'text':
                text.append(rest.strip())
        joined = '\n'.join(text)
        for m in Catalogue.FUNC_HEAD.finditer(joined):
            lp = m.end() - 1
            rp = match_paren(joined, lp)
            if rp < 0:
                continue
            if not re.match(r'\s*(?:CYTHON_\w+\s*)*(;|\{)', joined[rp + 1:rp + 120]):
                continue
            defs.setdefault(m.group(2), ('func', len(split_args(' '.join(joined[lp + 1:rp].split()))), None))
        return defs, True


def resolve(defs, name, depth=0):
    """Follow object-like alias macros.  -> (terminal name, kind, arity, implementation key) or None."""
    d = defs.get(name)
    if d is None or depth > 6:
        return None
    if d[0] == 'func':
        return (name, 'func', d[1], ('func', name))
    params, body = d[1], d[2]
    if params is None:
        if re.fullmatch(r'[A-Za-z_]\w*', body) and body in defs and body != name:
            return resolve(defs, body, depth + 1)
        return (name, 'object-macro', None, ('macro', None, body))
    return (name, 'macro', len(params), ('macro', tuple(p.strip() for p in params), body))


def describe(env):
    on = [k for k, v in sorted(env.items()) if v]
    return ' && '.join('%s' % k if env[k] == 1 else '%s=%#x' % (k, env[k]) for k in on) or '(all conditions false)'


# ===================================================================================== emitted calls
CALL_RE = re.compile(r'\b((?:__Pyx_|__pyx_|__PYX_)\w+)\s*\(')


def fastvar_domain(ctx):
    """Values of the `Signature.fastvar` property and the fastcall kinds: -> (kinds {member: (fastvar, guard)}, domain)."""
    ix = ctx.index
    sig = ix.cls('TypeSlots', 'Signature')
    out = {}
    members = None
    for n in sig.node.body:
        if isinstance(n, ast.ClassDef) and n.name == 'FastcallUsed':
            members = {}
            for s in n.body:
                if isinstance(s, ast.Assign) and isinstance(s.targets[0], ast.Name) and isinstance(s.value, ast.Constant):
                    members[s.targets[0].id] = s.value.value
    if not members:
        raise AnalysisError('TypeSlots.Signature.FastcallUsed enum not found')

    def chain(prop):
        fn = sig.methods.get(prop)
        if fn is None:
            raise AnalysisError('TypeSlots.Signature.%s vanished' % prop)
        res, seen = {}, set()
        stmts = [s for s in fn.body if not (isinstance(s, ast.Expr) and isinstance(s.value, ast.Constant))]
        if len(stmts) != 1 or not isinstance(stmts[0], ast.If):
            raise AnalysisError('Signature.%s is no longer an if-chain over use_fastcall' % prop)
        node = stmts[0]
        while True:
            t = node.test
            ok = isinstance(t, ast.Compare) and len(t.ops) == 1 and isinstance(t.ops[0], (ast.Eq, ast.Is)) and \
                is_self_attr(t.left) and t.left.attr == 'use_fastcall' and isinstance(t.comparators[0], ast.Attribute) and \
                t.comparators[0].attr in members
            ret = node.body[0] if len(node.body) == 1 and isinstance(node.body[0], ast.Return) else None
            if not ok or ret is None or not (isinstance(ret.value, ast.Constant) and isinstance(ret.value.value, str)):
                raise AnalysisError('Signature.%s: unsupported branch shape at line %d' % (prop, node.lineno))
            res[t.comparators[0].attr] = ret.value.value
            seen.add(t.comparators[0].attr)
            if len(node.orelse) == 1 and isinstance(node.orelse[0], ast.If):
                node = node.orelse[0]
                continue
            if len(node.orelse) == 1 and isinstance(node.orelse[0], ast.Return) and isinstance(node.orelse[0].value, ast.Constant):
                for k in members:
                    if k not in seen:
                        res[k] = node.orelse[0].value.value
                break
            raise AnalysisError('Signature.%s: unsupported else branch' % prop)
        return res
    fv, gd = chain('fastvar'), chain('fastcall_guard')
    for k, v in members.items():
        if k not in fv or k not in gd:
            raise AnalysisError('Signature.fastvar/fastcall_guard do not cover FastcallUsed.%s' % k)
        out[k] = (v, fv[k], gd[k])
    return out, sorted(set(fv.values()))


def is_fastvar(p):
    return isinstance(p, ast.Attribute) and p.attr == 'fastvar'


def templates_in(root):
    """Outermost emitted-text templates below root (not descending into nested function definitions)."""
    out = []

    def rec(n, top):
        if not top and isinstance(n, (ast.FunctionDef, ast.AsyncFunctionDef, ast.ClassDef, ast.Lambda)):
            return
        if isinstance(n, (ast.JoinedStr, ast.BinOp)) or (isinstance(n, ast.Constant) and isinstance(n.value, str)):
            t = str_template(n)
            if t is not None:
                out.append((n, t[0], t[1]))
                return
        for ch in ast.iter_child_nodes(n):
            rec(ch, False)
    rec(root, True)
    return out


class ECall:
    __slots__ = ('node', 'name', 'args', 'argph', 'variant', 'text', 'end', 'ph_after')

    def __init__(self, **kw):
        for k, v in kw.items():
            setattr(self, k, v)


def calls_in(root, domain):
    """Emitted `__Pyx_name(args)` calls in the templates below root; a `...fastvar` placeholder glued to the name is
    expanded over `domain`."""
    out = []
    for n, text, ph in templates_in(root):
        if 'yx_' not in text and 'YX_' not in text:
            continue
        fv = [k for k, p in enumerate(ph) if is_fastvar(p)]
        variants = domain if fv else [None]
        for v in variants:
            t2, ph2, k = '', [], 0
            for ch in text:
                if ch == PLACEHOLDER:
                    if k in fv:
                        t2 += v
                    else:
                        t2 += ch
                        ph2.append(ph[k])
                    k += 1
                else:
                    t2 += ch
            for m in CALL_RE.finditer(t2):
                name = m.group(1)
                if t2[m.end(1):m.end(1) + 1] == PLACEHOLDER or (m.start(1) > 0 and t2[m.start(1) - 1] == PLACEHOLDER):
                    continue
                if re.search(r'#\s*define\s+$', t2[:m.start(1)]):
                    continue
                var = v
                if v is not None and not name.endswith('_' + v):
                    if v != variants[0]:
                        continue    # a call without the variant suffix in a variant template is reported once
                    var = None
                lp = m.end() - 1
                rp = match_paren(t2, lp)
                if rp < 0:
                    out.append(ECall(node=n, name=name, args=None, argph=None, variant=var, text=t2, end=-1, ph_after=[]))
                    continue
                args = split_args(t2[lp + 1:rp])
                k = t2[:lp].count(PLACEHOLDER)
                argph = []
                for a in args:
                    c = a.count(PLACEHOLDER)
                    argph.append(ph2[k:k + c])
                    k += c
                out.append(ECall(node=n, name=name, args=args, argph=argph, variant=var, text=t2, end=rp, ph_after=ph2[k:]))
    return out


def helper_names(ctx, file=UFILE):
    return {k for k, v in ctx.cat.decls.items() if any(d.file == file for d in v)}


def emitters(ctx, names, domain, modules=None):
    """Yield (module, qualname, owner, fn, [ECall]) for every compiler function that emits a call to one of `names`."""
    ix = ctx.index
    stems = set(names)
    for v in domain:
        stems |= {n[:-len(v)] for n in names if n.endswith('_' + v)}
    pat = re.compile('|'.join(sorted(re.escape(x) for x in stems)))
    for m in ix.modules.values():
        if not m.name.startswith('Cython.Compiler'):
            continue
        if modules and m.short not in modules:
            continue
        if not pat.search(m.src):
            continue
        lines = sorted({n.lineno for n in ast.walk(m.tree) if isinstance(n, ast.Constant) and isinstance(n.value, str) and pat.search(n.value)})
        if not lines:
            continue
        for qn, owner, fn in ix.functions_of(m):
            if not any(fn.lineno <= ln <= fn.end_lineno for ln in lines):
                continue
            body = ast.Module(body=list(fn.body), type_ignores=[])
            cs = [c for c in calls_in(body, domain) if c.name in names]
            if cs:
                yield m, qn, owner, fn, cs


# ------------------------------------------------------------------------------------- I5 + FAM + GUARD
def rule_arity(ctx, sites):
    cat = ctx.cat
    r = Rule('C24-I5', 'every call to a FunctionArguments.c helper emitted as C text passes exactly the number of arguments of '
                       'every #if variant of the helper (the Signature.fastvar suffix expanded over its values)', floor=15)
    for m, qn, owner, fn, cs in sites:
        for c in cs:
            key = '%s.%s:%s' % (m.short, qn, c.name)
            if c.args is None:
                r.inst(key + ':unbalanced', nontrivial=False)
                continue
            if any(iface._multi_valued(p) for p in c.argph):
                continue
            ar = ctx.cat.arities(c.name)
            r.inst(key + '/%d' % len(c.args), sample='%s.%s emits %s(%s)' % (m.short, qn, c.name, ', '.join(c.args)))
            if not ar:
                continue        # undefined names are the business of C24-FAM (families) / not a helper of this file
            bad = sorted(a for a in ar if a is not None and a != len(c.args))
            if bad:
                r.violate(key, m.rel, c.node.lineno,
                          'emitted call %s(%s) passes %d argument(s) but a definition of the helper in Cython/Utility takes %s: '
                          'the generated wrapper does not compile (or binds the wrong values)' % (c.name, ', '.join(c.args), len(c.args), bad))
    pc = ast.parse("def f(self, code):\n    code.putln('x = __Pyx_KwValues_%s(%s);' % (self.signature.fastvar, a))\n").body[0]
    got = calls_in(ast.Module(body=pc.body, type_ignores=[]), ['VARARGS', 'FASTCALL'])
    r.positive_control(sorted(c.name for c in got) == ['__Pyx_KwValues_FASTCALL', '__Pyx_KwValues_VARARGS'] and
                       all(len(c.args) == 1 and any(a not in (None, 1) for a in cat.arities(c.name)) for c in got),
                       'one-argument call of the two-parameter __Pyx_KwValues_* family')
    return r


def family_section(ctx):
    sec = ctx.cat.files.get(UFILE, {}).get('fastcall', {})
    if 'proto' not in sec:
        raise AnalysisError('utility section FunctionArguments.c::fastcall.proto vanished')
    return sec


def rule_families(ctx, sites, kinds, domain):
    r = Rule('C24-FAM', 'every __Pyx_<Family>_<fastvar> helper the wrapper generator can emit is defined, with the emitted arity, '
                        'under every feasible assignment of the #if conditions of FunctionArguments.c::fastcall', floor=10)
    g = Rule('C24-GUARD', 'for every fastcall kind the helper variant selected by Signature.fastvar uses the fastcall '
                          'argument layout exactly when the C signature guard Signature.fastcall_guard is true (every #if configuration)', floor=7)
    sec = family_section(ctx)
    guards = sorted({gd for _, _, gd in kinds.values()})
    pp = PPSection(sec['proto'].text or sec['proto'].raw, extra_conds=guards)
    gconds = {gd: Cond(gd) for gd in guards}
    need = collections.defaultdict(set)     # name -> emitted arities
    fams = collections.defaultdict(set)
    where = {}
    for m, qn, owner, fn, cs in sites:
        for c in cs:
            if c.variant is None or c.args is None:
                continue
            fam = c.name[:-len(c.variant) - 1]
            fams[fam].add(len(c.args))
            where.setdefault(fam, (m.rel, c.node.lineno, '%s.%s' % (m.short, qn)))
    if len(fams) < 3:
        raise AnalysisError('only %d fastvar helper families found at emission sites' % len(fams))
    cfgs = []
    for env in pp.configs():
        defs, ok = pp.view(env)
        if ok:
            cfgs.append((env, defs))
    if len(cfgs) < 4:
        raise AnalysisError('fastcall.proto has only %d feasible configurations' % len(cfgs))
    varargs_variant = [fv for v, fv, gd in kinds.values() if not v]
    if len(varargs_variant) != 1:
        raise AnalysisError('cannot identify the non-fastcall member of FastcallUsed')
    base = varargs_variant[0]
    prel = 'Cython/Utility/' + UFILE
    for fam in sorted(fams):
        for v in domain:
            name = '%s_%s' % (fam, v)
            r.inst(name, sample='%s (emitted by %s with %s argument(s)) over %d configurations' % (name, where[fam][2], sorted(fams[fam]), len(cfgs)))
            missing, wrong, nmiss = None, None, 0
            for env, defs in cfgs:
                t = resolve(defs, name)
                if t is None:
                    missing = missing or env
                    nmiss += 1
                elif t[2] is not None and {t[2]} != fams[fam]:
                    wrong = wrong or (env, t)
            if missing is not None:
                r.violate(name, prel, sec['proto'].line,
                          '%s is not defined %s, but %s emits it for Signature.fastvar == %r: the generated wrapper does not compile'
                          % (name, 'under any #if configuration' if nmiss == len(cfgs) else
                             'in %d of %d #if configurations (e.g. when %s)' % (nmiss, len(cfgs), describe(missing)), where[fam][2], v))
            if wrong is not None:
                r.violate(name + ':arity', prel, sec['proto'].line,
                          '%s resolves to %s taking %d argument(s) when %s, but %s emits it with %s'
                          % (name, wrong[1][0], wrong[1][2], describe(wrong[0]), where[fam][2], sorted(fams[fam])))
        # guard consistency
        for kind, (val, fv, gd) in sorted(kinds.items()):
            if not val:
                continue
            name, bname = '%s_%s' % (fam, fv), '%s_%s' % (fam, base)
            key = '%s:%s' % (name, kind)
            checked = 0
            bad = None
            for env, defs in cfgs:
                t, b = resolve(defs, name), resolve(defs, bname)
                if t is None or b is None:
                    continue
                checked += 1
                fast = gconds[gd].eval(env)
                same = t[3] == b[3]
                if fast == same and bad is None:
                    bad = (env, fast, t, b)
            if not checked:
                continue
            g.inst(key, sample='%s: fastcall layout iff %s (%d configurations)' % (name, gd, checked))
            if bad is not None:
                env, fast, t, b = bad
                g.violate(key, prel, sec['proto'].line,
                          'when %s the wrapper signature for FastcallUsed.%s is the %s one (guard %s is %s) but %s resolves to %s, %s: '
                          'arguments are read with the wrong calling convention'
                          % (describe(env), kind, 'fastcall (args array, nargs, kwnames)' if fast else 'tuple/dict', gd, 'true' if fast else 'false',
                             name, t[0], 'the tuple/dict implementation %s' % b[0] if fast else 'not the tuple/dict implementation %s' % b[0]))
    # positive controls on a synthetic section
    syn = PPSection('#define __Pyx_A_VARARGS(a) x(a)\n#if V\n#define __Pyx_A_FASTCALL(a) y(a)\n#endif\n#if T\n#define __Pyx_A_T __Pyx_A_VARARGS\n#else\n#define __Pyx_A_T __Pyx_A_VARARGS\n#endif\n', ['T'])
    miss = [env for env in syn.configs() if resolve(syn.view(env)[0], '__Pyx_A_FASTCALL') is None]
    r.positive_control(bool(miss) and all(not e['V'] for e in miss), 'family member defined only under #if V')
    cT = Cond('T')
    incons = [env for env in syn.configs() if cT.eval(env) == (resolve(syn.view(env)[0], '__Pyx_A_T')[3] == resolve(syn.view(env)[0], '__Pyx_A_VARARGS')[3])]
    g.positive_control(bool(incons), 'variant aliases the tuple/dict implementation although its guard is true')
    return r, g


def rule_proto_def(ctx):
    """Functions declared in fastcall.proto under a configuration are defined in the fastcall implementation section
    under the same configuration."""
    r = Rule('C24-PD', 'a helper function prototyped by FunctionArguments.c::fastcall.proto under some #if configuration is defined '
                       'by the implementation section under the same configuration', floor=1)
    sec = family_section(ctx)
    if 'impl' not in sec:
        raise AnalysisError('FunctionArguments.c::fastcall implementation section vanished')
    pp_p = PPSection(sec['proto'].text or sec['proto'].raw)
    pp_i = PPSection(sec['impl'].text or sec['impl'].raw)
    both = PPSection((sec['proto'].text or sec['proto'].raw) + '\n' + (sec['impl'].text or sec['impl'].raw))
    seen = {}
    for env in both.configs():
        dp, ok = pp_p.view(env)
        if not ok:
            continue
        di, ok2 = pp_i.view(env)
        if not ok2:
            continue
        for name, d in dp.items():
            if d[0] != 'func':
                continue
            st = seen.setdefault(name, {'n': 0, 'bad': None})
            st['n'] += 1
            # the implementation text of a function has a body; PPSection records both prototypes and definitions as 'func',
            # so look for a '{' after the head in the active implementation text
            if name not in di and st['bad'] is None:
                st['bad'] = env
    for name, st in sorted(seen.items()):
        r.inst(name, sample='%s prototyped in %d configurations' % (name, st['n']))
        if st['bad'] is not None:
            r.violate(name, 'Cython/Utility/' + UFILE, sec['impl'].line,
                      '%s is prototyped by fastcall.proto when %s but the implementation section does not define it there: '
                      'wrappers using it fail to compile/link' % (name, describe(st['bad'])))
    syn_p = PPSection('#if A\nstatic int __Pyx_f(int x);\n#endif\n')
    syn_i = PPSection('#if A && B\nstatic int __Pyx_f(int x) { return x; }\n#endif\n')
    hit = any('__Pyx_f' in syn_p.view(e)[0] and '__Pyx_f' not in syn_i.view(e)[0]
              for e in ({'A': 1, 'B': 0}, {'A': 1, 'B': 1}))
    r.positive_control(hit, 'definition guarded more narrowly than its prototype')
    return r


# ------------------------------------------------------------------------------------- I6
STOP = {'', 'num', 'arg', 'args', 'cname', 'pyx', 'py', 'name', 'self', 'code', 'c', 'obj', 'type', 'the', 'of', 'is', 'has', 'count', 'array'}


def _tokens(s):
    """Name tokens: the whole normalised name plus its '_'-separated parts that are not generic words."""
    s = re.sub(r'^__pyx_|^__Pyx_', '', s)
    s = re.sub(r'_cname$', '', s).lower()
    out = {t for t in re.split(r'[_\W]+', s) if t not in STOP and not t.isdigit()}
    if s and not s.isdigit():
        out.add(s)
    return out


def naming_values(ctx):
    m = ctx.index.mod('Naming')
    out = {}
    for n in m.tree.body:
        if isinstance(n, ast.Assign) and len(n.targets) == 1 and isinstance(n.targets[0], ast.Name):
            v = n.value
            if isinstance(v, ast.Constant) and isinstance(v.value, str):
                out[n.targets[0].id] = v.value
            elif isinstance(v, ast.BinOp) and isinstance(v.op, ast.Add) and isinstance(v.left, ast.Name) and v.left.id in out \
                    and isinstance(v.right, ast.Constant) and isinstance(v.right.value, str):
                out[n.targets[0].id] = out[v.left.id] + v.right.value
    if len(out) < 50:
        raise AnalysisError('Naming.py: only %d constants resolved' % len(out))
    return out


def arg_tokens(a, phs, naming):
    """Name tokens carried by one emitted argument (a plain C identifier, or a single placeholder that is a name /
    attribute / Naming constant / x.result() / int(x))."""
    a = a.strip()
    if a == PLACEHOLDER and len(phs) == 1 and phs[0] is not None:
        p = phs[0]
        while isinstance(p, ast.Call) and p.args and isinstance(p.func, ast.Name) and p.func.id in ('int', 'bool', 'str'):
            p = p.args[0]
        if isinstance(p, ast.Call) and isinstance(p.func, ast.Attribute) and not p.args:
            p = p.func.value
        if isinstance(p, ast.Name):
            return _tokens(p.id)
        if isinstance(p, ast.Attribute):
            t = _tokens(p.attr)
            if isinstance(p.value, ast.Name) and p.value.id == 'Naming' and p.attr in naming:
                t |= _tokens(naming[p.attr])
            return t
        return set()
    if re.fullmatch(r'[A-Za-z_]\w*', a):
        return _tokens(a)
    return set()


def swapped(argtoks, paramnames):
    """(i, j) such that argument i carries a token of parameter j, argument j one of parameter i, and neither carries
    a token of its own position."""
    pt = [_tokens(p) if p else set() for p in paramnames]
    n = len(argtoks)
    for i in range(n):
        for j in range(i + 1, n):
            if argtoks[i] and argtoks[j] and (argtoks[i] & pt[j]) and (argtoks[j] & pt[i]) \
                    and not (argtoks[i] & pt[i]) and not (argtoks[j] & pt[j]):
                return i, j
    return None


def rule_order(ctx, sites):
    cat = ctx.cat
    r = Rule('C24-I6', 'no call to a FunctionArguments.c helper (emitted by the compiler, or from one helper of that file to another) '
                       'passes two name-carrying arguments in the positions of each other\'s parameters', floor=42)
    naming = naming_values(ctx)
    for m, qn, owner, fn, cs in sites:
        for c in cs:
            if c.args is None:
                continue
            toks = [arg_tokens(a, p, naming) for a, p in zip(c.args, c.argph)]
            if sum(1 for t in toks if t) < 2:
                continue
            key = '%s.%s:%s' % (m.short, qn, c.name)
            r.inst(key, sample='%s emits %s(%s)' % (key.split(':')[0], c.name, ', '.join('|'.join(sorted(t)) or '?' for t in toks)))
            for d in cat.lookup(c.name):
                pn = d.param_names() if d.kind != 'macro' else [p.strip() for p in (d.params or [])]
                if len(pn) != len(c.args):
                    continue
                sw = swapped(toks, pn)
                if sw:
                    i, j = sw
                    r.violate('%s:%d<->%d' % (key, i, j), m.rel, c.node.lineno,
                              'emitted call %s(...) passes %s in the position of C parameter %r and %s in the position of %r: the two arguments are swapped'
                              % (c.name, node_src(c.argph[i][0]) if c.argph[i] else c.args[i], pn[i],
                                 node_src(c.argph[j][0]) if c.argph[j] else c.args[j], pn[j]))
                    break
    # C -> C forwarding inside the utility file
    own = {k: [d for d in v if d.file == UFILE] for k, v in cat.decls.items()}
    own = {k: v for k, v in own.items() if v}
    nfw = 0
    for caller, ds in sorted(own.items()):
        for d in ds:
            if d.kind != 'func' or not d.body:
                continue
            for mm in re.finditer(r'\b(__Pyx_\w+)\s*\(', d.body):
                callee = mm.group(1)
                if callee not in own or callee == caller:
                    continue
                lp = mm.end() - 1
                rp = match_paren(d.body, lp)
                if rp < 0:
                    continue
                args = split_args(d.body[lp + 1:rp])
                targets = [t for t in own[callee] if t.kind in ('func', 'proto')]
                if not targets:
                    continue
                key = '%s->%s' % (caller, callee)
                nfw += 1
                r.inst(key, sample='%s calls %s(%s)' % (caller, callee, ', '.join(args)))
                names = [a.strip() if re.fullmatch(r'\s*&?[A-Za-z_]\w*\s*', a) else None for a in args]
                names = [n.lstrip('&') if n else None for n in names]
                for t in targets:
                    pn = t.param_names()
                    if len(pn) != len(args):
                        r.violate(key + ':arity', 'Cython/Utility/' + UFILE, d.line,
                                  '%s calls %s with %d argument(s) but it is declared with %d' % (caller, callee, len(args), len(pn)))
                        break
                    hit = None
                    for i in range(len(args)):
                        for j in range(i + 1, len(args)):
                            if names[i] and names[j] and names[i] != names[j] and names[i] == pn[j] and names[j] == pn[i]:
                                hit = (i, j)
                    if hit:
                        i, j = hit
                        r.violate('%s:%d<->%d' % (key, i, j), 'Cython/Utility/' + UFILE, d.line,
                                  '%s forwards %r in the position of parameter %r of %s and %r in the position of %r: the two arguments are swapped'
                                  % (caller, names[i], pn[i], callee, names[j], pn[j]))
                        break
    if nfw < 8:
        raise AnalysisError('only %d helper-to-helper calls found in %s' % (nfw, UFILE))
    r.positive_control(swapped([{'max', 'positional'}, {'min', 'positional'}], ['num_min', 'num_max']) == (0, 1)
                       and swapped([{'min'}, {'max'}], ['num_min', 'num_max']) is None, 'min/max passed in each other\'s position')
    return r


# ------------------------------------------------------------------------------------- I8
def _loads(node):
    """(file, section) pairs made used by `X.use_utility_code(UtilityCode.load_cached("S", "F"))` inside node."""
    out = []
    for c in pyflow.calls_in(node):
        if isinstance(c.func, ast.Attribute) and c.func.attr == 'use_utility_code':
            for a in ast.walk(c):
                if isinstance(a, ast.Call) and isinstance(a.func, ast.Attribute) and a.func.attr in LOADERS and len(a.args) >= 2 \
                        and all(isinstance(x, ast.Constant) and isinstance(x.value, str) for x in a.args[:2]):
                    out.append((a.args[1].value, a.args[0].value))
    return out


def rule_sections(ctx, sites, domain, cls_name='DefNodeWrapper'):
    cat, ix = ctx.cat, ctx.index
    r = Rule('C24-I8', 'on every path to an emitted FunctionArguments.c helper call in Nodes.py the utility section that declares the helper '
                       '(or one that requires it) has been made used, in the same method or in every calling method of the class', floor=22)
    provides = {}

    def providers(name):
        if name not in provides:
            provides[name] = {(d.file, d.section.name) for d in cat.lookup(name)}
        return provides[name]
    closure = {}

    def loaded_closure(fs):
        if fs not in closure:
            closure[fs] = set(cat.closure(*fs))
        return closure[fs]
    names = helper_names(ctx)
    by_owner = collections.defaultdict(list)
    for m, qn, owner, fn, cs in sites:
        if m.short == 'Nodes' and owner is not None:
            by_owner[owner.name].append((m, qn, owner, fn))
    if cls_name not in by_owner:
        raise AnalysisError('no helper emission found in Nodes.%s' % cls_name)

    def analyse(fn, init, record_calls):
        bad = {}

        def tr(node, state):
            s = set(state)
            for f2 in _loads(node):
                for x in loaded_closure(f2):
                    s.add(('U',) + x)
            for c in calls_in(node, domain):
                if c.name not in names:
                    continue
                have = {f[1:] for f in s if f[0] == 'U'}
                if not (providers(c.name) & have):
                    bad.setdefault((c.name, c.node.lineno), sorted(providers(c.name)))
            for c in pyflow.calls_in(node):
                if isinstance(c.func, ast.Attribute) and is_self_attr(c.func):
                    record_calls.setdefault(c.func.attr, []).append(frozenset(f for f in s if f[0] == 'U'))
            return frozenset(s)
        try:
            pyflow.Flow(tr).run(fn, init=init)
        except pyflow.TooManyStates:
            pyflow.Flow(tr, correlate=False).run(fn, init=init)
        return bad

    for cname, fns in sorted(by_owner.items()):
        owner = fns[0][2]
        methods = {}
        for k in reversed(ix.mro(owner)):
            methods.update(k.methods)
        ctxs = {n: frozenset() for n in methods}
        for _ in range(4):
            rec = {}
            for n, f in methods.items():
                analyse(f, ctxs[n], rec)
            new = {}
            for n in methods:
                ss = rec.get(n)
                new[n] = frozenset(set.intersection(*[set(x) for x in ss])) if ss else frozenset()
            if new == ctxs:
                break
            ctxs = new
        for m, qn, owner, fn in fns:
            inherited = ctxs.get(fn.name, frozenset())
            bad = analyse(fn, inherited, {})
            emitted = sorted({c.name for c in calls_in(ast.Module(body=list(fn.body), type_ignores=[]), domain) if c.name in names})
            for h in emitted:
                key = '%s.%s:%s' % (m.short, qn, h)
                r.inst(key, sample='%s emits %s; inherited from callers: %s' % (qn, h, sorted({f[2] for f in inherited}) or '-'))
            for (h, line), prov in sorted(bad.items()):
                r.violate('%s.%s:%s' % (m.short, qn, h), m.rel, line,
                          '%s emits a call to %s on a path where none of the utility sections %s has been requested with use_utility_code '
                          '(neither in this method nor before every call of it in %s): the generated C calls an undeclared function'
                          % (qn, h, ['%s::%s' % p for p in prov], cname))
    pc = ast.parse("def f(self, code):\n    if self.x:\n        code.globalstate.use_utility_code(UtilityCode.load_cached('RejectKeywords', 'FunctionArguments.c'))\n"
                   "    code.putln('__Pyx_RejectKeywords(%s, %s);' % (a, b))\n").body[0]
    r.positive_control(bool(analyse(pc, frozenset(), {})), 'utility section requested on one branch only')
    return r


# ------------------------------------------------------------------------------------- RX  raise => error exit
def raise_helpers(ctx):
    """void helpers of FunctionArguments.c that set an exception."""
    cat = ctx.cat
    out = set()
    for k, v in cat.decls.items():
        for d in v:
            if d.file == UFILE and d.kind == 'func' and re.search(r'\bvoid\s*$', d.ret or '') and d.body and \
                    re.search(r'\b(?:PyErr_Format|PyErr_SetString|PyErr_SetObject|PyErr_SetNone|__Pyx_Raise\w+)\s*\(', d.body):
                out.add(k)
    if len(out) < 4:
        raise AnalysisError('only %d exception-raising void helpers found in %s' % (len(out), UFILE))
    return out


def _is_exit_expr(e, env, depth=0):
    if e is None or depth > 3:
        return False
    if isinstance(e, ast.Call) and isinstance(e.func, ast.Attribute) and e.func.attr == 'error_goto':
        return True
    if isinstance(e, ast.Name) and e.id in env and env[e.id]:
        return all(_is_exit_expr(v, env, depth + 1) for v in env[e.id])
    t = str_template(e) if isinstance(e, (ast.JoinedStr, ast.Constant, ast.BinOp)) else None
    if t is not None:
        return bool(re.match(r'\s*(?:return\b|goto\b)', t[0]))
    return False


def _text_exits(c, env):
    """Does the emitted text continue with an error exit after the call?"""
    rest = c.text[c.end + 1:]
    if re.search(r'\b(?:goto|return)\b', rest):
        return True
    return any(_is_exit_expr(p, env) for p in c.ph_after)


def rule_raise_exit(ctx, sites, domain):
    r = Rule('C24-RX', 'after an emitted call to an exception-raising void helper of FunctionArguments.c the next C code emitted on every '
                       'path is an error exit (goto error label / return error value)', floor=7)
    raisers = raise_helpers(ctx)
    EMIT = ('put', 'putln', 'put_safe')

    def analyse(fn):
        env = local_env(fn)
        bad = []
        inst = []

        def tr(node, state):
            s = set(state)
            pend = [f for f in s if f[0] == 'P']
            cs = [c for c in calls_in(node, domain) if c.name in raisers and c.args is not None]
            # does this node emit anything?
            emits, exits = False, False
            for c in pyflow.calls_in(node):
                if isinstance(c.func, ast.Attribute):
                    a = c.func.attr
                    if a == 'put_goto':
                        emits = exits = True
                    elif a in EMIT and c.args:
                        emits = True
                        if _is_exit_expr(c.args[0], env):
                            exits = True
                    elif a.startswith(('put_', 'generate_')) and not cs:
                        emits = True
            if pend and emits and not cs:
                if exits:
                    s -= set(pend)
                else:
                    for f in pend:
                        bad.append((f[1], f[2], 'is followed by other emitted code (line %d)' % getattr(node, 'lineno', 0)))
                    s -= set(pend)
            for c in cs:
                inst.append(c)
                if pend:
                    for f in pend:
                        bad.append((f[1], f[2], 'is followed by another helper call'))
                    s -= set(pend)
                    pend = []
                if not _text_exits(c, env):
                    s.add(('P', c.name, c.node.lineno))
            return frozenset(s)
        try:
            o = pyflow.Flow(tr).run(fn)
        except pyflow.TooManyStates:
            o = pyflow.Flow(tr, correlate=False).run(fn)
        for st in o.normal | o.returns:
            for f in st:
                if f[0] == 'P':
                    bad.append((f[1], f[2], 'is the last C code the method emits on some path'))
        return inst, bad

    for m, qn, owner, fn, cs in sites:
        if not any(c.name in raisers for c in cs):
            continue
        inst, bad = analyse(fn)
        for h in sorted({c.name for c in inst}):
            r.inst('%s.%s:%s' % (m.short, qn, h), sample='%s.%s emits %s(...)' % (m.short, qn, h))
        seen = set()
        for h, line, why in bad:
            if (h, line) in seen:
                continue
            seen.add((h, line))
            r.violate('%s.%s:%s' % (m.short, qn, h), m.rel, line,
                      'the emitted call to %s (which sets a Python exception and returns void) %s instead of an error exit: '
                      'the wrapper continues with an exception set (SystemError / wrong binding instead of TypeError)' % (h, why))
    pc = ast.parse("def f(self, code):\n    goto_error = code.error_goto(self.pos)\n"
                   "    code.putln('__Pyx_RaiseKeywordRequired(%s, %s);' % (a, b))\n    code.putln('}')\n").body[0]
    r.positive_control(bool(analyse(pc)[1]), 'raise helper not followed by an exit')
    return r


# ------------------------------------------------------------------------------------- labels
def rule_labels(ctx, cls_name='DefNodeWrapper'):
    from . import gen
    ix = ctx.index
    owner = ix.cls('Nodes', cls_name)
    r3 = Rule('C24-G3', 'the argument-parsing error label installed by %s is replaced by the saved label on every normal exit' % cls_name, floor=1)
    tr = gen._g3_transfer()
    for name, fn in sorted(owner.methods.items()):
        touches = any(gen._code_call(n, ('new_loop_labels', 'new_error_label', 'all_new_labels')) or
                      (isinstance(n, ast.Attribute) and isinstance(n.ctx, ast.Store) and gen._code_label_attr(n)) for n in walk_no_nested(fn))
        if not touches:
            continue
        key = 'Nodes.%s.%s' % (cls_name, name)
        r3.inst(key, sample=key)
        o = pyflow.Flow(tr).run(fn)
        for k in sorted({f[1] for st in o.normal | o.returns for f in st if f[0] == 'L'}):
            r3.violate('%s:%s' % (key, k), owner.module.rel, fn.lineno,
                       '%s leaves code.%s_label pointing to its own argument-error label on some normal exit: errors in the function '
                       'body would jump into the argument cleanup code' % (name, k))
    pc = ast.parse("def f(self, code):\n    old = code.new_error_label()\n    if self.x:\n        return\n    code.error_label = old\n").body[0]
    o = pyflow.Flow(tr).run(pc)
    r3.positive_control(any(f[0] == 'L' for st in o.returns for f in st), 'early return without restoring the error label')

    r4 = Rule('C24-G4', 'every label created with code.new_label() in %s is placed with put_label exactly once on every path where it can '
                        'have been used (placement may be guarded by code.label_used(label))' % cls_name, floor=3)

    def check(fn):
        labels = {}
        for n in walk_no_nested(fn):
            if isinstance(n, ast.Assign) and len(n.targets) == 1 and isinstance(n.targets[0], ast.Name) and gen._code_call(n.value, ('new_label',)):
                labels[n.targets[0].id] = n
        if not labels:
            return {}, {}
        problems = {}

        def tr4(node, state):
            s = set(state)
            if isinstance(node, ast.Assign) and len(node.targets) == 1 and isinstance(node.targets[0], ast.Name) and node.targets[0].id in labels \
                    and gen._code_call(node.value, ('new_label',)):
                s = {f for f in s if not (f[0] in ('N', 'P') and f[1] == node.targets[0].id)}
                s.add(('N', node.targets[0].id))
                return frozenset(s)
            for c in pyflow.calls_in(node):
                if gen._code_call(c, ('put_label',)) and c.args and isinstance(c.args[0], ast.Name) and c.args[0].id in labels:
                    v = c.args[0].id
                    if ('P', v) in s:
                        problems.setdefault(v, 'is placed twice on one path (line %d): duplicate C label' % c.lineno)
                    s.add(('P', v))
            return frozenset(s)
        o = pyflow.Flow(tr4).run(fn)
        for st in o.normal | o.returns:
            for v in labels:
                if ('N', v) in st and ('P', v) not in st:
                    guarded = any(f[0] == '?' and f[2] is False and re.fullmatch(r'code\.label_used\(%s\)' % re.escape(v), f[1]) for f in st)
                    if not guarded:
                        problems.setdefault(v, 'is never placed with code.put_label on some path through the method: a goto to it does not compile')
        return labels, problems

    for name, fn in sorted(owner.methods.items()):
        labels, problems = check(fn)
        for v, asg in sorted(labels.items()):
            key = 'Nodes.%s.%s:%s' % (cls_name, name, v)
            r4.inst(key, sample=key)
            if v in problems:
                r4.violate(key, owner.module.rel, asg.lineno, 'label %r of %s %s' % (v, name, problems[v]))
    pc = ast.parse("def f(self, code):\n    end = code.new_label('e')\n    code.put_goto(end)\n    if self.x:\n        code.put_label(end)\n").body[0]
    r4.positive_control(bool(check(pc)[1]), 'label placed on one branch only')
    return r3, r4


# ------------------------------------------------------------------------------------- METH_* flag switches
# CPython calling conventions (Doc/c-api/structures.rst, "PyMethodDef.ml_flags"): number of C arguments of the method
# implementation for each supported combination of convention flags.
CONVENTION = {
    frozenset(['METH_VARARGS']): 2,
    frozenset(['METH_VARARGS', 'METH_KEYWORDS']): 3,
    frozenset(['METH_FASTCALL']): 3,
    frozenset(['METH_FASTCALL', 'METH_KEYWORDS']): 4,
    frozenset(['METH_METHOD', 'METH_FASTCALL', 'METH_KEYWORDS']): 5,
    frozenset(['METH_NOARGS']): 2,
    frozenset(['METH_O']): 2,
}


def _switches(body):
    """[(mask flags, {frozenset(case flags): case text}, has_default)] for every switch over METH_* flags in a C body."""
    out = []
    for m in re.finditer(r'\bswitch\s*\(', body):
        lp = m.end() - 1
        rp = match_paren(body, lp)
        head = body[lp + 1:rp]
        if 'METH_' not in head:
            continue
        mask = set(re.findall(r'\bMETH_\w+', head))
        b0 = body.find('{', rp)
        blk = Catalogue._brace_body(body, b0)
        cases, depth, i, cur, start = {}, 0, 0, None, 0
        labels = []
        for mm in re.finditer(r'\bcase\s+([^:;{}]+):|\bdefault\s*:', blk):
            # only labels at nesting depth 1
            d = blk[:mm.start()].count('{') - blk[:mm.start()].count('}')
            if d != 1:
                continue
            labels.append((mm.start(), mm.end(), mm.group(1)))
        has_default = False
        for k, (s0, e0, lab) in enumerate(labels):
            end = labels[k + 1][0] if k + 1 < len(labels) else len(blk) - 1
            # consecutive labels share the following text
            j = k
            while j + 1 < len(labels) and not blk[labels[j][1]:labels[j + 1][0]].strip():
                j += 1
            text = blk[labels[j][1]:(labels[j + 1][0] if j + 1 < len(labels) else len(blk) - 1)]
            if lab is None:
                has_default = True
            else:
                cases[frozenset(re.findall(r'\bMETH_\w+', lab))] = text
        out.append((mask, cases, has_default))
    return out


def _meth_invocation(text):
    """Arguments of the call through the method pointer `meth` in a piece of C text, or None."""
    for m in re.finditer(r'\bmeth\s*\)?\s*\(', text):
        lp = m.end() - 1
        rp = match_paren(text, lp)
        if rp > 0:
            return split_args(text[lp + 1:rp])
    return None


def rule_flags(ctx):
    cat, ix = ctx.cat, ctx.index
    r = Rule('C24-FLAGS', 'every METH_* flag combination the compiler writes into a PyMethodDef (Signature.method_flags) is dispatched by the '
                          'CyFunction vectorcall selection and tp_call switches of CythonFunction.c, and each case calls the method pointer with the '
                          'number of arguments of that CPython calling convention', floor=14)
    ts = ix.mod('TypeSlots')
    sig = ix.cls('TypeSlots', 'Signature')
    mf = sig.methods.get('method_flags')
    if mf is None:
        raise AnalysisError('TypeSlots.Signature.method_flags vanished')
    consts = {}
    for n in ts.tree.body:
        if isinstance(n, ast.Assign) and isinstance(n.targets[0], ast.Name) and n.targets[0].id.startswith('method_') and \
                isinstance(n.value, ast.Constant) and isinstance(n.value.value, str):
            consts[n.targets[0].id] = n.value.value
    combos = {}
    for n in walk_no_nested(mf):
        if isinstance(n, ast.Return) and isinstance(n.value, ast.List):
            fl = []
            for e in n.value.elts:
                if isinstance(e, ast.Name) and e.id in consts:
                    fl.append(consts[e.id])
                else:
                    raise AnalysisError('Signature.method_flags returns a non-constant flag at line %d' % n.lineno)
            combos[frozenset(fl)] = n.lineno
    if len(combos) < 3:
        raise AnalysisError('Signature.method_flags: only %d flag combinations found' % len(combos))
    # __Pyx_METH_FASTCALL alternatives
    alt = {}
    for d in cat.decls.get('__Pyx_METH_FASTCALL', []):
        if d.kind == 'macro' and d.params is None and d.conds:
            last = d.conds[-1].split('; ')
            first = last[0].split(None, 1)
            if first[0] == 'if' and len(last) <= 2:
                alt[(first[1].strip(), len(last) == 1)] = d.body.strip()
    vc = [(c, on, b) for (c, on), b in alt.items()]
    conds = {c for c, _, _ in vc}
    if len(vc) != 2 or len(conds) != 1:
        raise AnalysisError('__Pyx_METH_FASTCALL is no longer defined by a two-way #if (found %r)' % alt)
    vcond = conds.pop()
    fast = {on: b for _, on, b in vc}

    def body_of(name):
        ds = [d for d in cat.decls.get(name, []) if d.kind == 'func' and d.file == 'CythonFunction.c']
        if not ds:
            raise AnalysisError('CythonFunction.c: %s vanished' % name)
        return ds[0]
    init = None
    for k, v in cat.decls.items():
        for d in v:
            if d.file == 'CythonFunction.c' and d.kind == 'func' and d.body and 'ml_flags' in d.body and \
                    any('METH_FASTCALL' in ' '.join(mk) for mk, _, _ in _switches(d.body)):
                init = d
    if init is None:
        raise AnalysisError('CythonFunction.c: vectorcall selection switch over ml_flags not found')
    sw_init = [s for s in _switches(init.body) if 'METH_FASTCALL' in s[0]][0]
    callm = body_of('__Pyx_CyFunction_CallMethod')
    sws = _switches(callm.body)
    if not sws:
        raise AnalysisError('__Pyx_CyFunction_CallMethod: switch over call flags not found')
    sw_call = sws[0]
    prel = 'Cython/Utility/CythonFunction.c'

    def expand(c, on):
        return frozenset(fast[on] if f == '__Pyx_METH_FASTCALL' else f for f in c)

    def check_call_switch(c, how, line):
        masked = frozenset(c & sw_call[0])
        key = 'tp_call:%s' % '|'.join(sorted(masked))
        r.inst(key + ':' + how, sample='%s -> __Pyx_CyFunction_CallMethod case %s' % (how, '|'.join(sorted(masked))))
        if masked not in sw_call[1]:
            r.violate(key, prel, callm.line,
                      'flag combination %s (%s, Signature.method_flags line %d) reaches __Pyx_CyFunction_CallMethod but its switch has no case %s: '
                      'calling such a function raises SystemError("Bad call flags")' % ('|'.join(sorted(c)), how, line, '|'.join(sorted(masked))))

    for c, line in sorted(combos.items(), key=lambda kv: sorted(kv[0])):
        e1 = expand(c, True)
        key = 'vectorcall:%s' % '|'.join(sorted(e1))
        r.inst(key, sample='method_flags %s -> vectorcall case %s when %s' % ('|'.join(sorted(c)), '|'.join(sorted(e1)), vcond))
        m1 = frozenset(e1 & sw_init[0])
        if m1 not in sw_init[1]:
            r.violate(key, prel, init.line,
                      'flag combination %s (Signature.method_flags line %d) has no case in the vectorcall selection switch of %s: '
                      'creating such a function fails with SystemError("Bad call flags for CyFunction") when %s'
                      % ('|'.join(sorted(e1)), line, init.name, vcond))
        elif re.search(r'=\s*NULL\s*;', sw_init[1][m1]):
            check_call_switch(e1, 'no vectorcall when ' + vcond, line)
        check_call_switch(expand(c, False), 'when !' + vcond, line)

    # calling conventions
    def conv_check(flags, args, key, where_line, what):
        exp = CONVENTION.get(flags)
        if exp is None:
            return
        r.inst(key, sample='%s: %s calls meth(%s)' % ('|'.join(sorted(flags)), what, ', '.join(args) if args else '?'))
        if args is None:
            raise AnalysisError('%s: call through the method pointer not found' % what)
        problem = None
        if len(args) != exp:
            problem = 'passes %d argument(s), the %s convention has %d' % (len(args), '|'.join(sorted(flags)), exp)
        elif flags == frozenset(['METH_NOARGS']) and args[1].strip() != 'NULL':
            problem = 'passes %r as second argument, METH_NOARGS functions receive NULL' % args[1]
        elif flags == frozenset(['METH_O']) and args[1].strip() == 'NULL':
            problem = 'passes NULL as the single argument of a METH_O function'
        if problem:
            r.violate(key, prel, where_line, '%s %s: the wrapper reads its arguments with the wrong layout' % (what, problem))

    for flags, text in sorted(sw_init[1].items(), key=lambda kv: sorted(kv[0])):
        m = re.search(r'=\s*(__Pyx_\w+)\s*;', text)
        if not m:
            continue
        d = body_of(m.group(1))
        conv_check(flags, _meth_invocation(d.body), 'conv:vectorcall:%s' % '|'.join(sorted(flags)), d.line, 'vectorcall function %s selected for %s' % (d.name, '|'.join(sorted(flags))))
    for flags, text in sorted(sw_call[1].items(), key=lambda kv: sorted(kv[0])):
        conv_check(flags, _meth_invocation(text), 'conv:tp_call:%s' % '|'.join(sorted(flags)), callm.line, '__Pyx_CyFunction_CallMethod case %s' % '|'.join(sorted(flags)))
    sw = _switches('{ switch (f & (METH_O | METH_NOARGS)) { case METH_O: return (*meth)(self, NULL); default: break; } }')
    r.positive_control(len(sw) == 1 and frozenset(['METH_NOARGS']) not in sw[0][1] and _meth_invocation(sw[0][1][frozenset(['METH_O'])]) == ['self', 'NULL'],
                       'switch without METH_NOARGS case / METH_O called with NULL')
    return r
