"""C23-SLOT: the closure-slot allocator used at every yield point hands out distinct slots — ownership (alias) analysis.

At a yield/await, YieldExprNode.generate_yield_code() parks every live C temporary in a field of the generator's closure:
`closure_temps.reset()` then one `closure_temps.allocate_temp(type)` per live temporary.  Two temporaries that get the same field
are restored from one value after the resume (wrong values, NULL iterators).  ClosureTempAllocator keeps two pools per C type — the
slots ever created (`temps_allocated`) and the slots still free at this yield (`temps_free`) — as dicts of lists that are *mutated
in place* (pop from the free list, append to the allocated list).  That is only correct while no list (or dict) object is reachable
from both pools: a shared list makes a slot appended to "allocated" immediately "free" again (handed out twice at the same yield) and
makes popping a free slot forget it was ever allocated.

The rule is a flow-insensitive points-to analysis of the class (abstract objects = container allocation sites: [] / list(..) / x[:] /
x.copy() / comprehensions / {} / dict(..); a shallow copy is a new container that *shares the elements* of its source; `d[k]`,
`.get`, `.items()/.values()` loops read the elements).  Obligations:
  OWN   every container object that is mutated in place somewhere in the class is reachable from at most one attribute of self;
  TAKE  a value that allocate_temp returns out of a pool list is removed from that list by the same expression (`.pop(..)`), not
        merely read (`[0]`), otherwise the next request at the same yield gets the same slot.
Unknown value expressions stored into a pool are ANALYSIS-ERRORs (never treated as fresh)."""
import ast

from ..core import Rule, AnalysisError, node_src
from ..engine.pyindex import walk_no_nested

MUTATORS_LIST = {'append', 'pop', 'remove', 'insert', 'extend', 'clear', 'sort', 'reverse'}
MUTATORS_DICT = {'pop', 'popitem', 'clear', 'update', 'setdefault'}
FRESH_CALLS = {'list': 'list', 'sorted': 'list', 'tuple': None, 'set': 'set', 'frozenset': None, 'dict': 'dict'}
IMMUTABLE_CALLS = {'len', 'str', 'int', 'bool', 'repr', 'min', 'max', 'sum', 'any', 'all', 'isinstance', 'id', 'hash', 'format'}


class Obj:
    __slots__ = ('kind', 'site', 'line', 'elems')

    def __init__(self, kind, site, line):
        self.kind, self.site, self.line, self.elems = kind, site, line, set()

    def __repr__(self):
        return '<%s %s>' % (self.kind, self.site)


class Unknown(Exception):
    pass


class PointsTo:
    """Flow-insensitive points-to facts of one class given as {method name: FunctionDef}."""

    def __init__(self, methods, clsname):
        self.methods, self.clsname = methods, clsname
        self.objs = {}          # id(node) -> Obj
        self.fields = {}        # attribute of self -> set(Obj)
        self.locals = {}        # (method, name) -> set(Obj)
        self.changed = True
        self.counts = {}
        self.hint = None        # text of the assignment target while its value is evaluated (names the allocation site)

    # ------------------------------------------------------------------ objects
    def fresh(self, node, kind, meth):
        o = self.objs.get(id(node))
        if o is None:
            base = '%s:%s%s' % (meth, (self.hint + '=') if self.hint else '', ''.join(node_src(node, 50).split()))
            n = self.counts.get(base, 0)
            self.counts[base] = n + 1
            o = self.objs[id(node)] = Obj(kind, base if n == 0 else '%s#%d' % (base, n + 1), getattr(node, 'lineno', 0))
            self.changed = True
        return o

    def add(self, target_set, objs):
        new = set(objs) - target_set
        if new:
            target_set |= new
            self.changed = True

    @staticmethod
    def elems(objs):
        out = set()
        for o in objs:
            out |= o.elems
        return out

    @staticmethod
    def self_attr(n):
        return n.attr if isinstance(n, ast.Attribute) and isinstance(n.value, ast.Name) and n.value.id == 'self' else None

    # ------------------------------------------------------------------ expressions
    def ev(self, e, meth, strict=False):
        """set of container objects the expression may evaluate to (strings/numbers/None/unknown objects: empty set).
        strict: raise Unknown for expressions that might carry a container the analysis cannot see."""
        if e is None or isinstance(e, (ast.Constant, ast.JoinedStr, ast.Compare)):
            return set()
        if isinstance(e, ast.BoolOp):
            out = set()
            for v in e.values:
                out |= self.ev(v, meth, strict)
            return out
        if isinstance(e, ast.IfExp):
            return self.ev(e.body, meth, strict) | self.ev(e.orelse, meth, strict)
        a = self.self_attr(e)
        if a is not None:
            return set(self.fields.get(a, ()))
        if isinstance(e, ast.Name):
            return set(self.locals.get((meth, e.id), ()))
        if isinstance(e, (ast.List, ast.ListComp, ast.Set, ast.SetComp)):
            o = self.fresh(e, 'list' if isinstance(e, (ast.List, ast.ListComp)) else 'set', meth)
            if isinstance(e, (ast.List, ast.Set)):
                for x in e.elts:
                    self.add(o.elems, self.iter_elems(x.value, meth) if isinstance(x, ast.Starred) else self.ev(x, meth))
            else:
                self.bind_generators(e.generators, meth)
                self.add(o.elems, self.ev(e.elt, meth))
            return {o}
        if isinstance(e, (ast.Dict, ast.DictComp)):
            o = self.fresh(e, 'dict', meth)
            if isinstance(e, ast.Dict):
                for k, v in zip(e.keys, e.values):
                    if k is None:       # {**other}: shallow copy
                        self.add(o.elems, self.elems(self.ev(v, meth)))
                    else:
                        self.add(o.elems, self.ev(v, meth))
            else:
                self.bind_generators(e.generators, meth)
                self.add(o.elems, self.ev(e.value, meth))
            return {o}
        if isinstance(e, ast.Tuple):
            out = set()
            for x in e.elts:
                out |= self.ev(x, meth, strict)
            return out
        if isinstance(e, ast.Subscript):
            base = self.ev(e.value, meth)
            if isinstance(e.slice, ast.Slice):
                o = self.fresh(e, 'list', meth)
                self.add(o.elems, self.elems(base))
                return {o}
            return self.elems(base)
        if isinstance(e, ast.BinOp) and isinstance(e.op, (ast.Add, ast.Mult, ast.BitOr)):
            l, r = self.ev(e.left, meth), self.ev(e.right, meth)
            if l or r:
                kinds = {o.kind for o in l | r}
                o = self.fresh(e, 'dict' if kinds == {'dict'} else 'list', meth)
                self.add(o.elems, self.elems(l | r))
                return {o}
            return set()
        if isinstance(e, ast.Call):
            f = e.func
            if isinstance(f, ast.Name):
                if f.id in FRESH_CALLS:
                    kind = FRESH_CALLS[f.id]
                    src = set()
                    for x in e.args:
                        src |= self.iter_elems(x, meth)
                    if kind is None:
                        return set()
                    o = self.fresh(e, kind, meth)
                    if f.id == 'dict':
                        # dict(mapping) / dict(pairs): the new dict holds the *same* value objects
                        for x in e.args:
                            self.add(o.elems, self.elems(self.ev(x, meth)) | self.pair_values(x, meth))
                        for k in e.keywords:
                            self.add(o.elems, self.ev(k.value, meth) if k.arg else self.elems(self.ev(k.value, meth)))
                    else:
                        self.add(o.elems, src)
                    return {o}
                if f.id in IMMUTABLE_CALLS:
                    return set()
            if isinstance(f, ast.Attribute):
                recv = self.ev(f.value, meth)
                if f.attr == 'copy' and not e.args and recv:
                    kinds = {o.kind for o in recv}
                    o = self.fresh(e, kinds.pop() if len(kinds) == 1 else 'list', meth)
                    self.add(o.elems, self.elems(recv))
                    return {o}
                if f.attr in ('copy', 'deepcopy') and isinstance(f.value, ast.Name) and f.value.id == 'copy' and len(e.args) == 1:
                    src = self.ev(e.args[0], meth)
                    if not src:
                        return set()
                    kinds = {o.kind for o in src}
                    o = self.fresh(e, kinds.pop() if len(kinds) == 1 else 'list', meth)
                    if f.attr == 'copy':
                        self.add(o.elems, self.elems(src))
                    else:
                        for i, so in enumerate(sorted(self.elems(src), key=lambda x: x.site)):
                            self.add(o.elems, {self.fresh_child(e, so, meth, i)})
                    return {o}
                if f.attr in ('get', 'pop', 'setdefault') and recv:
                    out = self.elems(recv)
                    for x in e.args[1:]:
                        out |= self.ev(x, meth)
                    return out
                if f.attr in ('join', 'format', 'strip', 'split', 'lower', 'upper', 'replace', 'startswith', 'endswith', 'index', 'count', 'keys'):
                    return set()
                if f.attr in ('values', 'items') and recv:
                    return set()       # view objects; their elements are read through iter_elems / pair_values
            if strict:
                raise Unknown(node_src(e, 70))
            return set()
        if strict and not isinstance(e, (ast.UnaryOp, ast.BinOp, ast.FormattedValue, ast.Attribute)):
            raise Unknown(node_src(e, 70))
        if strict and isinstance(e, ast.Attribute):
            raise Unknown(node_src(e, 70))
        return set()

    def fresh_child(self, node, src_obj, meth, i):
        key = (id(node), src_obj.site)
        o = self.objs.get(key)
        if o is None:
            o = self.objs[key] = Obj(src_obj.kind, '%s:deepcopy-of(%s)' % (meth, src_obj.site), getattr(node, 'lineno', 0))
            self.changed = True
        return o

    def pair_values(self, e, meth):
        """value objects of an iterable of (key, value) pairs: x.items(), zip(k, v), [(k, v) ...]"""
        if isinstance(e, ast.Call) and isinstance(e.func, ast.Attribute) and e.func.attr == 'items':
            return self.elems(self.ev(e.func.value, meth))
        if isinstance(e, ast.Call) and isinstance(e.func, ast.Name) and e.func.id == 'zip' and len(e.args) == 2:
            return self.iter_elems(e.args[1], meth)
        if isinstance(e, (ast.ListComp, ast.GeneratorExp)) and isinstance(e.elt, ast.Tuple) and len(e.elt.elts) == 2:
            self.bind_generators(e.generators, meth)
            return self.ev(e.elt.elts[1], meth)
        return set()

    def iter_elems(self, e, meth):
        """objects yielded when iterating e (single target)"""
        if isinstance(e, ast.Call) and isinstance(e.func, ast.Attribute) and e.func.attr == 'values':
            return self.elems(self.ev(e.func.value, meth))
        if isinstance(e, ast.Call) and isinstance(e.func, ast.Attribute) and e.func.attr in ('items', 'keys'):
            return set()
        if isinstance(e, ast.GeneratorExp):
            self.bind_generators(e.generators, meth)
            return self.ev(e.elt, meth)
        objs = self.ev(e, meth)
        return self.elems({o for o in objs if o.kind != 'dict'})

    def bind_target(self, t, e_iter, meth):
        if isinstance(t, ast.Name):
            self.add(self.locals.setdefault((meth, t.id), set()), self.iter_elems(e_iter, meth))
        elif isinstance(t, (ast.Tuple, ast.List)) and len(t.elts) == 2:
            vals = self.pair_values(e_iter, meth)
            if isinstance(e_iter, ast.Call) and isinstance(e_iter.func, ast.Name) and e_iter.func.id == 'enumerate' and e_iter.args:
                vals = self.iter_elems(e_iter.args[0], meth)
            if isinstance(t.elts[1], ast.Name):
                self.add(self.locals.setdefault((meth, t.elts[1].id), set()), vals)

    def bind_generators(self, gens, meth):
        for g in gens:
            self.bind_target(g.target, g.iter, meth)

    # ------------------------------------------------------------------ statements
    def store(self, target, objs, meth, value_node=None):
        a = self.self_attr(target)
        if a is not None:
            self.add(self.fields.setdefault(a, set()), objs)
        elif isinstance(target, ast.Name):
            self.add(self.locals.setdefault((meth, target.id), set()), objs)
        elif isinstance(target, ast.Subscript) and not isinstance(target.slice, ast.Slice):
            for o in self.ev(target.value, meth):
                self.add(o.elems, objs)
        elif isinstance(target, (ast.Tuple, ast.List)) and value_node is not None and isinstance(value_node, (ast.Tuple, ast.List)) \
                and len(value_node.elts) == len(target.elts):
            for t, v in zip(target.elts, value_node.elts):
                self.store(t, self.ev(v, meth), meth, v)

    def pass_once(self):
        for meth, fn in self.methods.items():
            for n in walk_no_nested(fn):
                if isinstance(n, ast.Assign):
                    self.hint = ''.join(node_src(n.targets[0], 40).split())
                    objs = self.ev(n.value, meth)
                    self.hint = None
                    for t in n.targets:
                        self.store(t, objs, meth, n.value)
                elif isinstance(n, ast.AnnAssign) and n.value is not None:
                    self.store(n.target, self.ev(n.value, meth), meth, n.value)
                elif isinstance(n, ast.NamedExpr):
                    self.store(n.target, self.ev(n.value, meth), meth, n.value)
                elif isinstance(n, (ast.For, ast.AsyncFor)):
                    self.bind_target(n.target, n.iter, meth)
                elif isinstance(n, ast.Call) and isinstance(n.func, ast.Attribute):
                    recv = self.ev(n.func.value, meth)
                    if recv and n.func.attr == 'update' and n.args:
                        for o in recv:
                            self.add(o.elems, self.elems(self.ev(n.args[0], meth)) | self.pair_values(n.args[0], meth))
                    elif recv and n.func.attr == 'setdefault' and len(n.args) == 2:
                        for o in recv:
                            self.add(o.elems, self.ev(n.args[1], meth))
                    elif recv and n.func.attr in ('append', 'add', 'insert') and n.args:
                        for o in recv:
                            self.add(o.elems, self.ev(n.args[-1], meth))
                    elif recv and n.func.attr == 'extend' and n.args:
                        for o in recv:
                            self.add(o.elems, self.iter_elems(n.args[0], meth))

    def solve(self):
        for _ in range(50):
            self.changed = False
            self.pass_once()
            if not self.changed:
                return
        raise AnalysisError('points-to analysis of %s does not converge' % self.clsname)

    # ------------------------------------------------------------------ queries
    def reach(self, field):
        seen, work = set(), list(self.fields.get(field, ()))
        while work:
            o = work.pop()
            if o in seen:
                continue
            seen.add(o)
            work += list(o.elems)
        return seen

    def mutations(self):
        """[(method, description, line, set(Obj))] — in-place changes of container objects"""
        out = []
        for meth, fn in self.methods.items():
            for n in walk_no_nested(fn):
                if isinstance(n, ast.Call) and isinstance(n.func, ast.Attribute):
                    recv = self.ev(n.func.value, meth)
                    hit = {o for o in recv if (o.kind in ('list', 'set') and n.func.attr in MUTATORS_LIST | {'add', 'discard'}) or (o.kind == 'dict' and n.func.attr in MUTATORS_DICT)}
                    if hit:
                        out.append((meth, '%s.%s(...)' % (node_src(n.func.value, 40), n.func.attr), n.lineno, hit))
                elif isinstance(n, (ast.Assign, ast.AugAssign, ast.Delete)):
                    targets = n.targets if isinstance(n, (ast.Assign, ast.Delete)) else [n.target]
                    for t in targets:
                        if isinstance(t, ast.Subscript):
                            hit = self.ev(t.value, meth)
                            if hit:
                                out.append((meth, '%s[...] %s' % (node_src(t.value, 40), 'deleted' if isinstance(n, ast.Delete) else 'stored'), n.lineno, set(hit)))
                        elif isinstance(n, ast.AugAssign):
                            hit = {o for o in self.ev(t, meth) if o.kind in ('list', 'set', 'dict')}
                            if hit:
                                out.append((meth, '%s %s= ...' % (node_src(t, 40), type(n.op).__name__), n.lineno, hit))
        return out

    def check_stores_known(self, fields):
        """every value stored into (an element of) one of `fields` must be understood by ev()"""
        bad = []
        for meth, fn in self.methods.items():
            for n in walk_no_nested(fn):
                if isinstance(n, ast.Assign):
                    for t in n.targets:
                        root = t.value if isinstance(t, ast.Subscript) else t
                        if self.self_attr(root) in fields:
                            try:
                                self.ev(n.value, meth, strict=True)
                            except Unknown as u:
                                bad.append((meth, node_src(t, 40), str(u), n.lineno))
        return bad


def class_methods(cls_node):
    return {n.name: n for n in cls_node.body if isinstance(n, (ast.FunctionDef, ast.AsyncFunctionDef))}


def pool_problems(methods, clsname, taker=None):
    """-> (instances [(key, sample)], problems [(key, line, message)])"""
    pt = PointsTo(methods, clsname)
    pt.solve()
    containers = [f for f, objs in pt.fields.items() if objs]
    bad = pt.check_stores_known(containers)
    if bad:
        m = bad[0]
        raise AnalysisError('%s.%s: the value `%s` stored into %s is not understood by the ownership analysis' % (clsname, m[0], m[2], m[1]))
    muts = pt.mutations()
    mutated = {}
    for meth, desc, line, objs in muts:
        for o in objs:
            mutated.setdefault(o, []).append((meth, desc))
    reach = {f: pt.reach(f) for f in containers}
    insts, probs = [], []
    for o in sorted({o for objs in reach.values() for o in objs}, key=lambda x: x.site):
        owners = sorted(f for f in containers if o in reach[f])
        key = '%s:%s' % (clsname, o.site)
        insts.append((key, '%s (%s) owned by self.%s%s' % (key, o.kind, ' / self.'.join(owners), '; mutated in place' if o in mutated else '')))
        if len(owners) > 1 and o in mutated:
            meth, desc = mutated[o][0]
            probs.append((key, o.line, 'the %s created by `%s` is reachable from both self.%s and is changed in place by `%s` in %s(): a slot appended to / popped from one pool '
                          'silently appears in / vanishes from the other, so two temporaries that are live across one yield can be parked in the same closure field' % (
                              o.kind, o.site.split(':', 1)[1], ' and self.'.join(owners), desc, meth)))
    for meth, desc, line, objs in muts:
        insts.append(('%s.%s:%s' % (clsname, meth, ''.join(desc.split())), 'in-place change %s in %s() of %s' % (desc, meth, sorted(o.site for o in objs))))
    if taker is not None:
        fn = methods.get(taker)
        if fn is None:
            raise AnalysisError('%s.%s vanished' % (clsname, taker))
        n_ret = 0
        for n in walk_no_nested(fn):
            if isinstance(n, ast.Return) and n.value is not None:
                v = n.value
                key = '%s.%s:return:%s' % (clsname, taker, ''.join(node_src(v, 50).split()))
                if isinstance(v, ast.Subscript) and not isinstance(v.slice, ast.Slice) and any(o.kind == 'list' for o in pt.ev(v.value, taker)):
                    n_ret += 1
                    insts.append((key, key))
                    probs.append((key, n.lineno, '%s() returns `%s`, an element read out of a pool list without removing it: the next request at the same yield point gets the same '
                                  'closure field and two live temporaries overwrite each other' % (taker, node_src(v, 50))))
                elif isinstance(v, ast.Call) and isinstance(v.func, ast.Attribute) and any(o.kind == 'list' for o in pt.ev(v.func.value, taker)):
                    n_ret += 1
                    insts.append((key, key))
                    if v.func.attr != 'pop':
                        probs.append((key, n.lineno, '%s() returns `%s` from a pool list; only .pop(...) both yields and removes the slot' % (taker, node_src(v, 50))))
        if not n_ret:
            raise AnalysisError('%s.%s no longer returns a slot taken out of a pool list' % (clsname, taker))
    return insts, probs


CONTROL = '''
class A:
    def __init__(self):
        self.used = {}
        self.free = {}
    def reset(self):
        self.free = dict(self.used)
    def take(self, t):
        if t not in self.used:
            self.used[t] = []
            self.free[t] = []
        elif self.free[t]:
            return self.free[t].pop(0)
        name = 'n%d' % len(self.used[t])
        self.used[t].append(name)
        return name
'''


def rule_slots(ctx, floor=9):
    r = Rule('C23-SLOT', 'ClosureTempAllocator (closure fields that hold live temporaries across a yield): no list/dict that is mutated in place is reachable from more than one '
             'pool attribute (a shallow copy of a dict of lists shares the lists), and a slot returned out of a pool list is removed from it', floor)
    ix = ctx.index
    c = ix.cls('Code', 'ClosureTempAllocator')
    if c is None:
        raise AnalysisError('Code.ClosureTempAllocator vanished')
    methods = dict(c.methods)
    # the method that hands out slots: the one YieldExprNode calls once per live temporary
    taker = 'allocate_temp'
    insts, probs = pool_problems(methods, 'Code.ClosureTempAllocator', taker)
    for k, sample in insts:
        r.inst(k, sample=sample)
    for k, line, msg in probs:
        r.violate(k, c.module.rel, line, msg)
    tree = ast.parse(CONTROL)
    _, ctl = pool_problems(class_methods(tree.body[0]), 'A', 'take')
    r.positive_control(any('reachable from both self.free and self.used' in m for _, _, m in ctl), 'free = dict(used): shallow copy shares the per-type lists')
    return r
