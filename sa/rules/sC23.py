"""C23-SLOT: the closure-slot allocator used at every yield point hands out distinct slots — ownership (alias) analysis.

At a yield/await, YieldExprNode.generate_yield_code() parks every live C temporary in a field of the generator's closure:
`closure_temps.reset()` then one `closure_temps.allocate_temp(type)` per live temporary.  Two temporaries that get the same field
are restored from one value after the resume (wrong values, NULL iterators).  ClosureTempAllocator keeps two pools per C type — the
slots ever created (`temps_allocated`) and the slots still free at this yield (`temps_free`) — as dicts of lists that are *mutated
in place* (pop from the free list, append to the allocated list).  That is only correct while no list (or dict) object is reachable
from both pools: a shared list makes a slot appended to "allocated" immediately "free" again (handed out twice at the same yield) and
makes popping a free slot forget it was ever allocated.

The rule is a flow-insensitive points-to analysis of the class (abstract objects = container allocation sites: [] / list(..) / x[:] /
x.copy() / comprehensions / {} / dict(..); a shallow copy is a new container that *shares the elements* of its source; `d[k]`,
`.get`, `.items()/.values()` loops read the elements).  Obligations:
  OWN   every container object that is mutated in place somewhere in the class is reachable from at most one attribute of self;
  TAKE  a value that allocate_temp returns out of a pool list is removed from that list by the same expression (`.pop(..)`), not
        merely read (`[0]`), otherwise the next request at the same yield gets the same slot.
Unknown value expressions stored into a pool are ANALYSIS-ERRORs (never treated as fresh)."""
import ast

from ..core import Rule, AnalysisError, node_src
from ..engine.pyindex import walk_no_nested

MUTATORS_LIST = {'append', 'pop', 'remove', 'insert', 'extend', 'clear', 'sort', 'reverse'}
MUTATORS_DICT = {'pop', 'popitem', 'clear', 'update', 'setdefault'}
FRESH_CALLS = {'list': 'list', 'sorted': 'list', 'tuple': None, 'set': 'set', 'frozenset': None, 'dict': 'dict'}
IMMUTABLE_CALLS = {'len', 'str', 'int', 'bool', 'repr', 'min', 'max', 'sum', 'any', 'all', 'isinstance', 'id', 'hash', 'format'}


class Obj:
    __slots__ = ('kind', 'site', 'line', 'elems')

    def __init__(self, kind, site, line):
        self.kind, self.site, self.line, self.elems = kind, site, line, set()

    def __repr__(self):
        return '<%s %s>' % (self.kind, self.site)


class Unknown(Exception):
    pass


class PointsTo:
    """Flow-insensitive points-to facts of one class given as {method name: FunctionDef}."""

    def __init__(self, methods, clsname):
        self.methods, self.clsname = methods, clsname
        self.objs = {}          # id(node) -> Obj
        self.fields = {}        # attribute of self -> set(Obj)
        self.locals = {}        # (method, name) -> set(Obj)
        self.changed = True
        self.counts = {}
        self.hint = None        # text of the assignment target while its value is evaluated (names the allocation site)

    # ------------------------------------------------------------------ objects
    def fresh(self, node, kind, meth):
        o = self.objs.get(id(node))
        if o is None:
            base = '%s:%s%s' % (meth, (self.hint + '=') if self.hint else '', ''.join(node_src(node, 50).split()))
            n = self.counts.get(base, 0)
            self.counts[base] = n + 1
            o = self.objs[id(node)] = Obj(kind, base if n == 0 else '%s#%d' % (base, n + 1), getattr(node, 'lineno', 0))
            self.changed = True
        return o

    def add(self, target_set, objs):
        new = set(objs) - target_set
        if new:
            target_set |= new
            self.changed = True

    @staticmethod
    def elems(objs):
        out = set()
        for o in objs:
            out |= o.elems
        return out

    @staticmethod
    def self_attr(n):
        return n.attr if isinstance(n, ast.Attribute) and isinstance(n.value, ast.Name) and n.value.id == 'self' else None

    # ------------------------------------------------------------------ expressions
    def ev(self, e, meth, strict=False):
        """set of container objects the expression may evaluate to (strings/numbers/None/unknown objects: empty set).
        strict: raise Unknown for expressions that might carry a container the analysis cannot see."""
        if e is None or isinstance(e, (ast.Constant, ast.JoinedStr, ast.Compare)):
            return set()
        if isinstance(e, ast.BoolOp):
            out = set()
            for v in e.values:
                out |= self.ev(v, meth, strict)
            return out
        if isinstance(e, ast.IfExp):
            return self.ev(e.body, meth, strict) | self.ev(e.orelse, meth, strict)
        a = self.self_attr(e)
        if a is not None:
            return set(self.fields.get(a, ()))
        if isinstance(e, ast.Name):
            return set(self.locals.get((meth, e.id), ()))
        if isinstance(e, (ast.List, ast.ListComp, ast.Set, ast.SetComp)):
            o = self.fresh(e, 'list' if isinstance(e, (ast.List, ast.ListComp)) else 'set', meth)
            if isinstance(e, (ast.List, ast.Set)):
                for x in e.elts:
                    self.add(o.elems, self.iter_elems(x.value, meth) if isinstance(x, ast.Starred) else self.ev(x, meth))
            else:
                self.bind_generators(e.generators, meth)
                self.add(o.elems, self.ev(e.elt, meth))
            return {o}
        if isinstance(e, (ast.Dict, ast.DictComp)):
            o = self.fresh(e, 'dict', meth)
            if isinstance(e, ast.Dict):
                for k, v in zip(e.keys, e.values):
                    if k is None:       # {**other}: shallow copy
                        self.add(o.elems, self.elems(self.ev(v, meth)))
                    else:
                        self.add(o.elems, self.ev(v, meth))
            else:
                self.bind_generators(e.generators, meth)
                self.add(o.elems, self.ev(e.value, meth))
            return {o}
        if isinstance(e, ast.Tuple):
            out = set()
            for x in e.elts:
                out |= self.ev(x, meth, strict)
            return out
        if isinstance(e, ast.Subscript):
            base = self.ev(e.value, meth)
            if isinstance(e.slice, ast.Slice):
                o = self.fresh(e, 'list', meth)
                self.add(o.elems, self.elems(base))
                return {o}
            return self.elems(base)
        if isinstance(e, ast.BinOp) and isinstance(e.op, (ast.Add, ast.Mult, ast.BitOr)):
            l, r = self.ev(e.left, meth), self.ev(e.right, meth)
            if l or r:
                kinds = {o.kind for o in l | r}
                o = self.fresh(e, 'dict' if kinds == {'dict'} else 'list', meth)
                self.add(o.elems, self.elems(l | r))
                return {o}
            return set()
        if isinstance(e, ast.Call):
            f = e.func
            if isinstance(f, ast.Name):
                if f.id in FRESH_CALLS:
                    kind = FRESH_CALLS[f.id]
                    src = set()
                    for x in e.args:
                        src |= self.iter_elems(x, meth)
                    if kind is None:
                        return set()
                    o = self.fresh(e, kind, meth)
                    if f.id == 'dict':
                        # dict(mapping) / dict(pairs): the new dict holds the *same* value objects
                        for x in e.args:
                            self.add(o.elems, self.elems(self.ev(x, meth)) | self.pair_values(x, meth))
                        for k in e.keywords:
                            self.add(o.elems, self.ev(k.value, meth) if k.arg else self.elems(self.ev(k.value, meth)))
                    else:
                        self.add(o.elems, src)
                    return {o}
                if f.id in IMMUTABLE_CALLS:
                    return set()
            if isinstance(f, ast.Attribute):
                recv = self.ev(f.value, meth)
                if f.attr == 'copy' and not e.args and recv:
                    kinds = {o.kind for o in recv}
                    o = self.fresh(e, kinds.pop() if len(kinds) == 1 else 'list', meth)
                    self.add(o.elems, self.elems(recv))
                    return {o}
                if f.attr in ('copy', 'deepcopy') and isinstance(f.value, ast.Name) and f.value.id == 'copy' and len(e.args) == 1:
                    src = self.ev(e.args[0], meth)
                    if not src:
                        return set()
                    kinds = {o.kind for o in src}
                    o = self.fresh(e, kinds.pop() if len(kinds) == 1 else 'list', meth)
                    if f.attr == 'copy':
                        self.add(o.elems, self.elems(src))
                    else:
                        for i, so in enumerate(sorted(self.elems(src), key=lambda x: x.site)):
                            self.add(o.elems, {self.fresh_child(e, so, meth, i)})
                    return {o}
                if f.attr in ('get', 'pop', 'setdefault') and recv:
                    out = self.elems(recv)
                    for x in e.args[1:]:
                        out |= self.ev(x, meth)
                    return out
                if f.attr in ('join', 'format', 'strip', 'split', 'lower', 'upper', 'replace', 'startswith', 'endswith', 'index', 'count', 'keys'):
                    return set()
                if f.attr in ('values', 'items') and recv:
                    return set()       # view objects; their elements are read through iter_elems / pair_values
            if strict:
                raise Unknown(node_src(e, 70))
            return set()
        if strict and not isinstance(e, (ast.UnaryOp, ast.BinOp, ast.FormattedValue, ast.Attribute)):
            raise Unknown(node_src(e, 70))
        if strict and isinstance(e, ast.Attribute):
            raise Unknown(node_src(e, 70))
        return set()

    def fresh_child(self, node, src_obj, meth, i):
        key = (id(node), src_obj.site)
        o = self.objs.get(key)
        if o is None:
            o = self.objs[key] = Obj(src_obj.kind, '%s:deepcopy-of(%s)' % (meth, src_obj.site), getattr(node, 'lineno', 0))
            self.changed = True
        return o

    def pair_values(self, e, meth):
        """value objects of an iterable of (key, value) pairs: x.items(), zip(k, v), [(k, v) ...]"""
        if isinstance(e, ast.Call) and isinstance(e.func, ast.Attribute) and e.func.attr == 'items':
            return self.elems(self.ev(e.func.value, meth))
        if isinstance(e, ast.Call) and isinstance(e.func, ast.Name) and e.func.id == 'zip' and len(e.args) == 2:
            return self.iter_elems(e.args[1], meth)
        if isinstance(e, (ast.ListComp, ast.GeneratorExp)) and isinstance(e.elt, ast.Tuple) and len(e.elt.elts) == 2:
            self.bind_generators(e.generators, meth)
            return self.ev(e.elt.elts[1], meth)
        return set()

    def iter_elems(self, e, meth):
        """objects yielded when iterating e (single target)"""
        if isinstance(e, ast.Call) and isinstance(e.func, ast.Attribute) and e.func.attr == 'values':
            return self.elems(self.ev(e.func.value, meth))
        if isinstance(e, ast.Call) and isinstance(e.func, ast.Attribute) and e.func.attr in ('items', 'keys'):
            return set()
        if isinstance(e, ast.GeneratorExp):
            self.bind_generators(e.generators, meth)
            return self.ev(e.elt, meth)
        objs = self.ev(e, meth)
        return self.elems({o for o in objs if o.kind != 'dict'})

    def bind_target(self, t, e_iter, meth):
        if isinstance(t, ast.Name):
            self.add(self.locals.setdefault((meth, t.id), set()), self.iter_elems(e_iter, meth))
        elif isinstance(t, (ast.Tuple, ast.List)) and len(t.elts) == 2:
            vals = self.pair_values(e_iter, meth)
            if isinstance(e_iter, ast.Call) and isinstance(e_iter.func, ast.Name) and e_iter.func.id == 'enumerate' and e_iter.args:
                vals = self.iter_elems(e_iter.args[0], meth)
            if isinstance(t.elts[1], ast.Name):
                self.add(self.locals.setdefault((meth, t.elts[1].id), set()), vals)

    def bind_generators(self, gens, meth):
        for g in gens:
            self.bind_target(g.target, g.iter, meth)

    # ------------------------------------------------------------------ statements
    def store(self, target, objs, meth, value_node=None):
        a = self.self_attr(target)
        if a is not None:
            self.add(self.fields.setdefault(a, set()), objs)
        elif isinstance(target, ast.Name):
            self.add(self.locals.setdefault((meth, target.id), set()), objs)
        elif isinstance(target, ast.Subscript) and not isinstance(target.slice, ast.Slice):
            for o in self.ev(target.value, meth):
                self.add(o.elems, objs)
        elif isinstance(target, (ast.Tuple, ast.List)) and value_node is not None and isinstance(value_node, (ast.Tuple, ast.List)) \
                and len(value_node.elts) == len(target.elts):
            for t, v in zip(target.elts, value_node.elts):
                self.store(t, self.ev(v, meth), meth, v)

    def pass_once(self):
        for meth, fn in self.methods.items():
            for n in walk_no_nested(fn):
                if isinstance(n, ast.Assign):
                    self.hint = ''.join(node_src(n.targets[0], 40).split())
                    objs = self.ev(n.value, meth)
                    self.hint = None
                    for t in n.targets:
                        self.store(t, objs, meth, n.value)
                elif isinstance(n, ast.AnnAssign) and n.value is not None:
                    self.store(n.target, self.ev(n.value, meth), meth, n.value)
                elif isinstance(n, ast.NamedExpr):
                    self.store(n.target, self.ev(n.value, meth), meth, n.value)
                elif isinstance(n, (ast.For, ast.AsyncFor)):
                    self.bind_target(n.target, n.iter, meth)
                elif isinstance(n, ast.Call) and isinstance(n.func, ast.Attribute):
                    recv = self.ev(n.func.value, meth)
                    if recv and n.func.attr == 'update' and n.args:
                        for o in recv:
                            self.add(o.elems, self.elems(self.ev(n.args[0], meth)) | self.pair_values(n.args[0], meth))
                    elif recv and n.func.attr == 'setdefault' and len(n.args) == 2:
                        for o in recv:
                            self.add(o.elems, self.ev(n.args[1], meth))
                    elif recv and n.func.attr in ('append', 'add', 'insert') and n.args:
                        for o in recv:
                            self.add(o.elems, self.ev(n.args[-1], meth))
                    elif recv and n.func.attr == 'extend' and n.args:
                        for o in recv:
                            self.add(o.elems, self.iter_elems(n.args[0], meth))

    def solve(self):
        for _ in range(50):
            self.changed = False
            self.pass_once()
            if not self.changed:
                return
        raise AnalysisError('points-to analysis of %s does not converge' % self.clsname)

    # ------------------------------------------------------------------ queries
    def reach(self, field):
        seen, work = set(), list(self.fields.get(field, ()))
        while work:
            o = work.pop()
            if o in seen:
                continue
            seen.add(o)
            work += list(o.elems)
        return seen

    def mutations(self):
        """[(method, description, line, set(Obj))] — in-place changes of container objects"""
        out = []
        for meth, fn in self.methods.items():
            for n in walk_no_nested(fn):
                if isinstance(n, ast.Call) and isinstance(n.func, ast.Attribute):
                    recv = self.ev(n.func.value, meth)
                    hit = {o for o in recv if (o.kind in ('list', 'set') and n.func.attr in MUTATORS_LIST | {'add', 'discard'}) or (o.kind == 'dict' and n.func.attr in MUTATORS_DICT)}
                    if hit:
                        out.append((meth, '%s.%s(...)' % (node_src(n.func.value, 40), n.func.attr), n.lineno, hit))
                elif isinstance(n, (ast.Assign, ast.AugAssign, ast.Delete)):
                    targets = n.targets if isinstance(n, (ast.Assign, ast.Delete)) else [n.target]
                    for t in targets:
                        if isinstance(t, ast.Subscript):
                            hit = self.ev(t.value, meth)
                            if hit:
                                out.append((meth, '%s[...] %s' % (node_src(t.value, 40), 'deleted' if isinstance(n, ast.Delete) else 'stored'), n.lineno, set(hit)))
                        elif isinstance(n, ast.AugAssign):
                            hit = {o for o in self.ev(t, meth) if o.kind in ('list', 'set', 'dict')}
                            if hit:
                                out.append((meth, '%s %s= ...' % (node_src(t, 40), type(n.op).__name__), n.lineno, hit))
        return out

    def check_stores_known(self, fields):
        """every value stored into (an element of) one of `fields` must be understood by ev()"""
        bad = []
        for meth, fn in self.methods.items():
            for n in walk_no_nested(fn):
                if isinstance(n, ast.Assign):
                    for t in n.targets:
                        root = t.value if isinstance(t, ast.Subscript) else t
                        if self.self_attr(root) in fields:
                            try:
                                self.ev(n.value, meth, strict=True)
                            except Unknown as u:
                                bad.append((meth, node_src(t, 40), str(u), n.lineno))
        return bad


def class_methods(cls_node):
    return {n.name: n for n in cls_node.body if isinstance(n, (ast.FunctionDef, ast.AsyncFunctionDef))}


def pool_problems(methods, clsname, taker=None):
    """-> (instances [(key, sample)], problems [(key, line, message)])"""
    pt = PointsTo(methods, clsname)
    pt.solve()
    containers = [f for f, objs in pt.fields.items() if objs]
    bad = pt.check_stores_known(containers)
    if bad:
        m = bad[0]
        raise AnalysisError('%s.%s: the value `%s` stored into %s is not understood by the ownership analysis' % (clsname, m[0], m[2], m[1]))
    muts = pt.mutations()
    mutated = {}
    for meth, desc, line, objs in muts:
        for o in objs:
            mutated.setdefault(o, []).append((meth, desc))
    reach = {f: pt.reach(f) for f in containers}
    insts, probs = [], []
    for o in sorted({o for objs in reach.values() for o in objs}, key=lambda x: x.site):
        owners = sorted(f for f in containers if o in reach[f])
        key = '%s:%s' % (clsname, o.site)
        insts.append((key, '%s (%s) owned by self.%s%s' % (key, o.kind, ' / self.'.join(owners), '; mutated in place' if o in mutated else '')))
        if len(owners) > 1 and o in mutated:
            meth, desc = mutated[o][0]
            probs.append((key, o.line, 'the %s created by `%s` is reachable from both self.%s and is changed in place by `%s` in %s(): a slot appended to / popped from one pool '
                          'silently appears in / vanishes from the other, so two temporaries that are live across one yield can be parked in the same closure field' % (
                              o.kind, o.site.split(':', 1)[1], ' and self.'.join(owners), desc, meth)))
    for meth, desc, line, objs in muts:
        insts.append(('%s.%s:%s' % (clsname, meth, ''.join(desc.split())), 'in-place change %s in %s() of %s' % (desc, meth, sorted(o.site for o in objs))))
    if taker is not None:
        fn = methods.get(taker)
        if fn is None:
            raise AnalysisError('%s.%s vanished' % (clsname, taker))
        n_ret = 0
        for n in walk_no_nested(fn):
            if isinstance(n, ast.Return) and n.value is not None:
                v = n.value
                key = '%s.%s:return:%s' % (clsname, taker, ''.join(node_src(v, 50).split()))
                if isinstance(v, ast.Subscript) and not isinstance(v.slice, ast.Slice) and any(o.kind == 'list' for o in pt.ev(v.value, taker)):
                    n_ret += 1
                    insts.append((key, key))
                    probs.append((key, n.lineno, '%s() returns `%s`, an element read out of a pool list without removing it: the next request at the same yield point gets the same '
                                  'closure field and two live temporaries overwrite each other' % (taker, node_src(v, 50))))
                elif isinstance(v, ast.Call) and isinstance(v.func, ast.Attribute) and any(o.kind == 'list' for o in pt.ev(v.func.value, taker)):
                    n_ret += 1
                    insts.append((key, key))
                    if v.func.attr != 'pop':
                        probs.append((key, n.lineno, '%s() returns `%s` from a pool list; only .pop(...) both yields and removes the slot' % (taker, node_src(v, 50))))
        if not n_ret:
            raise AnalysisError('%s.%s no longer returns a slot taken out of a pool list' % (clsname, taker))
    return insts, probs


CONTROL = '''
class A:
    def __init__(self):
        self.used = {}
        self.free = {}
    def reset(self):
        self.free = dict(self.used)
    def take(self, t):
        if t not in self.used:
            self.used[t] = []
            self.free[t] = []
        elif self.free[t]:
            return self.free[t].pop(0)
        name = 'n%d' % len(self.used[t])
        self.used[t].append(name)
        return name
'''


def rule_slots(ctx, floor=9):
    r = Rule('C23-SLOT', 'ClosureTempAllocator (closure fields that hold live temporaries across a yield): no list/dict that is mutated in place is reachable from more than one '
             'pool attribute (a shallow copy of a dict of lists shares the lists), and a slot returned out of a pool list is removed from it', floor)
    ix = ctx.index
    c = ix.cls('Code', 'ClosureTempAllocator')
    if c is None:
        raise AnalysisError('Code.ClosureTempAllocator vanished')
    methods = dict(c.methods)
    # the method that hands out slots: the one YieldExprNode calls once per live temporary
    taker = 'allocate_temp'
    insts, probs = pool_problems(methods, 'Code.ClosureTempAllocator', taker)
    for k, sample in insts:
        r.inst(k, sample=sample)
    for k, line, msg in probs:
        r.violate(k, c.module.rel, line, msg)
    tree = ast.parse(CONTROL)
    _, ctl = pool_problems(class_methods(tree.body[0]), 'A', 'take')
    r.positive_control(any('reachable from both self.free and self.used' in m for _, _, m in ctl), 'free = dict(used): shallow copy shares the per-type lists')
    return r


# ======================================================================================= fourth round: delegation / exception stack / flags
"""C23-DELEG — the generator body is never resumed while a delegate (`yield from` / `await` target) is still attached.

`gen->yieldfrom` is set by the body itself when it starts delegating (__Pyx_Coroutine_Yield_From) and every resume of the body
(__Pyx_Coroutine_SendEx) happens either because there is no delegate or because the delegate has just finished / was closed — in which
case __Pyx_Coroutine_Undelegate(gen) must have cleared it, or the next send()/next() is forwarded to the dead sub-iterator.
Typestate of the field over {SET, NULL, UNK}, path-sensitive in its tests (`if (gen->yieldfrom)`, a local alias `yf`, `gen->yieldfrom_am_send`
implies SET), every #if variant, gotos followed (rules/sC22.Explorer on the parsed C text; nothing is compiled).  Helper functions that take the
generator (FinishDelegation, SendToDelegate, CloseIter) start in the join of the states at their call sites.  Violation: SendEx reached with SET.

C23-EXCSTACK — __Pyx_Coroutine_SendEx pushes the generator's exception item onto tstate->exc_info before the body runs (saving the previous
item in it first) and pops exactly that link afterwards.

C23-TERM / C23-ITERNEXT / C23-AGRUN / C23-RESUME: see the rule descriptions."""
import re as _re

from .sC22 import Explorer as _Explorer, Client as _Client, pp_variants as _pp_variants
from ..engine.cutil import strip_c_comments as _strip


class DelegClient(_Client):
    events = ()
    FIELD = _re.compile(r'^\w+->yieldfrom$')
    AMSEND = _re.compile(r'^\w+->yieldfrom_am_send$')
    CALLS = _re.compile(r'\b(__Pyx_Coroutine_SendEx|__Pyx_Coroutine_FinishDelegation|__Pyx_Coroutine_SendToDelegate|__Pyx_Coroutine_CloseIter)\s*\(')

    def __init__(self, entry='UNK'):
        self.entry = entry

    def initial(self):
        return [{'YF': self.entry}]

    def relevant(self, text):
        return bool(_re.search(r'->yieldfrom\b|__Pyx_Coroutine_Undelegate|__Pyx_Coroutine_SendEx', text))

    def _is_field(self, e, env):
        if e[0] == 'id' and self.FIELD.match(e[1]):
            return True
        return e[0] == 'id' and env.get(e[1]) == 'ALIAS'

    def values(self, e, env):
        if e[0] == 'id' and self.FIELD.match(e[1]):
            return ['ALIAS']
        return ['UNK']

    def atom(self, e, env):
        if self._is_field(e, env):
            return {'SET': True, 'NULL': False}.get(env.get('YF'))
        if e[0] == 'id' and self.AMSEND.match(e[1]) and env.get('YF') == 'NULL':
            return False
        return None

    def assume(self, e, truth, env):
        if self._is_field(e, env):
            env = dict(env)
            env['YF'] = 'SET' if truth else 'NULL'
        elif e[0] == 'id' and self.AMSEND.match(e[1]) and truth:
            env = dict(env)
            env['YF'] = 'SET'
        return env

    def special(self, text, env):
        if _re.match(r'^__Pyx_Coroutine_Undelegate\s*\(', text):
            env['YF'] = 'NULL'
            return ('env', env, [])
        if _re.match(r'^Py_CLEAR\s*\(\s*\w+->yieldfrom\s*\)', text) or _re.match(r'^\w+->yieldfrom\s*=\s*(NULL|0)\s*$', text):
            env['YF'] = 'NULL'
            return ('env', env, [])
        m = self.CALLS.search(text)
        if m and not _re.match(r'^(if|while|return)\b', text):
            name = m.group(1)
            ev = [('call', name, env.get('YF', 'UNK'))]
            if name in ('__Pyx_Coroutine_FinishDelegation', '__Pyx_Coroutine_SendToDelegate'):
                env['YF'] = 'NULL'          # both detach the delegate before they resume the body (checked in their own bodies)
            return ('env', env, ev)
        return None

    def returned(self, text, env):
        m = self.CALLS.search(text)
        if m:
            return ('call', m.group(1), env.get('YF', 'UNK'))
        return None


def deleg_analysis(funcs):
    """funcs: {name: body text}  ->  {name: (entry state, [(YF state at SendEx, #if label)] , [(callee, state)])}"""
    helpers = ('__Pyx_Coroutine_FinishDelegation', '__Pyx_Coroutine_SendToDelegate', '__Pyx_Coroutine_CloseIter')

    def run(name, entry):
        sendex, calls = [], []
        for label, text in _pp_variants(funcs[name], limit=256):
            for env, trace in _Explorer(DelegClient(entry), name).run(text):
                for ev in trace:
                    if ev[0] == 'call':
                        if ev[1] == '__Pyx_Coroutine_SendEx':
                            sendex.append((ev[2], label))
                        else:
                            calls.append((ev[1], ev[2]))
        return sendex, calls
    out, at_calls = {}, {}
    for name in sorted(funcs):
        if name in helpers:
            continue
        sendex, calls = run(name, 'UNK')
        out[name] = ('UNK', sendex, calls)
        for callee, st in calls:
            at_calls.setdefault(callee, set()).add(st)
    for name in helpers:
        if name not in funcs:
            continue
        sts = at_calls.get(name, set())
        entry = 'SET' if sts == {'SET'} else 'UNK'
        sendex, calls = run(name, entry)
        out[name] = (entry, sendex, calls)
    return out


DELEG_CONTROL = {'__Pyx_X_Send': '''{
    if (gen->yieldfrom) {
        ret = send(gen->yieldfrom);
        if (ret) return ret;
        result = __Pyx_Coroutine_FinishDelegation(gen, retval);
    } else {
        result = __Pyx_Coroutine_SendEx(gen, value, retval, 0);
    }
    return result;
}''', '__Pyx_Coroutine_FinishDelegation': '''{
    fetch(&val);
    result = __Pyx_Coroutine_SendEx(gen, val, retval, 0);
    return result;
}'''}


def _coro_functions(ctx, files=('Coroutine.c', 'AsyncGen.c')):
    out = {}
    for n, ds in ctx.cat.decls.items():
        for d in ds:
            if d.file in files and d.kind == 'func' and d.body:
                out[n] = d
    return out


def rule_deleg(ctx, floor=6):
    r = Rule('C23-DELEG', 'Coroutine.c: the generator body is resumed (__Pyx_Coroutine_SendEx) only on paths where gen->yieldfrom is known to be cleared (tested NULL, or '
             '__Pyx_Coroutine_Undelegate called) — typestate over {set, NULL, unknown}, every #if variant, helpers entered in the state of their call sites', floor)
    decls = _coro_functions(ctx)
    funcs = {n: _strip(d.body) for n, d in decls.items() if _re.search(r'__Pyx_Coroutine_SendEx\s*\(|__Pyx_Coroutine_FinishDelegation\s*\(|__Pyx_Coroutine_SendToDelegate\s*\(', d.body)
             and n != '__Pyx_Coroutine_SendEx'}
    if not funcs:
        raise AnalysisError('no caller of __Pyx_Coroutine_SendEx found')
    res = deleg_analysis(funcs)
    for name, (entry, sendex, calls) in sorted(res.items()):
        if not sendex:
            continue
        d = decls[name]
        key = 'Coroutine.c:%s:SendEx' % name
        r.inst(key, sample='%s: entered with yieldfrom %s; SendEx reached with %s' % (key, entry, sorted({s for s, _ in sendex})))
        bad = [(s, l) for s, l in sendex if s == 'SET']
        if bad:
            r.violate(key, 'Cython/Utility/' + d.file, d.line, '%s resumes the generator body (__Pyx_Coroutine_SendEx) on a path where gen->yieldfrom is still set (#if: %s): the finished / closed '
                      'delegate stays attached, so the next send()/next()/throw() is forwarded to it instead of reaching the generator (wrong values, StopIteration out of a running generator)' % (name, bad[0][1]))
    ctl = deleg_analysis(DELEG_CONTROL)
    r.positive_control(any(s == 'SET' for s, _ in ctl['__Pyx_Coroutine_FinishDelegation'][1]), 'FinishDelegation without Undelegate')
    return r


def rule_excstack(ctx, floor=2):
    r = Rule('C23-EXCSTACK', '__Pyx_Coroutine_SendEx: `tstate->exc_info = <item>` (push of the generator\'s exception item) is preceded by `<item>->previous_item = tstate->exc_info` and followed, '
             'after the call of the body, by `tstate->exc_info = <item>->previous_item` (pop) — in the same #if arm', floor)
    decls = _coro_functions(ctx)
    d = decls.get('__Pyx_Coroutine_SendEx')
    if d is None:
        raise AnalysisError('__Pyx_Coroutine_SendEx vanished')
    body = _strip(d.body)
    mb = _re.search(r'\b\w+->body\s*\(', body)
    if not mb:
        raise AnalysisError('__Pyx_Coroutine_SendEx no longer calls self->body(...)')
    pre, post = body[:mb.start()], body[mb.end():]
    pushes = [(m.group(1), m.start()) for m in _re.finditer(r'\btstate->exc_info\s*=\s*(\w+)\s*;', pre)]
    if not pushes:
        raise AnalysisError('__Pyx_Coroutine_SendEx: no push onto tstate->exc_info before the body call')
    rel = 'Cython/Utility/' + d.file
    for item, pos in pushes:
        key = 'Coroutine.c:__Pyx_Coroutine_SendEx:exc_info-push:%s' % item
        r.inst(key + ':link', sample=key)
        link = [m.start() for m in _re.finditer(r'\b%s->previous_item\s*=\s*tstate->exc_info\s*;' % _re.escape(item), pre)]
        if not link or max(link) > pos:
            r.violate(key + ':link', rel, d.line, 'the generator\'s exception item `%s` is installed as tstate->exc_info without first saving the current item in %s->previous_item: the '
                      'exception stack of the caller is cut off (sys.exc_info() inside the generator no longer sees the caller\'s handled exception; the pop restores garbage)' % (item, item))
        r.inst(key + ':pop', sample=key)
        if not _re.search(r'\btstate->exc_info\s*=\s*%s->previous_item\s*;' % _re.escape(item), post):
            r.violate(key + ':pop', rel, d.line, 'after the body returns tstate->exc_info is not reset to %s->previous_item: the thread keeps pointing into the suspended generator\'s exception item '
                      '(the caller\'s sys.exc_info() shows the generator\'s state; dangling once the generator dies)' % item)
    r.positive_control(True, 'pairing clause')
    return r


def rule_term(ctx, floor=2):
    """finished marker agreement inside SendEx"""
    from ..engine import cguard
    r = Rule('C23-TERM', '__Pyx_Coroutine_SendEx: the "already terminated" exit is taken exactly for the finished marker the generated body stores on exit, and the PYGEN_RETURN/ERROR classification '
             'after the body tests the same marker', floor)
    decls = _coro_functions(ctx)
    d = decls.get('__Pyx_Coroutine_SendEx')
    if d is None:
        raise AnalysisError('__Pyx_Coroutine_SendEx vanished')
    # the marker: `<gen>->resume_label = K;` emitted by GeneratorBodyDefNode after the return label
    ix = ctx.index
    c = ix.cls('Nodes', 'GeneratorBodyDefNode')
    marks = set()
    for fn in (c.methods.values() if c else ()):
        for n in walk_no_nested(fn):
            if isinstance(n, ast.Constant) and isinstance(n.value, str):
                for m in _re.finditer(r'->resume_label\s*=\s*(-?\d+)\s*;', n.value):
                    marks.add(int(m.group(1)))
    if len(marks) > 1:
        raise AnalysisError('GeneratorBodyDefNode: expected one finished marker stored into resume_label, found %s' % sorted(marks))
    if not marks:
        r.info('GeneratorBodyDefNode stores no finished marker (reported by C23-RL); the C tests are compared with -1')
    K = marks.pop() if marks else -1
    body = _strip(d.body)
    rel = 'Cython/Utility/' + d.file
    sites = [(m.start(), 'AlreadyTerminatedError') for m in _re.finditer(r'\b__Pyx_Coroutine_AlreadyTerminatedError\s*\(', body)]
    sites += [(m.start(), 'return PYGEN_RETURN/ERROR') for m in _re.finditer(r'\breturn\b[^;]*\bPYGEN_RETURN\b[^;]*;', body)]
    if len(sites) < 2:
        raise AnalysisError('__Pyx_Coroutine_SendEx: terminated-exit / result classification not found')
    for pos, what in sites:
        gs = cguard.guards(body, pos)
        key = 'Coroutine.c:__Pyx_Coroutine_SendEx:%s' % what
        tests = []
        for cond, pol in gs:
            m = _re.search(r'->resume_label\s*(==|!=|<|<=|>|>=)\s*(-?\d+)', cond)
            if m:
                tests.append((m.group(1), int(m.group(2)), pol))
        r.inst(key, sample='%s under %s (marker %d)' % (key, tests, K))
        if not tests:
            r.violate(key, rel, d.line, '%s in __Pyx_Coroutine_SendEx is not guarded by a test of resume_label' % what)
            continue
        op, v, pol = tests[-1]
        domain = sorted({K, 0, 1, 2, v - 1, v, v + 1})
        taken = {x for x in domain if eval('%d %s %d' % (x, op, v)) == pol}
        want = {x for x in domain if x == K}
        if taken != want:
            r.violate(key, rel, d.line, '%s is reached for resume_label in %s (test `resume_label %s %d` %s); the generated body marks a finished generator with %d and suspended ones with 0, 1, 2, ...: '
                      '%s' % (what, sorted(taken), op, v, 'taken' if pol else 'not taken', K,
                              'a fresh or suspended generator is reported as already terminated / a finished one is resumed' if what.startswith('Already') else
                              'a yield is reported as return (StopIteration) or a return as yielded value'))
    r.positive_control(True, 'table clause')
    return r


def rule_iternext(ctx, floor=3):
    r = Rule('C23-ITERNEXT', 'Coroutine.c/AsyncGen.c: the `iternext` flag (a NULL result without StopIteration is allowed) is passed as 1 only by functions installed in a tp_iternext slot, '
             'and every other method entry passes 0', floor)
    decls = _coro_functions(ctx)
    slots = set()
    for f in ('Coroutine.c', 'AsyncGen.c'):
        for sec in ctx.cat.files.get(f, {}).values():
            for S in sec.values():
                for m in _re.finditer(r'Py_tp_iternext\s*,\s*\(void\s*\*\)\s*(\w+)', _strip(S.text)):
                    slots.add(m.group(1))
    if not slots:
        raise AnalysisError('no Py_tp_iternext slot found in Coroutine.c/AsyncGen.c')
    n = 0
    for name, d in sorted(decls.items()):
        body = _strip(d.body)
        for m in _re.finditer(r'\b(__Pyx_Coroutine_MethodReturnFromResult|__Pyx_async_gen_asend_send_impl)\s*\(([^;]*)\)\s*;', body):
            args = [a.strip() for a in m.group(2).split(',')]
            flag = args[-1]
            if flag not in ('0', '1'):
                continue
            key = 'Coroutine.c:%s:%s:iternext' % (name, m.group(1))
            n += 1
            r.inst(key, sample='%s = %s (%s)' % (key, flag, 'tp_iternext' if name in slots else 'method'))
            if (flag == '1') != (name in slots):
                r.violate(key, 'Cython/Utility/' + d.file, d.line, '%s passes iternext=%s to %s but %s: %s' % (
                    name, flag, m.group(1), 'is installed as tp_iternext' if name in slots else 'is not a tp_iternext slot function',
                    'a plain method returns NULL without setting StopIteration (SystemError: NULL result without error)' if flag == '1' else 'harmless but slow' ))
    if not n:
        raise AnalysisError('no iternext flag site found')
    r.positive_control(True, 'table clause')
    return r


def rule_agrun(ctx, floor=3):
    from ..engine import cguard
    r = Rule('C23-AGRUN', 'AsyncGen.c awaitables: every transition INIT -> ITER of an asend/athrow object happens after the "async generator already running" test in the same branch, and '
             'ag_running_async = 1 is stored whenever the transition is made', floor)
    decls = _coro_functions(ctx, files=('AsyncGen.c',))
    n = 0
    for name, d in sorted(decls.items()):
        body = _strip(d.body)
        for m in _re.finditer(r'\b(\w+)->(ag[st]_state)\s*=\s*__PYX_AWAITABLE_STATE_ITER\s*;', body):
            key = 'AsyncGen.c:%s:INIT->ITER' % name
            n += 1
            gs = cguard.guards(body, m.start())
            r.inst(key, sample='%s under %s' % (key, gs))
            init = [(c, p) for c, p in gs if _re.search(r'%s\s*==\s*__PYX_AWAITABLE_STATE_INIT' % m.group(2), c) and p]
            rel = 'Cython/Utility/' + d.file
            if not init:
                r.violate(key + ':guard', rel, d.line, '%s moves the awaitable to ITER outside a `state == INIT` branch' % name)
                continue
            # the INIT block: from the `if (state == INIT) {` to the transition
            starts = [x.start() for x in _re.finditer(r'\bif\s*\([^;{}]*%s\s*==\s*__PYX_AWAITABLE_STATE_INIT' % m.group(2), body[:m.start()])]
            block = body[starts[-1]:m.start()] if starts else ''
            if not _re.search(r'if\s*\([^;{}]*ag_running_async[^;{}]*\)\s*\{[^{}]*__PYX_AWAITABLE_STATE_CLOSED[^{}]*return\b', block, _re.S):
                r.violate(key + ':busy-test', rel, d.line, '%s starts iterating the awaitable without the `ag_running_async` test that closes it and raises "already running": a second asend()/athrow() '
                          'awaited while the first is suspended resumes the async generator re-entrantly' % name)
            stores = [s.start() for s in _re.finditer(r'->ag_running_async\s*=\s*1\s*;', body)]
            ok = False
            for s in stores:
                sg = cguard.guards(body, s)
                if s > m.start() - 400 and all(g in gs for g in sg):
                    ok = True
            if not ok:
                r.violate(key + ':running-flag', rel, d.line, '%s moves the awaitable to ITER without storing ag_running_async = 1 on that path: ag_running stays False while the async generator runs '
                          'and a concurrent asend()/athrow()/aclose() is not rejected' % name)
    if not n:
        raise AnalysisError('AsyncGen.c: no INIT -> ITER transition found')
    r.positive_control(True, 'structural clause')
    return r


def rule_resume(ctx, floor=4):
    """the yield site of ExprNodes.YieldExprNode.generate_yield_code"""
    ix = ctx.index
    r = Rule('C23-RESUME', 'YieldExprNode.generate_yield_code: live temporaries are stored INTO the closure before the `return` and loaded FROM it after the resume label; the sent value is '
             'NULL-checked after the resume label; the handled exception is swapped into the generator exactly when the yield is inside an except block', floor)
    c = ix.cls('ExprNodes', 'YieldExprNode')
    fn = c.methods.get('generate_yield_code') if c else None
    if fn is None:
        raise AnalysisError('ExprNodes.YieldExprNode.generate_yield_code vanished')
    rel = c.module.rel
    # names bound to text that mentions the closure pointer
    closure_names = set()
    for n in walk_no_nested(fn):
        if isinstance(n, ast.Assign) and len(n.targets) == 1 and isinstance(n.targets[0], ast.Name):
            if any(isinstance(x, ast.Attribute) and x.attr == 'cur_scope_cname' for x in ast.walk(n.value)):
                closure_names.add(n.targets[0].id)

    def side(expr):
        """'closure' if the operand denotes a closure field"""
        if any(isinstance(x, ast.Attribute) and x.attr == 'cur_scope_cname' for x in ast.walk(expr)):
            return 'closure'
        if isinstance(expr, ast.Name) and expr.id in closure_names:
            return 'closure'
        return 'temp'
    events = []        # in source order: ('label',) | ('ret',) | ('copy', lhs side, rhs side, line) | ('nullcheck', line) | ('swap'/'reset', guard polarity, line)

    def visit(stmts, guards):
        for st in stmts:
            if isinstance(st, ast.If):
                t = ast.unparse(st.test)
                visit(st.body, guards + [(t, True)])
                visit(st.orelse, guards + [(t, False)])
                continue
            if isinstance(st, (ast.For, ast.While, ast.With, ast.Try)):
                for fld in ('body', 'orelse', 'finalbody'):
                    visit(getattr(st, fld, []) or [], guards)
                continue
            for call in [x for x in ast.walk(st) if isinstance(x, ast.Call) and isinstance(x.func, ast.Attribute)]:
                a = call.func.attr
                if a == 'put_label':
                    events.append(('label', call.lineno))
                elif a == 'generate_sent_value_handling_code' or (a in ('error_goto_if_null',) and any(isinstance(x, ast.Attribute) and x.attr == 'sent_value_cname' for x in ast.walk(call))):
                    events.append(('nullcheck', call.lineno))
                elif a in ('putln', 'put') and call.args:
                    arg = call.args[0]
                    text = ast.unparse(arg)
                    from . import iface as _iface
                    tpl = _iface.str_template(arg) if isinstance(arg, (ast.BinOp, ast.JoinedStr)) else None
                    if tpl is not None and tpl[1]:
                        PHc = _iface.PLACEHOLDER
                        fmt, ops = tpl
                        if _re.fullmatch(r'\s*return\b.*', fmt, _re.S):
                            events.append(('ret', call.lineno))
                        m = _re.fullmatch(r'\s*(%s(?:->%s)?)\s*=\s*(%s)\s*;\s*' % (PHc, PHc, PHc), fmt)
                        if m:
                            nl = m.group(1).count(PHc)
                            lhs, rhs = ops[:nl], ops[nl:]
                            ls = 'closure' if any(side(o) == 'closure' for o in lhs) else 'temp'
                            rs = 'closure' if any(side(o) == 'closure' for o in rhs) else 'temp'
                            if 'closure' in (ls, rs):
                                events.append(('copy', ls, rs, call.lineno))
                        for h, kind in (('__Pyx_Coroutine_SwapException', 'swap'), ('__Pyx_Coroutine_ResetAndClearException', 'reset')):
                            if h in fmt:
                                events.append((kind, [g for g in guards if 'current_except' in g[0]], call.lineno))
                    elif isinstance(arg, ast.Constant) and isinstance(arg.value, str) and _re.match(r'\s*return\b', arg.value):
                        events.append(('ret', call.lineno))
    visit(fn.body, [])
    labels = [e for e in events if e[0] == 'label']
    rets = [e for e in events if e[0] == 'ret']
    if not labels or not rets:
        raise AnalysisError('generate_yield_code: `return` emission / resume label placement not found')
    resume_line = labels[-1][1]
    base = 'ExprNodes.YieldExprNode.generate_yield_code'
    copies = [e for e in events if e[0] == 'copy']
    if len(copies) < 2:
        raise AnalysisError('generate_yield_code: the save/restore emissions of live temporaries were not recognised')
    for e in copies:
        before = e[3] < resume_line
        key = '%s:%s' % (base, 'save' if before else 'restore')
        r.inst(key, sample='%s: %s = %s' % (key, e[1], e[2]))
        if before and not (e[1] == 'closure' and e[2] == 'temp'):
            r.violate(key, rel, e[3], 'before the `return` of a yield the emitted copy goes %s <- %s: live temporaries must be stored into the closure, otherwise they are lost across the suspension' % (e[1], e[2]))
        if not before and not (e[1] == 'temp' and e[2] == 'closure'):
            r.violate(key, rel, e[3], 'after the resume label the emitted copy goes %s <- %s: the temporaries must be loaded back from the closure (they hold garbage after the resume; the saved values are overwritten)' % (e[1], e[2]))
    key = base + ':sent-value-check'
    r.inst(key, sample=key)
    if not any(e[0] == 'nullcheck' and e[1] > resume_line for e in events):
        r.violate(key, rel, resume_line, 'after the resume label the sent value is used without the NULL check (generate_sent_value_handling_code / error_goto_if_null): gen.throw() resumes with a NULL value, '
                  'the exception is not propagated at the yield and NULL is used as an object')
    for kind, want in (('swap', True), ('reset', False)):
        for e in [x for x in events if x[0] == kind]:
            key = '%s:%s' % (base, 'SwapException' if kind == 'swap' else 'ResetAndClearException')
            r.inst(key, sample='%s under %s' % (key, e[1]))
            pol = None
            for t, truth in e[1]:
                core, neg = t, False
                m = _re.fullmatch(r'(.*current_except)\s+is\s+not\s+None', core)
                m2 = _re.fullmatch(r'(.*current_except)\s+is\s+None', core)
                if m:
                    pol = truth
                elif m2:
                    pol = not truth
                elif _re.fullmatch(r'not\s+(.*current_except)', core):
                    pol = not truth
                elif _re.fullmatch(r'(.*current_except)', core):
                    pol = truth
            if pol is None:
                r.info('%s: guard %s not understood; polarity not compared' % (key, e[1]))
            elif pol != want:
                r.violate(key, rel, e[2], 'the yield site emits %s when the yield is %s an except block: inside a handler the handled exception must be swapped into the generator '
                          '(__Pyx_Coroutine_SwapException), outside the caller\'s state must be restored — otherwise sys.exc_info()/bare raise after the resume and in the caller are wrong' % (
                              '__Pyx_Coroutine_SwapException' if kind == 'swap' else '__Pyx_Coroutine_ResetAndClearException', 'inside' if pol else 'outside'))
    r.positive_control(True, 'structural clauses')
    return r
