"""Strengthening rules for C19 (comparisons / switch rewriting).

C19-SAME   The switch rewrite merges clauses only when they test *the same variable*.  "Same" is decided by a syntactic-equality predicate on
           expression nodes (Optimize.is_common_value).  Two structural obligations, both necessary for `if a.k == 1: .. elif b.k == 2: ..`
           not to become `switch (a.k)`:
           (DEF)  for every node kind the predicate accepts (a kind flag `is_X` tested on both parameters; the classes that set the flag are
                  looked up in ExprNodes) a truthy result is only returned on paths that compared EVERY syntactic field of that kind between the
                  two nodes: child fields (those in the class's `subexprs`) by recursion / == / is on the pair (a.f, b.f), and the naming
                  payload either field by field or through the symbol-table entry.  The syntactic fields of a kind are the keyword arguments
                  the parser (Parsing.py) passes at EVERY construction site of the class - nothing is spelled out here.
           (USE)  in the condition extractors of SwitchTransform, a match `(not_in, V, conditions)` is only returned on paths whose branch
                  facts propositionally entail, for every other switch-variable candidate W defined on the path (a name unpacked from an
                  extractor result at the variable position, or a parameter that receives one at a call site),  `W is None  or  same(V, W)`.
                  Entailment is decided by enumerating all valuations of the atoms occurring in the path facts (De Morgan / nesting / early
                  return are all the same to it).

C19-CMPIV  The int<->float compare helpers of Optimize.c::PyObjectCompare answer some operand classes WITHOUT comparing values
           (`{{return_true if op in 'NeGeGt' else return_false}}`).  Each such constant answer is validated by interval abstract
           interpretation: the path conditions leading to the site (sign of the PyLong, compactness, finiteness and magnitude tests on the
           double, overflow flags of PyLong_AsLongAndOverflow) are turned into intervals for the two operands, over both digit widths
           (PyLong_SHIFT 15 / 30) and both `long` widths; the intervals must decide the order of op1 and op2 and the operator set the
           template answers True for must be exactly the set of operators true for that order.  Value-comparing sites
           (`x {{c_op}} y`) must have the op1-derived operand on the left.
"""
import ast, itertools, re

from ..core import Rule, AnalysisError, node_src
from ..engine import pyflow, cexpr
from ..engine.cutil import strip_c_comments
from . import pC17 as CP

OPTIMIZE = 'Cython/Compiler/Optimize.py'
OPTIMIZE_C = 'Cython/Utility/Optimize.c'


# =================================================================================================== C19-SAME
def _kind_classes(ix, flag):
    """ExprNodes classes whose own body sets `flag` to a truthy constant."""
    out = []
    for c in ix.mod('ExprNodes').classes.values():
        v = c.attrs.get(flag)
        if isinstance(v, ast.Constant) and v.value:
            out.append(c)
    return out


def _parser_fields(ix, clsname):
    """Keyword names the parser passes at every construction site of ExprNodes.<clsname> (None: the parser never builds it)."""
    common = None
    n = 0
    for node in ast.walk(ix.mod('Parsing').tree):
        if not isinstance(node, ast.Call):
            continue
        f = node.func
        name = f.attr if isinstance(f, ast.Attribute) else (f.id if isinstance(f, ast.Name) else None)
        if name != clsname:
            continue
        if any(k.arg is None for k in node.keywords):
            continue
        kws = {k.arg for k in node.keywords}
        common = kws if common is None else (common & kws)
        n += 1
    return common, n


def kind_fields(ix, flag):
    """-> (child fields, leaf fields, class names) for the node kind identified by `flag`."""
    child, leaf, names = set(), set(), []
    for c in _kind_classes(ix, flag):
        fields, n = _parser_fields(ix, c.name)
        if fields is None:
            continue
        sub = ix.class_list_attr(c, 'subexprs')
        sub = set(sub[1] or ()) if sub else set()
        child |= fields & sub
        leaf |= fields - sub - {'pos'}
        names.append(c.name)
    return child, leaf, names


def _dnf(e):
    """Return expression -> list of alternatives, each a list of (ast, truth) literals."""
    if isinstance(e, ast.BoolOp) and isinstance(e.op, ast.And):
        alts = [[]]
        for v in e.values:
            alts = [a + b for a in alts for b in _dnf(v)]
        return alts
    if isinstance(e, ast.BoolOp) and isinstance(e.op, ast.Or):
        return [a for v in e.values for a in _dnf(v)]
    if isinstance(e, ast.IfExp):
        neg = ast.UnaryOp(op=ast.Not(), operand=e.test)
        return _dnf(ast.BoolOp(op=ast.And(), values=[e.test, e.body])) + _dnf(ast.BoolOp(op=ast.And(), values=[neg, e.orelse]))
    if isinstance(e, ast.UnaryOp) and isinstance(e.op, ast.Not):
        inner = e.operand
        if isinstance(inner, ast.IfExp):
            neg = ast.UnaryOp(op=ast.Not(), operand=inner.test)
            return _dnf(ast.BoolOp(op=ast.And(), values=[inner.test, ast.UnaryOp(op=ast.Not(), operand=inner.body)])) + \
                _dnf(ast.BoolOp(op=ast.And(), values=[neg, ast.UnaryOp(op=ast.Not(), operand=inner.orelse)]))
        if isinstance(inner, ast.BoolOp) or (isinstance(inner, ast.UnaryOp) and isinstance(inner.op, ast.Not)):
            # push the negation inwards
            if isinstance(inner, ast.UnaryOp):
                return _dnf(inner.operand)
            flipped = ast.BoolOp(op=ast.Or() if isinstance(inner.op, ast.And) else ast.And(),
                                 values=[ast.UnaryOp(op=ast.Not(), operand=v) for v in inner.values])
            return _dnf(flipped)
        return [[(inner, False)]]
    return [[(e, True)]]


def _subst(e, env):
    class T(ast.NodeTransformer):
        def visit_Name(self, n):
            if isinstance(n.ctx, ast.Load) and n.id in env:
                return env[n.id]
            return n
    import copy
    return T().visit(copy.deepcopy(e))


def _attr_of(e, params):
    """`p.f` -> (p, f) for a parameter p"""
    if isinstance(e, ast.Attribute) and isinstance(e.value, ast.Name) and e.value.id in params:
        return e.value.id, e.attr
    return None


def _pair(x, y, params):
    """(x, y) == (a.f, b.f) in either order -> f"""
    ax, ay = _attr_of(x, params), _attr_of(y, params)
    if ax and ay and ax[1] == ay[1] and {ax[0], ay[0]} == set(params):
        return ax[1]
    return None


def sameness_paths(fn):
    """-> [(return node, [alternatives of positive/negative literals incl. the path facts])]"""
    params = [a.arg for a in fn.args.args[:2]]
    if len(params) != 2:
        raise AnalysisError('%s: a sameness predicate takes two nodes' % fn.name)
    # single-assignment local aliases of attribute chains (oa = a.obj)
    counts, env = {}, {}
    for n in ast.walk(fn):
        if isinstance(n, ast.Assign):
            for t in n.targets:
                for nm in ast.walk(t):
                    if isinstance(nm, ast.Name):
                        counts[nm.id] = counts.get(nm.id, 0) + 1
    for n in ast.walk(fn):
        if isinstance(n, ast.Assign) and len(n.targets) == 1:
            t, v = n.targets[0], n.value
            pairs = []
            if isinstance(t, ast.Name):
                pairs = [(t, v)]
            elif isinstance(t, ast.Tuple) and isinstance(v, ast.Tuple) and len(t.elts) == len(v.elts):
                pairs = list(zip(t.elts, v.elts))
            for tt, vv in pairs:
                if isinstance(tt, ast.Name) and counts.get(tt.id) == 1 and tt.id not in params and isinstance(vv, ast.Attribute):
                    env[tt.id] = vv
    rets = []

    def transfer(node, state):
        if isinstance(node, ast.Return):
            rets.append((node, state))
        return state
    pyflow.Flow(transfer).run(fn)
    out = []
    for node, state in rets:
        facts = []
        for f in state:
            if isinstance(f, tuple) and len(f) == 4 and f[0] == '?':
                try:
                    facts.append((_subst(ast.parse(f[1], mode='eval').body, env), f[2]))
                except SyntaxError:
                    pass
        val = node.value if node.value is not None else ast.Constant(value=None)
        alts = []
        for alt in _dnf(_subst(val, env)):
            lits = []
            for e, t in facts + alt:
                # true conjunctions / false disjunctions decompose into definite literals; a disjunction gives none
                d = _dnf(e) if t else _dnf(ast.UnaryOp(op=ast.Not(), operand=e))
                if len(d) == 1:
                    lits += d[0]
            alts.append((alt, lits))
        out.append((node, alts))
    return params, out


def sameness_def_problems(fn, fields_of):
    """fields_of(flag) -> (child, leaf, class names).  -> (instances [(key, sample)], problems [(key, line, msg)])"""
    params, paths = sameness_paths(fn)
    inst, problems = {}, []
    for node, alts in paths:
        for alt, lits in alts:
            # can this alternative be truthy?
            if any(isinstance(e, ast.Constant) and bool(e.value) != t for e, t in alt):
                continue
            pos = [e for e, t in lits if t]
            flags = {}
            for e in pos:
                a = _attr_of(e, params)
                if a and a[1].startswith('is_'):
                    flags.setdefault(a[1], set()).add(a[0])
            kinds = [f for f, who in flags.items() if who == set(params) and fields_of(f)[2]]
            identical = any(isinstance(e, ast.Compare) and len(e.ops) == 1 and isinstance(e.ops[0], ast.Is) and
                            {ast.unparse(e.left), ast.unparse(e.comparators[0])} == set(params) for e in pos)
            if not kinds:
                if not identical:
                    problems.append(('%s:unkinded' % fn.name, node.lineno,
                                     '%s can answer True (%s) on a path that established neither the node kind of both operands nor their identity: unrelated '
                                     'expressions count as the same switch variable' % (fn.name, node_src(node, 60))))
                continue
            compared_eq, compared_rec = set(), set()
            for e in pos:
                if isinstance(e, ast.Compare) and len(e.ops) == 1 and isinstance(e.ops[0], (ast.Eq, ast.Is)):
                    f = _pair(e.left, e.comparators[0], params)
                    if f:
                        compared_eq.add(f)
                if isinstance(e, ast.Call) and isinstance(e.func, ast.Name) and e.func.id == fn.name and len(e.args) == 2 and not e.keywords:
                    f = _pair(e.args[0], e.args[1], params)
                    if f:
                        compared_rec.add(f)
            for flag in kinds:
                child, leaf, names = fields_of(flag)
                for f in sorted(child):
                    key = '%s:%s:%s' % (fn.name, flag, f)
                    inst[key] = '%s: %s nodes (%s): child field %s' % (fn.name, flag, '/'.join(names), f)
                    if f not in compared_rec and f not in compared_eq:
                        problems.append((key, node.lineno,
                                         '%s answers True for two %s nodes (%s) on a path that never compares their child expression `.%s` (by recursion, == or is on the pair '
                                         '%s.%s / %s.%s): `p.%s` and `q.%s` of DIFFERENT objects count as the same value, so `if p.x == 1: .. elif q.x == 2: ..` '
                                         'is merged into one C switch over p.x and the second clause tests the wrong object'
                                         % (fn.name, flag, '/'.join(names), f, params[0], f, params[1], f, 'x', 'x')))
                key = '%s:%s:name' % (fn.name, flag)
                inst[key] = '%s: %s nodes (%s): naming payload %s' % (fn.name, flag, '/'.join(names), sorted(leaf))
                if not (leaf and leaf <= compared_eq) and 'entry' not in compared_eq:
                    problems.append((key, node.lineno,
                                     '%s answers True for two %s nodes (%s) on a path that compares neither their naming field(s) %s nor their symbol-table entries: '
                                     'different variables/members count as the same switch variable' % (fn.name, flag, '/'.join(names), sorted(leaf - compared_eq))))
    return sorted(inst.items()), problems


# ------------------------------------------------------------------------------------------------ propositional entailment over path facts
class Prop:
    """Boolean formula over opaque atoms; atoms are normalised texts."""

    def __init__(self, same_name):
        self.same_name = same_name

    def atom_same(self, x, y):
        return 'SAME(%s)' % ', '.join(sorted((x, y)))

    def conv(self, e):
        if isinstance(e, ast.BoolOp):
            return ('and' if isinstance(e.op, ast.And) else 'or', [self.conv(v) for v in e.values])
        if isinstance(e, ast.UnaryOp) and isinstance(e.op, ast.Not):
            return ('not', self.conv(e.operand))
        if isinstance(e, ast.Compare) and len(e.ops) == 1 and isinstance(e.ops[0], (ast.Is, ast.IsNot)) and \
                isinstance(e.comparators[0], ast.Constant) and e.comparators[0].value is None:
            a = ('atom', '%s is None' % ast.unparse(e.left))
            return ('not', a) if isinstance(e.ops[0], ast.IsNot) else a
        if isinstance(e, ast.Call) and isinstance(e.func, ast.Name) and e.func.id == self.same_name and len(e.args) == 2:
            return ('atom', self.atom_same(ast.unparse(e.args[0]), ast.unparse(e.args[1])))
        if isinstance(e, ast.Constant):
            return ('const', bool(e.value))
        return ('atom', ast.unparse(e))

    @staticmethod
    def atoms(f, out):
        if f[0] == 'atom':
            out.add(f[1])
        elif f[0] == 'not':
            Prop.atoms(f[1], out)
        elif f[0] in ('and', 'or'):
            for x in f[1]:
                Prop.atoms(x, out)
        return out

    @staticmethod
    def ev(f, val):
        k = f[0]
        if k == 'atom':
            return val[f[1]]
        if k == 'const':
            return f[1]
        if k == 'not':
            return not Prop.ev(f[1], val)
        if k == 'and':
            return all(Prop.ev(x, val) for x in f[1])
        return any(Prop.ev(x, val) for x in f[1])

    def entails(self, premises, goal):
        """premises: [(formula, truth)]; every valuation satisfying all premises satisfies goal."""
        goal_atoms = self.atoms(goal, set())
        # only premises connected to the goal atoms matter
        rel, frontier = [], set(goal_atoms)
        pending = [(f, t, self.atoms(f, set())) for f, t in premises]
        changed = True
        while changed:
            changed = False
            for item in list(pending):
                if item[2] & frontier:
                    rel.append(item)
                    frontier |= item[2]
                    pending.remove(item)
                    changed = True
        names = sorted(frontier)
        if len(names) > 14:
            raise AnalysisError('too many atoms (%d) for the propositional check' % len(names))
        for bits in itertools.product((False, True), repeat=len(names)):
            val = dict(zip(names, bits))
            if all(self.ev(f, val) == t for f, t, _ in rel) and not self.ev(goal, val):
                return False, val
        return True, None


def extractor_sameness(cls_node, same_name, extractors=None, var_idx=1, no_match_attr='NO_MATCH'):
    """-> (instances [(key, sample)], problems [(key, line, msg)]) for the condition extractors of a SwitchTransform-like class."""
    meths = {n.name: n for n in cls_node.body if isinstance(n, ast.FunctionDef)}
    if extractors is None:
        extractors = []
        for name, fn in meths.items():
            rs = [n for n in ast.walk(fn) if isinstance(n, ast.Return) and n.value is not None]
            if rs and any(isinstance(r.value, ast.Attribute) and r.value.attr == no_match_attr for r in rs) and \
                    any(isinstance(r.value, ast.Tuple) and len(r.value.elts) > var_idx for r in rs):
                extractors.append(name)
    if not extractors:
        raise AnalysisError('%s: no condition extractor (method returning %s or a tuple) found' % (cls_node.name, no_match_attr))

    def is_extractor_call(v):
        return isinstance(v, ast.Call) and isinstance(v.func, ast.Attribute) and isinstance(v.func.value, ast.Name) and v.func.value.id == 'self' \
            and v.func.attr in extractors

    def local_candidates(fn):
        out = set()
        for n in ast.walk(fn):
            if isinstance(n, ast.Assign) and len(n.targets) == 1 and isinstance(n.targets[0], ast.Tuple) and is_extractor_call(n.value):
                elts = n.targets[0].elts
                if len(elts) > var_idx and isinstance(elts[var_idx], ast.Name):
                    out.add(elts[var_idx].id)
        return out
    local = {name: local_candidates(fn) for name, fn in meths.items()}
    param_cands = {name: set() for name in extractors}
    for name, fn in meths.items():
        for n in ast.walk(fn):
            if is_extractor_call(n):
                callee = meths[n.func.attr]
                pnames = [a.arg for a in callee.args.args[1:]]
                for i, a in enumerate(n.args):
                    if isinstance(a, ast.Name) and a.id in local[name] and i < len(pnames):
                        param_cands[n.func.attr].add(pnames[i])
    prop = Prop(same_name)
    inst, problems = [], []
    for name in extractors:
        fn = meths[name]
        cands = local[name] | param_cands[name]
        rets = []

        def transfer(node, state, cands=cands, rets=rets):
            if isinstance(node, ast.Assign) and len(node.targets) == 1 and isinstance(node.targets[0], ast.Tuple):
                for t in node.targets[0].elts:
                    if isinstance(t, ast.Name) and t.id in cands:
                        state = state | {('DEF', t.id)}
            if isinstance(node, ast.Return) and isinstance(node.value, ast.Tuple) and len(node.value.elts) > var_idx:
                rets.append((node, state))
            return state
        init = frozenset(('DEF', p) for p in param_cands[name])
        pyflow.Flow(transfer).run(fn, init)
        seen = {}
        for node, state in rets:
            v = node.value.elts[var_idx]
            vtxt = ast.unparse(v)
            defined = {f[1] for f in state if isinstance(f, tuple) and len(f) == 2 and f[0] == 'DEF'}
            premises = []
            for f in state:
                if isinstance(f, tuple) and len(f) == 4 and f[0] == '?':
                    try:
                        premises.append((prop.conv(ast.parse(f[1], mode='eval').body), f[2]))
                    except SyntaxError:
                        pass
            for w in sorted(defined - {vtxt}):
                key = '%s.%s:%s~%s' % (cls_node.name, name, vtxt, w)
                goal = ('or', [('atom', '%s is None' % w), ('atom', prop.atom_same(vtxt, w))])
                ok, cex = prop.entails(premises, goal)
                prev = seen.get(key)
                seen[key] = (node, ok if prev is None else (prev[1] and ok))
        for key, (node, ok) in sorted(seen.items()):
            vtxt, w = key.rsplit(':', 1)[1].split('~')
            inst.append((key, '%s.%s returns a match for %s while candidate %s is in scope' % (cls_node.name, name, vtxt, w)))
            if not ok:
                problems.append((key, node.lineno,
                                 '%s.%s returns a match for switch variable `%s` on a path that does not establish `%s is None or %s(%s, %s)`: conditions on DIFFERENT '
                                 'variables are merged into one C switch over `%s` (e.g. `x == 1 or y == 2` / `if x == 1: .. elif y == 2: ..` select the wrong branch)'
                                 % (cls_node.name, name, vtxt, w, same_name, vtxt, w, vtxt)))
    return inst, problems


SAME_POSITIVE = '''
def same(a, b):
    if a.is_name and b.is_name:
        return a.name == b.name
    if a.is_attribute and b.is_attribute:
        return not a.is_py_attr and a.entry is not None and a.entry is b.entry
    return False

class SwitchTransform:
    def extract_conditions(self, cond, allow_not_in):
        if cond.simple:
            return False, cond.operand1, [cond.operand2]
        not_in_1, t1, c1 = self.extract_conditions(cond.operand1, allow_not_in)
        not_in_2, t2, c2 = self.extract_conditions(cond.operand2, allow_not_in)
        if t1 is not None and not_in_1 == not_in_2:
            return not_in_1, t1, c1 + c2
        return self.NO_MATCH
'''


def rule_same(ctx, same_name='is_common_value', cls_name='SwitchTransform'):
    r = Rule('C19-SAME', 'the switch rewrite only merges clauses over the same variable: the sameness predicate compares every syntactic field of the node kinds it accepts '
             '(children recursively), and every condition extractor returns a match only on paths that establish sameness with every other variable candidate in scope', floor=4)
    ix = ctx.index
    m = ix.mod('Optimize')
    fn = m.functions.get(same_name) if isinstance(m.functions, dict) else None
    if fn is None:
        fn = next((n for n in m.tree.body if isinstance(n, ast.FunctionDef) and n.name == same_name), None)
    if fn is None:
        raise AnalysisError('Optimize.%s (sameness predicate of SwitchTransform) not found' % same_name)
    cache = {}

    def fields_of(flag):
        if flag not in cache:
            cache[flag] = kind_fields(ix, flag)
        return cache[flag]
    inst, problems = sameness_def_problems(fn, fields_of)
    if not any(k.endswith(':name') for k, _ in inst) or not any(not k.endswith(':name') for k, _ in inst):
        raise AnalysisError('Optimize.%s: no accepted node kind with a child field / naming payload recognised (%s)' % (same_name, [k for k, _ in inst]))
    for key, sample in inst:
        r.inst('Optimize.' + key, sample=sample)
    for key, line, msg in problems:
        r.violate('Optimize.' + key, OPTIMIZE, line, msg)
    cls = ix.cls('Optimize', cls_name)
    inst2, problems2 = extractor_sameness(cls.node, same_name)
    if len(inst2) < 2:
        raise AnalysisError('%s: fewer than two merge points with a second variable candidate found (%s)' % (cls_name, [k for k, _ in inst2]))
    for key, sample in inst2:
        r.inst('Optimize.' + key, sample=sample)
    for key, line, msg in problems2:
        r.violate('Optimize.' + key, OPTIMIZE, line, msg)
    # embedded positive example
    ptree = ast.parse(SAME_POSITIVE)
    pfn, pcls = ptree.body[0], ptree.body[1]
    table = {'is_name': (set(), {'name'}, ['NameNode']), 'is_attribute': ({'obj'}, {'attribute'}, ['AttributeNode'])}
    _, pp = sameness_def_problems(pfn, lambda f: table.get(f, (set(), set(), [])))
    _, pp2 = extractor_sameness(pcls, 'same')
    r.positive_control({k for k, _, _ in pp} == {'same:is_attribute:obj'} and {k for k, _, _ in pp2} == {'SwitchTransform.extract_conditions:t1~t2'},
                       'attribute nodes compared by member entry only; two extracted variables merged without a sameness test')
    return r


# =================================================================================================== C19-CMPIV / C19-CMPLEN
# Interval abstract interpretation of the two-operand compare helpers of a Tempita utility section.
INF = float('inf')
OPS = ('Eq', 'Ne', 'Lt', 'Le', 'Gt', 'Ge')
# operators that are true for each possible order of (op1, op2); 'nan' = unordered
TRUE_FOR = {'<': {'Ne', 'Lt', 'Le'}, '>': {'Ne', 'Gt', 'Ge'}, '==': {'Eq', 'Le', 'Ge'}, 'nan': {'Ne'}, '!=': None}
EXACT_DOUBLE = 2 ** 53

# semantic model of the accessors (CPython C-API / Cython's PyLong macros in TypeConversion.c)
FLOAT_VALUE = ('__Pyx_PyFloat_AS_DOUBLE', 'PyFloat_AS_DOUBLE', 'PyFloat_AsDouble')
LONG_COMPACT_TEST = ('__Pyx_PyLong_IsCompact',)
LONG_COMPACT_VALUE = ('__Pyx_PyLong_CompactValue',)
LONG_SIGN = ('__Pyx_PyLong_Sign',)
LONG_OVERFLOW = {'PyLong_AsLongAndOverflow': 'long', 'PyLong_AsLongLongAndOverflow': 'longlong'}
SIZE_CALL = re.compile(r'\w*_GET_SIZE$')
SIZE_OUT = re.compile(r'\b\w*AsStringAndSize\s*\(\s*(\w+)\s*,\s*&\s*\w+\s*,\s*&\s*(\w+)\s*\)')


class Iv:
    """Interval of reals with open/closed ends (+ may-be-NaN flag).  Integral variables keep closed integer ends."""
    __slots__ = ('lo', 'hi', 'lo_open', 'hi_open', 'nan', 'integral')

    def __init__(self, lo=-INF, hi=INF, lo_open=False, hi_open=False, nan=False, integral=False):
        self.lo, self.hi, self.lo_open, self.hi_open, self.nan, self.integral = lo, hi, lo_open, hi_open, nan, integral
        if integral:
            if self.lo_open and self.lo != -INF:
                self.lo, self.lo_open = self.lo + 1, False
            if self.hi_open and self.hi != INF:
                self.hi, self.hi_open = self.hi - 1, False

    def copy(self, **kw):
        d = dict(lo=self.lo, hi=self.hi, lo_open=self.lo_open, hi_open=self.hi_open, nan=self.nan, integral=self.integral)
        d.update(kw)
        return Iv(**d)

    def empty(self):
        """no ordinary (non-NaN) value"""
        if self.lo > self.hi:
            return True
        if self.lo == self.hi:
            if self.lo_open or self.hi_open:
                return True
            if self.integral and self.lo in (INF, -INF):
                return True
        return False

    def dead(self):
        return self.empty() and not self.nan

    def const(self):
        if not self.nan and not self.empty() and self.lo == self.hi:
            return self.lo
        return None

    def show(self):
        if self.empty():
            return 'nan' if self.nan else 'empty'
        def b(v):
            if v in (INF, -INF):
                return '-inf' if v < 0 else '+inf'
            for k in (15, 30, 31, 53, 63):
                if abs(v) == 2 ** k:
                    return ('-' if v < 0 else '') + '2**%d' % k
                if abs(v) == 2 ** k - 1:
                    return ('-(2**%d-1)' if v < 0 else '2**%d-1') % k
                if abs(v) == 2 ** k + 1:
                    return ('-(2**%d+1)' if v < 0 else '2**%d+1') % k
            return str(v)
        return '%s%s, %s%s%s' % ('(' if self.lo_open else '[', b(self.lo), b(self.hi), ')' if self.hi_open else ']', ' or nan' if self.nan else '')

    def refine(self, rel, c):
        """values v with  v rel c  (a comparison with NaN is false, so the NaN possibility goes away for every rel but !=)"""
        if rel == '<':
            if c < self.hi or (c == self.hi and not self.hi_open):
                return self.copy(hi=c, hi_open=True, nan=False)
            return self.copy(nan=False)
        if rel == '<=':
            if c < self.hi:
                return self.copy(hi=c, hi_open=False, nan=False)
            return self.copy(nan=False)
        if rel == '>':
            if c > self.lo or (c == self.lo and not self.lo_open):
                return self.copy(lo=c, lo_open=True, nan=False)
            return self.copy(nan=False)
        if rel == '>=':
            if c > self.lo:
                return self.copy(lo=c, lo_open=False, nan=False)
            return self.copy(nan=False)
        if rel == '==':
            return self.refine('<=', c).refine('>=', c)
        raise ValueError(rel)


NEG = {'<': '>=', '<=': '>', '>': '<=', '>=': '<', '==': '!=', '!=': '=='}
FLIP = {'<': '>', '<=': '>=', '>': '<', '>=': '<=', '==': '==', '!=': '!='}


class AState:
    def __init__(self):
        self.vals = {}        # abstract variable -> Iv      (keys 'I1' 'F1' 'L1' ... and plain C locals)
        self.alias = {}       # C local -> abstract variable
        self.rels = []        # (x, '<' | '<=' | '==' | '!=', y) between integral abstract variables
        self.tainted = None   # text of the first unmodelled condition this path depends on
        self.trace = []       # human readable path conditions

    def copy(self):
        s = AState()
        s.vals = dict(self.vals)
        s.alias = dict(self.alias)
        s.rels = list(self.rels)
        s.tainted = self.tainted
        s.trace = list(self.trace)
        return s

    def propagate(self):
        """bounds propagation of the integral relations; -> False when some variable has no value left"""
        for _ in range(8):
            changed = False
            for x, rel, y in self.rels:
                a, b = self.vals[x], self.vals[y]
                if rel in ('<', '<=', '=='):
                    d = 1 if rel == '<' else 0
                    if b.hi - d < a.hi:
                        self.vals[x] = a = a.copy(hi=b.hi - d)
                        changed = True
                    if a.lo + d > b.lo:
                        self.vals[y] = b = b.copy(lo=a.lo + d)
                        changed = True
                if rel == '==':
                    if a.hi < b.hi:
                        self.vals[y] = b = b.copy(hi=a.hi)
                        changed = True
                    if b.lo > a.lo:
                        self.vals[x] = a = a.copy(lo=b.lo)
                        changed = True
                if rel == '!=':
                    ca, cb = a.const(), b.const()
                    if ca is not None and cb is not None and ca == cb:
                        return False
            if not changed:
                break
        # relations between one pair of variables must leave some order possible
        allowed = {}
        for x, rel, y in self.rels:
            pair = (x, y) if x <= y else (y, x)
            if x > y:
                rel = {'<': '>', '<=': '>=', '==': '==', '!=': '!='}[rel]
            ok = {'<': {'<'}, '<=': {'<', '=='}, '>': {'>'}, '>=': {'>', '=='}, '==': {'=='}, '!=': {'<', '>'}}[rel]
            allowed[pair] = allowed.get(pair, {'<', '==', '>'}) & ok
            if not allowed[pair]:
                return False
        return not any(v.dead() for v in self.vals.values())


class Model:
    def __init__(self, params, shift, long_bits, kinds=None):
        self.params = params                  # C parameter names of the two operands
        self.shift, self.long_bits = shift, long_bits
        self.consts = {'PyLong_SHIFT': shift}
        self.kinds = kinds or {}              # operand number -> 'I' | 'F' | 'L' (how the helper reads the operand anywhere in its body)

    def initial(self):
        st = AState()
        for n, kind in self.kinds.items():
            st.vals['%s%d' % (kind, n)] = Iv(nan=True) if kind == 'F' else (Iv(integral=True) if kind == 'I' else Iv(lo=0, integral=True))
        return st

    def operand(self, name):
        return self.params.index(name) + 1 if name in self.params else None


def _strip(e):
    while e[0] == 'cast' or (e[0] == 'call' and e[1] in ('likely', 'unlikely') and len(e[2]) == 1):
        e = e[2] if e[0] == 'cast' else e[2][0]
    return e


class Walker:
    """Executes one variant of a helper body on abstract states; collects the states reaching every site."""

    def __init__(self, model, sites):
        self.m = model
        self.sites = sites
        self.reached = {}      # site id -> [AState]
        self.rel_sites = {}    # site id -> [(AState, left ast, right ast)]

    # ------------------------------------------------------------------ expressions
    def value(self, e, st):
        """-> ('var', abstract variable) | ('const', number) | None"""
        e = _strip(e)
        k = e[0]
        if k == 'id':
            if e[1] in st.alias:
                return ('var', st.alias[e[1]])
            if e[1] in st.vals:
                c = st.vals[e[1]].const()
                return ('const', c) if c is not None else ('var', e[1])
            if e[1] in self.m.consts:
                return ('const', self.m.consts[e[1]])
            return None
        if k in ('num', 'char'):
            return ('const', e[1])
        if k == 'un' and e[1] in '-+':
            v = self.value(e[2], st)
            if v and v[0] == 'const':
                return ('const', -v[1] if e[1] == '-' else v[1])
            return None
        if k == 'bin' and e[1] in ('<<', '+', '-', '*'):
            a, b = self.value(e[2], st), self.value(e[3], st)
            if a and b and a[0] == b[0] == 'const':
                try:
                    return ('const', cexpr.evaluate(('bin', e[1], ('num', a[1]), ('num', b[1])), {}))
                except cexpr.EvalError:
                    return None
            return None
        if k == 'call':
            return self.call_value(e, st)
        return None

    def key_var(self, kind, n, st):
        name = '%s%d' % (kind, n)
        if name not in st.vals:
            if kind == 'F':
                st.vals[name] = Iv(nan=True)
            elif kind == 'I':
                st.vals[name] = Iv(integral=True)
            else:
                st.vals[name] = Iv(lo=0, integral=True)
        return name

    def call_value(self, e, st):
        name, args = e[1], e[2]
        if not args:
            return None
        a0 = _strip(args[0])
        n = self.m.operand(a0[1]) if a0[0] == 'id' else None
        if n is None:
            return None
        if name in FLOAT_VALUE:
            return ('var', self.key_var('F', n, st))
        if name in LONG_COMPACT_VALUE:
            return ('var', self.key_var('I', n, st))
        if SIZE_CALL.search(name):
            return ('var', self.key_var('L', n, st))
        return None

    # ------------------------------------------------------------------ conditions
    def cond(self, e, st):
        """-> [(state, truth, unmodelled text or None)]"""
        e = _strip(e)
        k = e[0]
        if k == 'un' and e[1] == '!':
            return [(s, not t, u) for s, t, u in self.cond(e[2], st)]
        if k == 'bin' and e[1] in ('&&', '||'):
            out = []
            stop = (e[1] == '||')
            for s, t, u in self.cond(e[2], st):
                if t == stop:
                    out.append((s, t, u))
                else:
                    for s2, t2, u2 in self.cond(e[3], s):
                        out.append((s2, t2, u or u2))
            return out
        if k == 'bin' and e[1] in NEG:
            return self.compare(e[1], e[2], e[3], st, e)
        if k == 'call':
            name, args = e[1], e[2]
            a0 = _strip(args[0]) if args else None
            n = self.m.operand(a0[1]) if a0 and a0[0] == 'id' else None
            if name in LONG_COMPACT_TEST and n:
                v = self.key_var('I', n, st)
                lim = 2 ** self.m.shift
                out = []
                s = st.copy()
                s.vals[v] = s.vals[v].refine('>', -lim).refine('<', lim)
                s.trace.append('op%d is a compact PyLong (|v| < 2**%d)' % (n, self.m.shift))
                if s.propagate():
                    out.append((s, True, None))
                for rel, c, txt in (('<=', -lim, 'negative'), ('>=', lim, 'positive')):
                    s = st.copy()
                    s.vals[v] = s.vals[v].refine(rel, c)
                    s.trace.append('op%d is a non-compact %s PyLong (|v| >= 2**%d)' % (n, txt, self.m.shift))
                    if s.propagate():
                        out.append((s, False, None))
                return out
            if name == 'isfinite' and len(args) == 1:
                v = self.value(args[0], st)
                if v and v[0] == 'var':
                    cur = st.vals[v[1]]
                    out = []
                    s = st.copy()
                    s.vals[v[1]] = cur.refine('>', -INF).refine('<', INF)
                    s.trace.append('%s is finite' % v[1])
                    if s.propagate():
                        out.append((s, True, None))
                    for val, txt in ((-INF, '-inf'), (INF, '+inf')):
                        s = st.copy()
                        s.vals[v[1]] = cur.refine('==', val)
                        s.trace.append('%s is %s' % (v[1], txt))
                        if not s.vals[v[1]].dead():
                            out.append((s, False, None))
                    if cur.nan:
                        s = st.copy()
                        s.vals[v[1]] = Iv(lo=1, hi=0, nan=True)
                        s.trace.append('%s is nan' % v[1])
                        out.append((s, False, None))
                    return out
        # truthiness of a plain value
        v = self.value(e, st)
        if v is not None:
            return self.compare('!=', e, ('num', 0), st, e)
        return self.unmodelled(e, st)

    def unmodelled(self, e, st):
        txt = _show(e)
        return [(st.copy(), True, txt), (st.copy(), False, txt)]

    def compare(self, rel, le, re_, st, whole):
        a, b = self.value(le, st), self.value(re_, st)
        if a is None or b is None:
            return self.unmodelled(whole, st)
        if a[0] == 'const' and b[0] == 'const':
            t = {'<': a[1] < b[1], '<=': a[1] <= b[1], '>': a[1] > b[1], '>=': a[1] >= b[1], '==': a[1] == b[1], '!=': a[1] != b[1]}[rel]
            return [(st.copy(), t, None)]
        if a[0] == 'const':
            a, b, rel = b, a, FLIP[rel]
        out = []
        if b[0] == 'const':
            var, c = a[1], b[1]
            for truth, r in ((True, rel), (False, NEG[rel])):
                cur = st.vals[var]
                parts = []
                if r == '!=':
                    parts = [cur.refine('<', c), cur.refine('>', c)]
                    if cur.nan:
                        parts.append(Iv(lo=1, hi=0, nan=True))
                else:
                    parts = [cur.refine(r, c)]
                    if cur.nan and not truth:
                        parts.append(Iv(lo=1, hi=0, nan=True))      # NaN makes every comparison but != false
                for p in parts:
                    if p.dead():
                        continue
                    s = st.copy()
                    s.vals[var] = p
                    s.trace.append('%s %s %s' % (var, r, Iv(c, c).show().split(',')[0].lstrip('[')))
                    if s.propagate():
                        out.append((s, truth, None))
            return out
        # variable against variable: only integral ones are tracked relationally
        x, y = a[1], b[1]
        if not (st.vals[x].integral and st.vals[y].integral):
            return self.unmodelled(whole, st)
        for truth, r in ((True, rel), (False, NEG[rel])):
            cands = {'>': [(y, '<', x)], '>=': [(y, '<=', x)], '<': [(x, '<', y)], '<=': [(x, '<=', y)], '==': [(x, '==', y)], '!=': [(x, '!=', y)]}[r]
            s = st.copy()
            s.rels += cands
            s.trace.append('%s %s %s' % (x, r, y))
            if s.propagate():
                out.append((s, truth, None))
        return out

    # ------------------------------------------------------------------ statements
    def run(self, stmts, st):
        self.block(stmts, [st])

    def block(self, stmts, states):
        """-> states that flow off the end"""
        for stmt in stmts:
            if not states:
                return []
            nxt = []
            for st in states:
                nxt += self.stmt(stmt, st)
            states = nxt
            if len(states) > 400:
                raise AnalysisError('state explosion in the compare-helper analysis')
        return states

    def stmt(self, stmt, st):
        k = stmt.kind
        if k == 'block':
            return self.block(stmt.body, [st])
        if k in ('pp',):
            return [st]
        if k == 'label':
            return []                 # falling into the shared exit labels ends the path
        if k == 'if':
            return self.if_(stmt, st)
        if k in ('for', 'while', 'do', 'switch'):
            s = st.copy()
            s.tainted = s.tainted or ('%s (%s) statement' % (k, stmt.text[:40]))
            for sub in CP.walk(CP.as_list(stmt.body)):
                if sub.kind == 'simple':
                    for name in _assigned(sub.text):
                        s.alias.pop(name, None)
                        s.vals.pop(name, None)
                    self._site(sub.text, s)
            return [s]
        if k == 'simple':
            return self.simple(stmt.text, st)
        return [st]

    def _site(self, text, st):
        m = re.match(r'goto\s+__site_(\d+)$', text)
        if m:
            self.reached.setdefault(int(m.group(1)), []).append(st)
            return True
        return False

    def simple(self, text, st):
        if not text:
            return [st]
        if self._site(text, st):
            return []
        if re.match(r'(goto|return|break|continue)\b', text):
            return []
        st = st.copy()
        self.side_effects(text, st)
        m = re.match(r'^(?P<decl>(?:[A-Za-z_]\w*[\s\*]+)*)(?P<name>[A-Za-z_]\w*)\s*=(?!=)\s*(?P<rhs>.+)$', text)
        if not m:
            for name in _assigned(text):
                st.alias.pop(name, None)
                st.vals.pop(name, None)
            return [st]
        name, rhs = m.group('name'), m.group('rhs')
        st.alias.pop(name, None)
        st.vals.pop(name, None)
        st.rels = [r for r in st.rels if name not in (r[0], r[2])]
        try:
            e = _strip(cexpr.parse(_cnorm(rhs)))
        except cexpr.ParseError:
            return [st]
        # forking accessors
        if e[0] == 'call' and e[2]:
            a0 = _strip(e[2][0])
            n = self.m.operand(a0[1]) if a0[0] == 'id' else None
            if n and e[1] in LONG_SIGN:
                v = self.key_var('I', n, st)
                out = []
                for sign, rel, c in ((-1, '<=', -1), (0, '==', 0), (1, '>=', 1)):
                    s = st.copy()
                    s.vals[v] = s.vals[v].refine(rel, c)
                    s.vals[name] = Iv(sign, sign, integral=True)
                    if s.propagate():
                        s.trace.append('sign of op%d is %+d' % (n, sign))
                        out.append(s)
                return out
            if n and e[1] in LONG_OVERFLOW and len(e[2]) == 2:
                flag = _strip(e[2][1])
                if not (flag[0] == 'un' and flag[1] == '&' and flag[2][0] == 'id'):
                    return [st]
                fl = flag[2][1]
                bits = self.m.long_bits if LONG_OVERFLOW[e[1]] == 'long' else 64
                lo, hi = -(2 ** (bits - 1)), 2 ** (bits - 1) - 1
                v = self.key_var('I', n, st)
                out = []
                for ov, parts in ((0, (('>=', lo), ('<=', hi))), (1, (('>', hi),)), (-1, (('<', lo),))):
                    s = st.copy()
                    for rel, c in parts:
                        s.vals[v] = s.vals[v].refine(rel, c)
                    s.alias.pop(fl, None)
                    s.vals[fl] = Iv(ov, ov, integral=True)
                    if ov == 0:
                        s.alias[name] = v
                    else:
                        s.vals[name] = Iv(-1, -1, integral=True)
                    if s.propagate():
                        s.trace.append('%s(op%d) %s' % (e[1], n, 'fits' if ov == 0 else 'overflows %s' % ('upwards' if ov > 0 else 'downwards')))
                        out.append(s)
                return out
        if e[0] == 'tern':
            out = []
            for s, t, u in self.cond(e[1], st):
                if u:
                    s.alias.pop(name, None)
                    out.append(s)
                    continue
                v = self.value(e[2] if t else e[3], s)
                self.bind(name, v, s)
                out.append(s)
            return out
        self.bind(name, self.value(e, st), st)
        return [st]

    def bind(self, name, v, st):
        if v is None:
            return
        if v[0] == 'var':
            st.alias[name] = v[1]
        else:
            c = v[1]
            st.vals[name] = Iv(c, c, integral=isinstance(c, int))

    def side_effects(self, text, st):
        for m in SIZE_OUT.finditer(text):
            n = self.m.operand(m.group(1))
            if n:
                st.alias[m.group(2)] = self.key_var('L', n, st)

    def if_(self, stmt, st):
        st = st.copy()
        self.side_effects(stmt.text, st)
        body, orelse = CP.as_list(stmt.body), (CP.as_list(stmt.orelse) if stmt.orelse is not None else None)
        # value-comparing site:  if (X {{c_op}} Y) goto true; else goto false;
        if '__C_OP__' in stmt.text:
            left, right = stmt.text.split('__C_OP__', 1)
            sid = self.sites.relational_id(stmt)
            try:
                le, re_ = cexpr.parse(_cnorm(left + ')' * (left.count('(') - left.count(')')))), cexpr.parse(_cnorm('(' * (right.count(')') - right.count('(')) + right))
            except cexpr.ParseError:
                le = re_ = None
            self.rel_sites.setdefault(sid, []).append((st, le, re_, left.strip(), right.strip()))
            return []
        try:
            e = cexpr.parse(_cnorm(stmt.text))
        except cexpr.ParseError:
            outcomes = [(st.copy(), True, stmt.text), (st.copy(), False, stmt.text)]
        else:
            outcomes = self.cond(e, st)
        error_exit = orelse is None and CP.terminates(body) and not any(
            s.kind == 'simple' and re.match(r'goto\b', s.text) for s in CP.walk(body))
        if error_exit and any(u for _, _, u in outcomes):
            return [st]                 # `if (<error test>) return <error>;` : nothing is learnt, nothing depends on it
        out = []
        for s, t, u in outcomes:
            if u and not s.tainted:
                s.tainted = u
            if t:
                out += self.block(body, [s])
            elif orelse is not None:
                out += self.block(orelse, [s])
            else:
                out.append(s)
        return out


def _assigned(text):
    out = []
    for m in re.finditer(r'(?<![=!<>])\b([A-Za-z_]\w*)\s*(?:[-+*/|&^]|<<|>>)?=(?!=)', text):
        out.append(m.group(1))
    for m in re.finditer(r'(?:\+\+|--)\s*([A-Za-z_]\w*)|([A-Za-z_]\w*)\s*(?:\+\+|--)', text):
        out.append(m.group(1) or m.group(2))
    return out


def _cnorm(t):
    """C text -> text cexpr can read: float literals with zero fraction become integers, suffixes dropped"""
    t = re.sub(r'(?<![\w.])(\d+)\.(0*)(?![\w.])', r'\1', t)
    t = re.sub(r'\b(\d+)(?:LL|ll|L|l|U|u)+\b', r'\1', t)
    if re.search(r'(?<![\w.])\d+\.\d*[1-9]', t):
        raise cexpr.ParseError('non-integral float literal in %r' % t)
    return t


def _show(e):
    k = e[0]
    if k in ('num', 'char'):
        return str(e[1])
    if k == 'id':
        return e[1]
    if k == 'un':
        return '%s%s' % (e[1], _show(e[2]))
    if k == 'bin':
        return '%s %s %s' % (_show(e[2]), e[1], _show(e[3]))
    if k == 'call':
        return '%s(%s)' % (e[1], ', '.join(_show(a) for a in e[2]))
    if k == 'cast':
        return '(%s)%s' % (e[1], _show(e[2]))
    return k


# ------------------------------------------------------------------------------------------------ template handling
PLACEHOLDER = re.compile(r'\{\{(.*?)\}\}', re.S)


def _op_truth(expr, op):
    """Value of a Tempita condition that depends on `op` only (None: depends on something else)."""
    try:
        tree = ast.parse(expr.strip(), mode='eval').body
    except SyntaxError:
        return None

    def ev(n):
        if isinstance(n, ast.Name):
            if n.id == 'op':
                return op
            raise KeyError(n.id)
        if isinstance(n, ast.Constant):
            return n.value
        if isinstance(n, ast.Tuple):
            return tuple(ev(x) for x in n.elts)
        if isinstance(n, ast.BoolOp):
            vals = [ev(v) for v in n.values]
            return all(vals) if isinstance(n.op, ast.And) else any(vals)
        if isinstance(n, ast.UnaryOp) and isinstance(n.op, ast.Not):
            return not ev(n.operand)
        if isinstance(n, ast.Compare) and len(n.ops) == 1:
            a, b = ev(n.left), ev(n.comparators[0])
            o = n.ops[0]
            if isinstance(o, ast.In):
                return a in b
            if isinstance(o, ast.NotIn):
                return a not in b
            if isinstance(o, ast.Eq):
                return a == b
            if isinstance(o, ast.NotEq):
                return a != b
        raise KeyError('unmodelled')
    try:
        return bool(ev(tree))
    except KeyError:
        return None


def classify_placeholder(expr):
    """-> ('const', frozenset(ops answered True)) | ('true',) | ('false',) | ('error',) | ('c_op',) | None"""
    x = expr.strip()
    if x == 'return_true':
        return ('true',)
    if x == 'return_false':
        return ('false',)
    if x == 'return_error':
        return ('error',)
    if x == 'c_op':
        return ('c_op',)
    try:
        tree = ast.parse(x, mode='eval').body
    except SyntaxError:
        return None
    if isinstance(tree, ast.IfExp) and isinstance(tree.body, ast.Name) and isinstance(tree.orelse, ast.Name) and \
            {tree.body.id, tree.orelse.id} == {'return_true', 'return_false'}:
        test = ast.unparse(tree.test)
        truths = {op: _op_truth(test, op) for op in OPS}
        if any(v is None for v in truths.values()):
            return None
        yes = tree.body.id == 'return_true'
        return ('const', frozenset(op for op, v in truths.items() if v == yes))
    return None


class Sites:
    def __init__(self):
        self.table = {}      # id -> dict(kind, ops, text, line, ordinal)
        self.rel = {}        # normalised condition text -> id

    def relational_id(self, stmt):
        key = CP.norm(stmt.text)
        return self.rel[key]


class Helper:
    """One two-operand compare helper: name, params, variants of its body with sites marked."""

    def __init__(self, name, params, body, line, text_before):
        self.params, self.line = params, line
        self.sites = Sites()
        body = strip_c_comments(body)
        # operator domain from the Tempita conditionals that enclose the whole function
        stack = []
        for m in re.finditer(r'\{\{\s*(if|elif|else|endif)\b(.*?)\}\}', strip_c_comments(text_before), re.S):
            d, cond = m.group(1), m.group(2).strip()
            if d == 'if':
                stack.append([(cond, True)])
            elif d == 'elif' and stack:
                stack[-1] = [(c, False) for c, _ in stack[-1]] + [(cond, True)]
            elif d == 'else' and stack:
                stack[-1] = [(c, False) for c, _ in stack[-1]]
            elif d == 'endif' and stack:
                stack.pop()
        dom = set(OPS)
        for frame in stack:
            for cond, want in frame:
                truths = {op: _op_truth(cond, op) for op in OPS}
                if all(v is not None for v in truths.values()):
                    dom &= {op for op, v in truths.items() if v == want}
        self.domain = frozenset(dom)
        self.name = name + ('' if len(dom) == len(OPS) else '[%s]' % ''.join(op for op in OPS if op in dom))
        self.kinds = {}
        flat = PLACEHOLDER.sub(lambda mm: 'TPL', body)
        for n, p in enumerate(params, 1):
            ks = set()
            for m in re.finditer(r'(\w+)\s*\(\s*(?:\([^()]*\)\s*)?%s\b' % re.escape(p), flat):
                f = m.group(1)
                if f in FLOAT_VALUE:
                    ks.add('F')
                elif f in LONG_COMPACT_TEST or f in LONG_COMPACT_VALUE or f in LONG_SIGN or f in LONG_OVERFLOW:
                    ks.add('I')
                elif SIZE_CALL.search(f) or 'AsStringAndSize' in f:
                    ks.add('L')
            if len(ks) > 1:
                raise AnalysisError('%s: operand %s is read as %s' % (name, p, sorted(ks)))
            if ks:
                self.kinds[n] = ks.pop()
        n_const = n_rel = 0
        out, pos = [], 0
        for m in PLACEHOLDER.finditer(body):
            out.append(body[pos:m.start()])
            pos = m.end()
            inner = m.group(1)
            if re.match(r'\s*(if|elif|else|endif|py:|for|endfor)\b', inner):
                out.append(m.group(0))
                continue
            c = classify_placeholder(inner)
            ln = line + body.count('\n', 0, m.start())
            if c is None:
                out.append('TPL_' + re.sub(r'\W+', '_', inner.strip())[:24])
            elif c[0] == 'const':
                n_const += 1
                sid = len(self.sites.table)
                self.sites.table[sid] = dict(kind='const', ops=c[1], text=' '.join(inner.split()), line=ln, ordinal=n_const)
                out.append('goto __site_%d' % sid)
            elif c[0] == 'c_op':
                out.append('__C_OP__')
            elif c[0] == 'error':
                out.append('return __ERROR__')
            else:
                out.append('goto __ret_%s' % c[0])
        out.append(body[pos:])
        self.text = ''.join(out)
        # relational sites: if-conditions containing the operator placeholder
        for m in re.finditer(r'\bif\s*\(', self.text):
            end = CP._match(self.text, m.end() - 1, '(', ')')
            cond = self.text[m.end():end - 1]
            if '__C_OP__' in cond:
                key = CP.norm(cond)
                if key not in self.sites.rel:
                    n_rel += 1
                    sid = len(self.sites.table)
                    self.sites.table[sid] = dict(kind='rel', text=key.replace('__C_OP__', '{{c_op}}'), line=line + self.text.count('\n', 0, m.start()), ordinal=n_rel)
                    self.sites.rel[key] = sid

    def variants(self):
        """All combinations of preprocessor / Tempita alternatives -> [(text, labels, op domain)]"""
        tok = re.compile(r'(\{\{\s*(?:if|elif|else|endif)\b.*?\}\}|^[ \t]*#[ \t]*(?:if|ifdef|ifndef|elif|else|endif)\b[^\n]*$)', re.M | re.S)
        parts = tok.split(self.text)

        def parse(i, closers):
            """-> (list of nodes, index of the closing token)   node = text | ('choice', kind, [(label, nodes)])"""
            nodes = []
            while i < len(parts):
                p = parts[i]
                if i % 2 == 0:
                    nodes.append(p)
                    i += 1
                    continue
                d = _directive(p)
                if d[1] in ('if', 'ifdef', 'ifndef'):
                    arms = []
                    label = d[2] if d[1] == 'if' else ('defined(%s)' % d[2] if d[1] == 'ifdef' else '!defined(%s)' % d[2])
                    has_else = False
                    j = i + 1
                    while True:
                        sub, j = parse(j, ('elif', 'else', 'endif'))
                        arms.append((label, sub))
                        if j >= len(parts):
                            raise AnalysisError('%s: unterminated conditional block' % self.name)
                        dd = _directive(parts[j])
                        if dd[0] != d[0]:
                            raise AnalysisError('%s: interleaved Tempita / preprocessor conditionals' % self.name)
                        if dd[1] == 'endif':
                            break
                        label = dd[2] if dd[1] == 'elif' else 'else'
                        has_else = has_else or dd[1] == 'else'
                        j += 1
                    if not has_else:
                        arms.append(('else', []))
                    nodes.append(('choice', d[0], arms))
                    i = j + 1
                    continue
                if d[1] in closers:
                    return nodes, i
                raise AnalysisError('%s: unexpected %s' % (self.name, p.strip()))
            return nodes, i
        tree, _ = parse(0, ())

        def expand(nodes):
            outs = [('', (), self.domain)]
            for n in nodes:
                if isinstance(n, str):
                    outs = [(t + n, l, d) for t, l, d in outs]
                    continue
                _, kind, arms = n
                new = []
                taken = frozenset()        # ops for which an earlier Tempita arm was taken
                for label, sub in arms:
                    dom = None
                    if kind == 'tempita':
                        if label == 'else':
                            dom = frozenset(OPS) - taken if taken is not None else None
                        else:
                            truths = {op: _op_truth(label, op) for op in OPS}
                            if all(v is not None for v in truths.values()) and taken is not None:
                                dom = frozenset(op for op, v in truths.items() if v) - taken
                                taken = taken | dom
                            else:
                                taken = None
                    for t, l, d in outs:
                        for t2, l2, d2 in expand(sub):
                            dd = d & d2 if dom is None else d & d2 & dom
                            if dd:
                                new.append((t + t2, l + ((kind, label),) + l2, dd))
                outs = new
                if len(outs) > 64:
                    raise AnalysisError('%s: too many template variants' % self.name)
            return outs
        return expand(tree)


def _directive(p):
    s = p.strip()
    if s.startswith('{{'):
        m = re.match(r'\{\{\s*(if|elif|else|endif)\b(.*?)\}\}$', s, re.S)
        return ('tempita', m.group(1), m.group(2).strip())
    m = re.match(r'#\s*(if|ifdef|ifndef|elif|else|endif)\b(.*)$', s, re.S)
    return ('cpp', m.group(1), m.group(2).strip())


HELPER_HEAD = re.compile(r'(?m)^static\b(?:[^;{}()]|\{\{[^}]*\}\})*?\b(__Pyx_PyObject_Compare\w*?)(?:\{\{[^}]*\}\}\w*)*\s*\(\s*PyObject\s*\*\s*(\w+)\s*,\s*PyObject\s*\*\s*(\w+)\s*\)\s*\{')


def find_helpers(raw, first_line=1):
    """two-operand helpers `static ... __Pyx_PyObject_Compare<X>{{...}}(PyObject* a, PyObject* b) { ... }` of a section"""
    out = []
    for m in HELPER_HEAD.finditer(raw):
        brace = m.end() - 1
        end = CP._match(raw, brace, '{', '}')
        head = raw[m.start():m.end()]
        full = re.search(r'__Pyx_PyObject_(Compare(?:\w|\{\{\w+\}\})*?)(?:\{\{func_suffix\}\})?\s*\(', head)
        name = full.group(1) if full else m.group(1).replace('__Pyx_PyObject_', '')
        out.append(Helper(name, [m.group(2), m.group(3)], raw[brace:end], first_line + raw.count('\n', 0, brace), raw[:m.start()]))
    return out


def possible_orders(st, k1, k2):
    """Orders of (value of k1, value of k2) that the abstract state admits: subset of {'<', '==', '>', 'nan'}"""
    a, b = st.vals[k1], st.vals[k2]
    out = set()
    if a.nan or b.nan:
        out.add('nan')
    if a.empty() or b.empty():
        return out
    if a.integral and b.integral:
        for rel, c in (('<', (k1, '<', k2)), ('==', (k1, '==', k2)), ('>', (k2, '<', k1))):
            s = st.copy()
            s.rels.append(c)
            if s.propagate():
                out.add(rel)
        return out
    if a.lo < b.hi:
        out.add('<')
    if b.lo < a.hi:
        out.add('>')
    lo = max(a.lo, b.lo)
    hi = min(a.hi, b.hi)
    lo_open = (a.lo_open if a.lo == lo else False) or (b.lo_open if b.lo == lo else False)
    hi_open = (a.hi_open if a.hi == hi else False) or (b.hi_open if b.hi == hi else False)
    if lo < hi or (lo == hi and not lo_open and not hi_open and lo not in (INF, -INF)) or (lo == hi and lo in (INF, -INF) and not a.integral and not b.integral and not lo_open and not hi_open):
        out.add('==')
    return out


def operand_keys(st):
    """-> {1: key var, 2: key var} of the ordering keys the state knows, or raises when an operand is read in two ways"""
    keys = {}
    for v in st.vals:
        m = re.fullmatch(r'([IFL])([12])', v)
        if m:
            n = int(m.group(2))
            if n in keys and keys[n] != v:
                raise AnalysisError('operand %d is read both as %s and as %s' % (n, keys[n], v))
            keys[n] = v
    return keys


def judge_const(site, st, domain):
    """-> None (fine) | message"""
    keys = operand_keys(st)
    if 1 not in keys or 2 not in keys:
        return 'the answer is given before both operands were inspected'
    k1, k2 = keys[1], keys[2]
    if {k1[0], k2[0]} == {'L'}:
        # byte strings: the order of two strings is the order of their lengths only when the shorter one is empty
        a, b = st.vals[k1], st.vals[k2]
        orders = possible_orders(st, k1, k2)
        if not (a.const() == 0 or b.const() == 0):
            if orders <= {'<', '>'}:
                orders = {'!='}
            else:
                return 'the path conditions (lengths %s and %s) do not decide the order of the two byte strings' % (a.show(), b.show())
    else:
        orders = possible_orders(st, k1, k2)
    if not orders:
        return None
    for op in sorted(domain):
        answered = op in site['ops']
        for o in sorted(orders):
            if o == '!=':
                if op in ('Eq', 'Ne'):
                    want = (op == 'Ne')
                else:
                    return 'only inequality of the operands is known here, operator %s cannot be answered' % op
            else:
                want = op in TRUE_FOR[o]
            if want != answered:
                return ('operator %s is answered %s, but the path conditions admit op1 %s op2 (%s = %s, %s = %s) where Python gives %s'
                        % (op, answered, {'<': '<', '>': '>', '==': '==', 'nan': 'unordered with', '!=': '!='}[o], k1, st.vals[k1].show(), k2, st.vals[k2].show(), want))
    return None


def judge_rel(st, le, re_, walker):
    """value-comparing site `L {{c_op}} R`: the order of (L, R) must be the order of (op1, op2) for every concrete value"""
    if le is None or re_ is None:
        return 'skip', 'condition not parsed'
    a, b = walker.value(le, st), walker.value(re_, st)
    if a is None or b is None:
        return 'skip', 'operand not modelled'
    try:
        keys = operand_keys(st)
    except AnalysisError as ex:
        return 'bad', str(ex)

    def owner(v):
        if v[0] == 'var':
            m = re.fullmatch(r'[IFL]([12])', v[1])
            return int(m.group(1)) if m else 0
        return None
    oa, ob = owner(a), owner(b)
    if oa == 0 or ob == 0:
        return 'skip', 'operand not modelled'
    if oa is None and ob is None:
        return 'skip', 'constant comparison'
    if oa == 2 or ob == 1:
        return 'bad', 'the operand derived from op%d stands on the %s of the comparison operator: the helper answers op2 <op> op1' % (2 if oa == 2 else 1, 'left' if oa == 2 else 'right')
    # exactness of int -> double conversions
    for v, other in ((a, b), (b, a)):
        if v[0] == 'var' and v[1][0] == 'I':
            other_float = (other[0] == 'var' and other[1][0] == 'F') or (other[0] == 'const')
            iv = st.vals[v[1]]
            if other_float and (iv.lo < -EXACT_DOUBLE or iv.hi > EXACT_DOUBLE):
                return 'bad', ('the integer operand %s = %s is converted to double for the comparison although it may exceed 2**53: the conversion rounds, '
                               'e.g. 2**53+1 compares equal to 9007199254740992.0' % (v[1], iv.show()))
    # a constant standing in for an operand
    for n, v in ((1, a), (2, b)):
        if v[0] == 'const':
            if n not in keys:
                return 'bad', 'a constant stands in for op%d which was never inspected' % n
            tmp = st.copy()
            tmp.vals['__c'] = Iv(v[1], v[1])
            k_other = keys[3 - n]
            real = possible_orders(st, keys[1], keys[2])
            standin = possible_orders(tmp, '__c', k_other) if n == 1 else possible_orders(tmp, k_other, '__c')
            if real != standin or len(real) != 1:
                return 'bad', ('the constant %s stands in for op%d (%s = %s) but the order of the real operands %s is not the order of the compared values %s'
                               % (v[1], n, keys[n], st.vals[keys[n]].show(), sorted(real), sorted(standin)))
    return 'ok', None


def analyse_section(raw, first_line, shifts=(15, 30), long_bits=(64,)):
    """-> [dict(helper, site id, site, verdict 'ok'|'bad'|'skip', msg, config)] aggregated per site"""
    results = []
    for h in find_helpers(raw, first_line):
        if not any(s['kind'] == 'const' for s in h.sites.table.values()):
            continue            # helpers that always compare values (str: PyUnicode_Compare) have nothing to validate
        per_site = {sid: dict(helper=h, sid=sid, site=s, verdict=None, msgs=[], reached=0, skipped=[]) for sid, s in h.sites.table.items()}
        for text, labels, domain in h.variants():
            try:
                stmts = CP.parse_body(text)
            except AnalysisError as ex:
                raise AnalysisError('%s: %s' % (h.name, ex))
            for shift in shifts:
                for lb in long_bits:
                    model = Model(h.params, shift, lb, h.kinds)
                    w = Walker(model, h.sites)
                    w.run(stmts, model.initial())
                    cfg = 'PyLong_SHIFT=%d, %d-bit long%s' % (shift, lb, ''.join(', #if %s' % l for k, l in labels if k == 'cpp' and l != 'else' and 'SAFE_MACROS' not in l))
                    for sid, states in w.reached.items():
                        rec = per_site[sid]
                        for st in states:
                            rec['reached'] += 1
                            if st.tainted:
                                rec['skipped'].append(st.tainted)
                                continue
                            try:
                                msg = judge_const(rec['site'], st, domain)
                            except AnalysisError as ex:
                                msg = str(ex)
                            if msg:
                                rec['msgs'].append('%s [%s; path: %s]' % (msg, cfg, '; '.join(st.trace[-6:])))
                    for sid, entries in w.rel_sites.items():
                        rec = per_site[sid]
                        for st, le, re_, lt, rt in entries:
                            rec['reached'] += 1
                            if st.tainted:
                                rec['skipped'].append(st.tainted)
                                continue
                            v, msg = judge_rel(st, le, re_, w)
                            if v == 'bad':
                                rec['msgs'].append('%s [%s; path: %s]' % (msg, cfg, '; '.join(st.trace[-6:])))
                            elif v == 'skip':
                                rec['skipped'].append(msg)
        results += list(per_site.values())
    return results


CMP_POSITIVE = """
static {{c_ret_type}} __Pyx_PyObject_CompareIntFloat{{func_suffix}}(PyObject *op1, PyObject *op2) {
    double float_op2 = __Pyx_PyFloat_AS_DOUBLE(op2);
    if (__Pyx_PyLong_IsCompact(op1)) {
        Py_ssize_t iop1 = __Pyx_PyLong_CompactValue(op1);
        if (((double)iop1) {{c_op}} float_op2) {{return_true}}; else {{return_false}};
    }
    if (isfinite(float_op2)) {
        int sign1 = __Pyx_PyLong_Sign(op1);
        if (float_op2 < 0.) {
            if (sign1 > 0) {{return_true if op in 'NeGeGt' else return_false}};
            if (float_op2 > -(double) (1L << PyLong_SHIFT)) {{return_false if op in 'EqLeLt' else return_true}};
        }
    }
    return PyObject_RichCompare(op1, op2, Py_{{op.upper()}});
__pyx_return_true:
    return 1;
__pyx_return_false:
    return 0;
}
"""


def _cmp_rule(ctx, r, want_kinds, long_bits, section=('Optimize.c', 'PyObjectCompare')):
    sec = ctx.cat.section(section[0], section[1], 'impl')
    if sec is None:
        raise AnalysisError('%s::%s not found' % section)
    rel = 'Cython/Utility/' + section[0]
    results = analyse_section(sec.raw, sec.line, long_bits=long_bits)
    n = 0
    for rec in results:
        h, site = rec['helper'], rec['site']
        kinds = set(h.kinds.values())
        if not kinds or not kinds <= set(want_kinds):
            continue
        key = '%s:%s:%s:%s#%d' % (section[0], section[1], h.name, 'const' if site['kind'] == 'const' else 'rel', site['ordinal'])
        judged = rec['reached'] - len(rec['skipped'])
        if rec['reached'] == 0:
            r.info('%s `%s` is unreachable in every modelled configuration' % (key, site['text']))
            continue
        if judged == 0:
            r.info('%s `%s` not judged: every path to it depends on an unmodelled condition (%s)' % (key, site['text'], sorted(set(rec['skipped']))[0][:60]))
            continue
        n += 1
        r.inst(key, sample='%s `%s`: %d abstract states judged' % (key, site['text'], judged))
        if rec['msgs']:
            msgs = sorted(set(rec['msgs']), key=lambda m: (len(m), m))
            what = ('answers the comparison without comparing values (`{{%s}}`)' % site['text']) if site['kind'] == 'const' else ('compares `%s`' % site['text'])
            r.violate(key, rel, site['line'], '__Pyx_PyObject_%s %s: %s%s' % (h.name, what, msgs[0], '' if len(msgs) == 1 else ' (+%d more abstract states)' % (len(msgs) - 1)))
    return n


def _cmp_positive(r):
    res = analyse_section(CMP_POSITIVE, 1, long_bits=(64,))
    bad = {(x['site']['kind'], x['site']['ordinal']) for x in res if x['msgs']}
    ok = {(x['site']['kind'], x['site']['ordinal']) for x in res if not x['msgs'] and x['reached'] > len(x['skipped'])}
    r.positive_control(bad == {('const', 2)} and ok == {('const', 1), ('rel', 1)},
                       "constant answer 'EqLeLt -> false' on the path  int <= -2**SHIFT, -2**SHIFT < float < 0  (int < float there)")


def rule_cmpiv(ctx, long_bits=(64,), rid='C19-CMPIV'):
    r = Rule(rid, 'int<->float compare helpers (Optimize.c::PyObjectCompare): every answer given without comparing values is the answer CPython gives for ALL operands that '
             'satisfy the path conditions (interval abstract interpretation over sign / compactness / finiteness / magnitude / overflow tests, PyLong_SHIFT 15 and 30); '
             'value-comparing sites keep op1 on the left, convert integers to double only when exact (|v| <= 2**53), and constants stand in for an operand only when they '
             'have the same order', floor=16)
    _cmp_rule(ctx, r, ('I', 'F'), long_bits)
    _cmp_positive(r)
    return r


def rule_cmpiv_llp64(ctx):
    # pending finding (FINDING_2): with a 32-bit `long` (Windows) and CYTHON_USE_PYLONG_INTERNALS == 0 the fallback of CompareFloatInt answers float < int for
    # every int > LONG_MAX although the float may be larger (1e12 < 2**32 -> True).  Not registered in run().
    return rule_cmpiv(ctx, long_bits=(32,), rid='C19-CMPIV-LLP64')


def rule_cmplen(ctx):
    # pending finding (FINDING_1): bytes/bytearray ordering answers `<`/`>=` wrongly for two distinct empty operands.  Not registered in run().
    r = Rule('C19-CMPLEN', 'bytes/bytearray compare helpers (Optimize.c::PyObjectCompare): every answer derived from the lengths alone is the answer CPython gives for all '
             'operands with such lengths (the order of two byte strings is the order of their lengths only when the shorter one is empty)', floor=5)
    _cmp_rule(ctx, r, ('L',), (64,))
    _cmp_positive(r)
    return r
