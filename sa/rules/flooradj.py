"""C03-ADJ: every floor-adjustment predicate of the C integer/float `//` and `%` helpers is the Python one.

C division truncates; Python floors.  The helpers compute the truncated quotient/remainder and then adjust by 1 / by the divisor exactly
when  remainder != 0  and  sign(remainder) != sign(divisor).  Each such predicate in the utility code is a boolean function of sign tests
only (x != 0, x < 0, (x ^ y) < 0); it is extracted, checked to be sign-pure, and compared with the reference predicate on the complete
sign domain {<0, 0, >0} x {<0, >0} (x both values of a constant-folding selector) — a truth table, not a run of the helper."""
import re

from ..core import Rule, AnalysisError
from ..engine import cexpr
from ..engine.cutil import strip_c_comments
from ..engine.cguard import guards, function_at

FILES = ('Cython/Utility/CMath.c', 'Cython/Utility/Builtins.c', 'Cython/Utility/Optimize.c')
CMP = ('<', '>', '<=', '>=', '==', '!=')
SELECTORS = ('b_is_constant',)


def sign_pure(e):
    k = e[0]
    if k == 'bin' and e[1] in CMP and e[3] == ('num', 0):
        a = e[2]
        if a[0] == 'id' and a[1] not in SELECTORS:
            return True
        if a[0] == 'bin' and a[1] == '^' and a[2][0] == 'id' and a[3][0] == 'id':
            return True
        return False
    if k == 'bin' and e[1] in ('&', '|', '^', '&&', '||'):
        return sign_pure(e[2]) and sign_pure(e[3])
    if k == 'un' and e[1] == '!':
        return sign_pure(e[2])
    if k == 'tern' and e[1][0] == 'id' and e[1][1] in SELECTORS:
        return sign_pure(e[2]) and sign_pure(e[3])
    if k == 'call' and e[1] in ('likely', 'unlikely') and len(e[2]) == 1:
        return sign_pure(e[2][0])
    return False


def idents(e):
    return sorted({x[1] for x in cexpr.walk(e) if x[0] == 'id' and x[1] not in SELECTORS and x[1] not in ('likely', 'unlikely')})


def candidates(e):
    """maximal sign-pure subexpressions over exactly two identifiers that contain an xor-of-signs and a != 0 / == 0 test or did so
    in a sibling branch"""
    if sign_pure(e) and len(idents(e)) == 2 and any(x[0] == 'bin' and x[1] == '^' for x in cexpr.walk(e)):
        return [e]
    out = []
    for x in e[1:]:
        if isinstance(x, tuple):
            out += candidates(x)
        elif isinstance(x, list):
            for y in x:
                out += candidates(y)
    return out


def roles(e):
    """(remainder identifier, divisor identifier): the remainder is the one compared with != 0 / == 0"""
    ids = idents(e)
    zero_tested = {x[2][1] for x in cexpr.walk(e) if x[0] == 'bin' and x[1] in ('!=', '==') and x[3] == ('num', 0) and x[2][0] == 'id'}
    rem = [i for i in ids if i in zero_tested]
    if len(rem) == 1:
        return rem[0], [i for i in ids if i != rem[0]][0]
    # no zero test left at all (or on both): by convention of the helpers the divisor is named b
    if 'b' in ids:
        return [i for i in ids if i != 'b'][0], 'b'
    return None


def truth_table(e, rem, div, guards=()):
    bad = []
    for sel in (0, 1):
        for r in (-3, 0, 3):
            for b in (-2, 2):
                env = {rem: r, div: b}
                for s in SELECTORS:
                    env[s] = sel
                feasible = True
                for g, pol in guards:       # enclosing if-conditions that are decidable from the signs alone
                    try:
                        if bool(cexpr.evaluate(g, env)) != pol:
                            feasible = False
                    except cexpr.EvalError:
                        pass
                if not feasible:
                    continue
                got = bool(cexpr.evaluate(e, env))
                want = (r != 0) and ((r < 0) != (b < 0))
                if got != want:
                    bad.append((sel, r, b, got, want))
    return bad


def _mult_partner(e, c):
    """identifier the candidate predicate c is multiplied with inside e (`pred * b`, `b * pred`), or None"""
    for x in cexpr.walk(e):
        if x[0] == 'bin' and x[1] == '*':
            for me, other in ((x[2], x[3]), (x[3], x[2])):
                if me == c and other[0] == 'id':
                    return other[1]
                # the non-zero test may sit outside the multiplication operand: (r != 0 & pred) is the candidate itself
    return None


def sites(text):
    """-> [(offset of the `^`, predicate AST, identifier the predicate is multiplied with or None)]: predicates written as a value
    (`r += pred * b;`, `q -= pred;`, `return ...pred...;`) and as the condition of an if statement (`if (pred) r += b;`)."""
    from ..engine.cutil import match_paren
    out = []
    for m in re.finditer(r'[^;{}]*\^[^;{}]*;', text):
        st = m.group(0)
        if '< 0' not in st.replace('<0', '< 0') or '\n#' in st:
            continue
        body = st.strip().rstrip(';')
        im = re.match(r'(?:else\s+)?if\s*\(', body)
        pieces = []
        while im:
            q = match_paren(body, im.end() - 1)
            if q is None or q <= 0:
                break
            pieces.append(body[im.end():q])
            body = body[q + 1:].strip()
            im = re.match(r'(?:else\s+)?if\s*\(', body)
        if '^' in body:
            mm = re.match(r'(?s)(?:return\b|(?:[^=!<>]|[!<>]=?)*?(?:\+=|-=|=(?!=)))(.*)$', body)
            pieces.append(mm.group(1) if mm else body)
        for rhs in pieces:
            try:
                e = cexpr.parse(' '.join(rhs.split()))
            except cexpr.ParseError:
                continue
            for c in candidates(e):
                out.append((m.start() + st.index('^'), c, _mult_partner(e, c)))
    return out


def rule_adj(ctx, floor=5):
    r = Rule('C03-ADJ', 'every floor-adjustment predicate of the // and % helpers equals (remainder != 0) and sign(remainder) != sign(divisor) on the complete sign domain', floor)
    for rel in FILES:
        text = strip_c_comments(ctx.read(rel))
        fn = rel.rsplit('/', 1)[1]
        seen = {}
        for pos, e, partner in sites(text):
            line = text.count('\n', 0, pos) + 1
            head = None
            for hm in re.finditer(r'^/{5,}\s*([\w.]+)\s*/{5,}', text[:pos], re.M):
                head = hm.group(1)
            # comments are stripped: take the section name from the raw text instead
            raw = ctx.read(rel)
            heads = [hm.group(1) for hm in re.finditer(r'^/{5,}\s*([\w.]+)\s*/{5,}', '\n'.join(raw.split('\n')[:line]), re.M)]
            head = heads[-1] if heads else '?'
            n = seen[head] = seen.get(head, 0) + 1
            key = '%s:%s#%d' % (fn, head, n)
            rl = roles(e)
            if rl is None:
                # no zero test and no conventional name: take the roles from the statement that computes the remainder in the same function
                f0 = function_at(text, pos)
                dm = f0 and re.search(r'\b(\w+)\s*=\s*(?:fmod\w*\s*\(\s*(\w+)\s*,\s*(\w+)\s*\)|(\w+)\s*%%?\s*(\w+)\s*;)', text[f0[1]:f0[2] + 1])
                if dm:
                    rem0, div0 = dm.group(1), dm.group(3) or dm.group(5)
                    ids0 = idents(e)
                    if rem0 in ids0 and div0 not in ids0:
                        r.inst(key, sample='%s line %d: remainder %s, divisor %s' % (key, line, rem0, div0))
                        r.violate(key, rel, line, 'floor adjustment in %s compares the sign of the remainder %s with the sign of %s, but the divisor of the operation is %s: '
                                  'the result of %% gets the sign of the wrong operand' % (head, rem0, [i for i in ids0 if i != rem0][0], div0))
                        continue
                    if rem0 in ids0 and div0 in ids0:
                        rl = (rem0, div0)
            if rl is None:
                raise AnalysisError('%s:%d: cannot tell remainder from divisor in a floor-adjustment predicate' % (rel, line))
            rem, div = rl
            r.inst(key, sample='%s line %d: remainder %s, divisor %s' % (key, line, rem, div))
            gs = []
            f = function_at(text, pos)
            if f is not None:
                for cond, pol in guards(text[f[1]:f[2] + 1], pos - f[1]):
                    try:
                        ge = cexpr.parse(cond)
                    except cexpr.ParseError:
                        continue
                    if set(idents(ge)) <= {rem, div}:
                        gs.append((ge, pol))
            if partner == div and f is not None and re.search(r'\bfmod\w*\s*\(|\bfmod%\(', text[f[1]:f[2] + 1]):
                r.violate(key, rel, line, 'floor adjustment in %s multiplies the floating-point divisor %s with the 0/1 predicate: for an infinite divisor fmod() returns the dividend and '
                          '0 * inf is NaN (1.5 %% inf gives nan, Python gives 1.5); the addition has to be conditional' % (head, div))
                continue
            bad = truth_table(e, rem, div, gs)
            if bad:
                sel, rv, bv, got, want = bad[0]
                r.violate(key, rel, line, 'floor adjustment in %s is wrong for remainder %s 0, divisor %s 0%s: predicate gives %s, Python semantics need %s (%d of 12 sign cases differ)' % (
                    head, '<' if rv < 0 else '>' if rv > 0 else '==', '<' if bv < 0 else '>', ' (constant divisor branch)' if sel else '', got, want, len(bad)))
    e_bad = cexpr.parse('(b_is_constant ? ((r < 0) ^ (b < 0)) : ((r != 0) & ((r ^ b) < 0)))')
    e_ok = cexpr.parse('((x != 0) & ((x ^ b) < 0))')
    r.positive_control(sign_pure(e_bad) and roles(e_bad) == ('r', 'b') and bool(truth_table(e_bad, 'r', 'b')) and not truth_table(e_ok, 'x', 'b'), 'dropped `r != 0` term differs at remainder 0')
    return r
