"""C13-IDXOVF: the Py_ssize_t arithmetic of the index helpers cannot overflow for any index argument.

The optimised str / bytes / list / tuple methods and slices hand the caller's start / stop / index values to C helpers as Py_ssize_t and the
helpers normalise and compare them with plain C arithmetic.  C13-SLICE / C15 prove those helpers equal to CPython on *unbounded* integers; the proof
only carries over to the machine when no signed addition, subtraction, multiplication or negation that involves a caller-supplied index can leave
the range of its C type (signed overflow is undefined behaviour, in practice it wraps, passes the bounds test and the helper reads outside the
object: b"abc".startswith(b"a", sys.maxsize) evaluated `start + sub_len <= end`).

Decided statically, nothing is executed: every C function with a body in the utility files of the property that has a `Py_ssize_t` (or `Py_ssize_t *`)
parameter is parsed (rules/pC15.CParser, one run per assignment of its preprocessor conditions) and interpreted over the interval domain on 64-bit
Py_ssize_t / 32-bit int with a taint bit:
  * a by-value Py_ssize_t parameter of a helper nobody in the catalogue calls holds ANY value [PY_SSIZE_T_MIN, PY_SSIZE_T_MAX] and is tainted (the
    property quantifies over every argument value); a helper that other helpers call receives the join of what those callers pass (callers first);
    `Py_ssize_t *` parameters carry the value stored by the caller (`&start`);
  * every other Py_ssize_t quantity of unknown origin (call result, out-parameter, struct member, cast from an unsigned size) is an object size:
    [0, PY_SSIZE_T_MAX], not tainted (ASSUMPTION; error returns of the size getters are decided elsewhere);
  * branches refine the intervals of the compared variables (var-const and var-var, && || ! ?: and the bitwise | & of comparisons), early returns /
    forward gotos drop / carry the state, paths are joined with the interval hull;
  * OBLIGATION at every `+ - *`, unary `-`, `+= -= *= ++ --` of signed integer type with a tainted operand: the exact result interval lies inside
    the range of the type.
A function outside the C subset (loops, switch, templates, > 8 preprocessor conditions) is listed as info and only forwards its parameters to the
helpers it calls (textually: a bare parameter name forwards that parameter's value, anything else forwards 'any value').
Findings are keyed by helper name + normalised expression text."""
import re

from ..core import Rule, AnalysisError
from . import pC15 as X
from . import sC02

FILES = ('StringTools.c', 'Optimize.c', 'ObjectHandling.c', 'Builtins.c')
SMAX = 2 ** 63 - 1
SMIN = -2 ** 63
RANGE = {'ssize': (SMIN, SMAX), 'int': (-2 ** 31, 2 ** 31 - 1)}
CONSTS = {'PY_SSIZE_T_MAX': SMAX, 'PY_SSIZE_T_MIN': SMIN, 'INT_MAX': 2 ** 31 - 1, 'INT_MIN': -2 ** 31}
CMP = {'<', '<=', '>', '>=', '==', '!='}
WRAP = ('likely', 'unlikely')


class V:
    """interval value of a signed C integer: kind 'ssize' | 'int' | 'lit' (literal, adopts the other operand's kind)"""
    __slots__ = ('lo', 'hi', 't', 'kind')

    def __init__(self, lo, hi, t=False, kind='ssize'):
        self.lo, self.hi, self.t, self.kind = lo, hi, t, kind

    def __repr__(self):
        return '[%s, %s]%s' % (_b(self.lo), _b(self.hi), '*' if self.t else '')


def _b(n):
    for name, v in (('PY_SSIZE_T_MAX', SMAX), ('PY_SSIZE_T_MIN', SMIN)):
        if n == v:
            return name
        if abs(n - v) <= 4:
            return '%s%+d' % (name, n - v)
    if n == 2 * SMAX:
        return '2*PY_SSIZE_T_MAX'
    return str(n)


def any_index(kind='ssize'):
    lo, hi = RANGE[kind]
    return V(lo, hi, True, kind)


def size_value():
    return V(0, SMAX, False, 'ssize')


def join_v(a, b):
    if a is None or b is None:
        return None
    kind = a.kind if a.kind == b.kind else ('ssize' if 'ssize' in (a.kind, b.kind) else 'int')
    return V(min(a.lo, b.lo), max(a.hi, b.hi), a.t or b.t, kind)


def type_kind(typ):
    """declared C type text -> 'ssize' | 'int' | 'ptr-ssize' | 'other'"""
    t = ' '.join(typ.replace('*', ' * ').split())
    words = [w for w in t.split() if w not in ('const', 'static', 'volatile', 'register', 'CYTHON_UNUSED', 'CYTHON_NCP_UNUSED', 'CYTHON_INLINE')]
    stars = words.count('*')
    base = [w for w in words if w != '*']
    if 'unsigned' in base or 'size_t' in base:
        return 'other'
    if base in (['Py_ssize_t'], ['ssize_t'], ['long'], ['long', 'long'], ['Py_hash_t'], ['signed', 'long']):
        return 'ssize' if stars == 0 else ('ptr-ssize' if stars == 1 else 'other')
    if base in (['int'], ['signed', 'int']) and stars == 0:
        return 'int'
    return 'other'


class Env:
    """variables -> V | None (unknown / not an integer we model); kinds of declared variables"""
    __slots__ = ('v', 'k')

    def __init__(self, v=None, k=None):
        self.v, self.k = dict(v or {}), dict(k or {})

    def copy(self):
        return Env(self.v, self.k)


def join_env(a, b):
    if a is None:
        return b
    if b is None:
        return a
    out = Env({}, dict(a.k))
    out.k.update(b.k)
    for n in set(a.v) | set(b.v):
        if n in a.v and n in b.v:
            out.v[n] = join_v(a.v[n], b.v[n])
        else:
            out.v[n] = None
    return out


def _subexprs(e):
    yield e
    for x in e[1:]:
        if isinstance(x, tuple):
            yield from _subexprs(x)


class GiveUp(Exception):
    pass


class Interp:
    def __init__(self, fname, on_call=None, macros=None):
        self.fname = fname
        self.macros = macros     # function-like macros that are expanded inside conditions: name -> (params, body text)
        self.depth = 0
        self.problems = {}       # key -> message
        self.checked = 0
        self.unmodelled = set()
        self.on_call = on_call
        self.pending = {}        # label -> Env
        self.labels_seen = set()

    # ------------------------------------------------------------------ arithmetic with the obligation
    def arith(self, op, a, b, e):
        if a is None or b is None:
            if (a is not None and a.t) or (b is not None and b.t):
                self.unmodelled.add(X.c_text(e))
            return None
        kinds = {a.kind, b.kind} - {'lit'}
        kind = 'ssize' if 'ssize' in kinds else ('int' if kinds else 'lit')
        if op == '+':
            lo, hi = a.lo + b.lo, a.hi + b.hi
        elif op == '-':
            lo, hi = a.lo - b.hi, a.hi - b.lo
        else:
            c = [a.lo * b.lo, a.lo * b.hi, a.hi * b.lo, a.hi * b.hi]
            lo, hi = min(c), max(c)
        t = a.t or b.t
        if kind == 'lit':
            return V(lo, hi, t, 'lit')
        tlo, thi = RANGE[kind]
        if t:
            self.checked += 1
            if lo < tlo or hi > thi:
                key = '%s: %s' % (self.fname, X.c_text(e))
                self.problems.setdefault(key, (
                    '%s evaluates `%s` with a caller-supplied index: left operand in %r, right operand in %r, so the result can be anything in [%s, %s] '
                    'and leaves the range of the C type (signed overflow: undefined behaviour; the wrapped value passes or fails the following bounds '
                    'test wrongly and the helper reads outside the object or returns a wrong result where CPython just answers False / an empty slice)'
                    % (self.fname, X.c_text(e), a, b, _b(lo), _b(hi))))
        return V(max(lo, tlo), min(hi, thi), t, kind)

    # ------------------------------------------------------------------ expressions
    def ev(self, e, env):
        """value of e in env (env is updated by side effects); V or None"""
        k = e[0]
        if k == 'num':
            return None if e[1] is None else V(e[1], e[1], False, 'lit')
        if k == 'id':
            if e[1] in CONSTS:
                return V(CONSTS[e[1]], CONSTS[e[1]], False, 'lit')
            return env.v.get(e[1])
        if k == 'call':
            if e[1][0] == 'id' and e[1][1] in WRAP and len(e[2]) == 1:
                return self.ev(e[2][0], env)
            return self.call(e, env)
        if k == 'cast':
            v = self.ev(e[2], env)
            tk = type_kind(e[1])
            if tk == 'ssize':
                if v is None:
                    return size_value()
                return V(v.lo, v.hi, v.t, 'ssize')
            if tk == 'int' and v is not None:
                lo, hi = RANGE['int']
                if v.lo >= lo and v.hi <= hi:
                    return V(v.lo, v.hi, v.t, 'int')
                return V(lo, hi, v.t, 'int')
            return None
        if k == 'bin':
            op = e[1]
            if op in CMP or op in ('&&', '||') or (op in ('|', '&') and self.boolish(e[2]) and self.boolish(e[3])):
                self.cond(e, env)
                return V(0, 1, False, 'int')
            a, b = self.ev(e[2], env), self.ev(e[3], env)
            if op in ('+', '-', '*'):
                v = self.arith(op, a, b, e)
                known = env.v.get('$' + X.c_text(e))
                if v is not None and known is not None and max(v.lo, known.lo) <= min(v.hi, known.hi):
                    v = V(max(v.lo, known.lo), min(v.hi, known.hi), v.t, v.kind)
                return v
            if (a is not None and a.t) or (b is not None and b.t):
                if op in ('/', '%', '>>') and a is not None and b is not None and b.lo > 0 and a.lo >= 0:
                    return V(0, a.hi, a.t, a.kind if a.kind != 'lit' else b.kind)
                self.unmodelled.add(X.c_text(e))
            return None
        if k == 'un':
            op = e[1]
            if op == '!':
                self.cond(e[2], env)
                return V(0, 1, False, 'int')
            if op == '-':
                v = self.ev(e[2], env)
                return self.arith('-', V(0, 0, False, 'lit'), v, e) if v is not None else None
            if op == '+':
                return self.ev(e[2], env)
            if op in ('++', '--'):
                return self.incr(e[2], op, env, e, post=False)
            if op == '*' and e[2][0] == 'id':
                return env.v.get('*' + e[2][1])
            self.ev(e[2], env) if op != '&' else None
            return None
        if k == 'post':
            return self.incr(e[2], e[1], env, e, post=True)
        if k == 'tern':
            t, f = self.cond(e[1], env)
            a = self.ev(e[2], t) if t is not None else None
            b = self.ev(e[3], f) if f is not None else None
            j = join_env(t, f)
            if j is not None:
                env.v, env.k = j.v, j.k
            if t is None:
                return b
            if f is None:
                return a
            return join_v(a, b)
        if k == 'assign':
            return self.assign(e, env)
        if k == 'comma':
            self.ev(e[1], env)
            return self.ev(e[2], env)
        if k == 'idx':
            self.ev(e[1], env)
            self.ev(e[2], env)
            return None
        if k == 'mem':
            return None
        return None

    def boolish(self, e):
        e = X.strip_wrappers(e)
        return (e[0] == 'bin' and (e[1] in CMP or e[1] in ('&&', '||'))) or (e[0] == 'un' and e[1] == '!')

    def incr(self, target, op, env, e, post):
        if target[0] != 'id':
            self.ev(target, env)
            return None
        old = env.v.get(target[1])
        if old is None:
            return None
        new = self.arith('+' if op == '++' else '-', old, V(1, 1, False, 'lit'), e)
        env.v[target[1]] = new
        return old if post else new

    def store(self, name, v, env):
        bare = name.lstrip('*')
        for key in [k for k in env.v if k.startswith('$') and re.search(r'\b%s\b' % re.escape(bare), k)]:
            del env.v[key]
        kind = env.k.get(name)
        if kind in ('ssize', 'int'):
            if v is None:
                v = size_value() if kind == 'ssize' else None
            elif v.kind != kind:
                lo, hi = RANGE[kind]
                v = V(max(v.lo, lo), min(v.hi, hi), v.t, kind) if (v.lo >= lo and v.hi <= hi) or v.kind == 'lit' else V(lo, hi, v.t, kind)
            env.v[name] = v
        else:
            env.v[name] = None

    def assign(self, e, env):
        op, l, r = e[1], e[2], e[3]
        rv = self.ev(r, env)
        if l[0] == 'un' and l[1] == '*' and l[2][0] == 'id':
            name = '*' + l[2][1]
            if name not in env.k:
                return None
        elif l[0] == 'id':
            name = l[1]
        else:
            self.ev(l, env)
            return None
        if op == '=':
            self.store(name, rv, env)
            return env.v.get(name)
        if env.k.get(name) not in ('ssize', 'int'):
            env.v[name] = None
            return None
        old = env.v.get(name)
        if op in ('+=', '-=', '*='):
            if old is None:
                old = size_value() if env.k[name] == 'ssize' else None
            nv = self.arith(op[0], old, rv, ('bin', op[0], l, r))
            self.store(name, nv, env)
            return env.v.get(name)
        if (old is not None and old.t) or (rv is not None and rv.t):
            self.unmodelled.add(X.c_text(e))
        env.v[name] = None
        self.store(name, None, env)
        return env.v.get(name)

    def call(self, e, env):
        vals = []
        outs = []
        for a in e[2]:
            s = X.strip_wrappers(a)
            if s[0] == 'un' and s[1] == '&' and s[2][0] == 'id':
                outs.append(s[2][1])
                vals.append(('&', env.v.get(s[2][1]), env.k.get(s[2][1])))
            else:
                vals.append(('v', self.ev(a, env), None))
        name = e[1][1] if e[1][0] == 'id' else None
        if self.on_call is not None and name:
            self.on_call(name, vals)
        for n in outs:
            kind = env.k.get(n)
            old = env.v.get(n)
            if kind in ('ssize', 'int'):
                env.v[n] = any_index(kind) if (old is not None and old.t) else (size_value() if kind == 'ssize' else None)
            else:
                env.v[n] = None
        return None

    # ------------------------------------------------------------------ conditions: (env if true, env if false); None = unreachable
    def cond(self, e, env):
        e0 = e
        while e0[0] == 'call' and e0[1][0] == 'id' and e0[1][1] in WRAP and len(e0[2]) == 1:
            e0 = e0[2][0]
        e = e0
        if e[0] == 'un' and e[1] == '!':
            t, f = self.cond(e[2], env)
            return f, t
        if e[0] == 'bin' and e[1] in ('&&', '||'):
            logical_and = e[1] == '&&'
            t1, f1 = self.cond(e[2], env)
            nxt = t1 if logical_and else f1
            if nxt is None:
                return (None, f1) if logical_and else (t1, None)
            t2, f2 = self.cond(e[3], nxt)
            if logical_and:
                return t2, join_env(f1, f2)
            return join_env(t1, t2), f2
        if e[0] == 'bin' and e[1] in ('&', '|') and (self.boolish(e[2]) or self.boolish(e[3])):
            # both operands are always evaluated (obligations in the unrefined state); (a & b) != 0 implies a != 0 and b != 0, (a | b) == 0 implies
            # a == 0 and b == 0 for any integers; the other outcome is only refined when both operands are 0 / 1 valued
            both = self.boolish(e[2]) and self.boolish(e[3])
            t1, f1 = self.cond(e[2], env)
            self.cond(e[3], env.copy())
            if e[1] == '&':
                t2, f2 = self.cond(e[3], t1) if t1 is not None else (None, None)
                return t2, (join_env(f1, f2) if both else env.copy())
            t2, f2 = self.cond(e[3], f1) if f1 is not None else (None, None)
            return (join_env(t1, t2) if both else env.copy()), f2
        if e[0] == 'call' and e[1][0] == 'id' and self.macros is not None and e[1][1] in self.macros and self.depth < 4:
            params, body = self.macros[e[1][1]]          # body: expression tree of a one-expression macro / `return expr;` function
            if len(params) == len(e[2]):
                sub = _subst(body, dict(zip(params, e[2])))
                self.depth += 1
                try:
                    return self.cond(sub, env)
                finally:
                    self.depth -= 1
        if e[0] == 'bin' and e[1] == '>' and self.unsigned_cast(e[2]) and self.unsigned_cast(e[3]):
            e = ('bin', '<', e[3], e[2])          # (size_t)b > (size_t)a  is  (size_t)a < (size_t)b
        if e[0] == 'bin' and e[1] == '<' and self.unsigned_cast(e[2]) and self.unsigned_cast(e[3]):
            # (size_t)a < (size_t)b with b >= 0  <=>  0 <= a < b
            work = env.copy()
            ia, ib = X.strip_wrappers(e[2]), X.strip_wrappers(e[3])
            a, b = self.ev(ia, work), self.ev(ib, work)
            t, f = work.copy(), work.copy()
            if a is not None and b is not None and b.lo >= 0:
                la, lb = self.lvalue(ia), self.lvalue(ib)
                t = self.refine(t, '>=', la, a, None, V(0, 0, False, 'lit'))
                if t is not None:
                    a2 = V(max(a.lo, 0), a.hi, a.t, a.kind)
                    t = self.refine(t, '<', la, a2, lb, b)
            return t, f
        if e[0] == 'bin' and e[1] in CMP:
            work = env.copy()
            a, b = self.ev(e[2], work), self.ev(e[3], work)
            t, f = work.copy(), work.copy()
            if a is None or b is None:
                return t, f
            la, lb = self.lvalue(e[2]) or self.exprkey(e[2], work), self.lvalue(e[3]) or self.exprkey(e[3], work)
            for key, val in ((la, a), (lb, b)):
                if key is not None and key.startswith('$'):
                    t.v[key] = f.v[key] = val
            t = self.refine(t, e[1], la, a, lb, b)
            f = self.refine(f, {'<': '>=', '<=': '>', '>': '<=', '>=': '<', '==': '!=', '!=': '=='}[e[1]], la, a, lb, b)
            return t, f
        work = env.copy()
        v = self.ev(e, work)
        t, f = work.copy(), work.copy()
        lv = self.lvalue(e)
        if v is not None and lv is not None:
            zero = V(0, 0, False, 'lit')
            t = self.refine(t, '!=', lv, v, None, zero)
            f = self.refine(f, '==', lv, v, None, zero)
        elif v is not None:
            if v.lo > 0 or v.hi < 0:
                f = None
            elif v.lo == 0 and v.hi == 0:
                t = None
        return t, f

    def unsigned_cast(self, e):
        while e[0] == 'call' and e[1][0] == 'id' and e[1][1] in WRAP and len(e[2]) == 1:
            e = e[2][0]
        return e[0] == 'cast' and type_kind(e[1]) == 'other' and re.search(r'\b(size_t|unsigned)\b', e[1]) is not None and '*' not in e[1]

    def exprkey(self, e, env):
        """pseudo-variable for a pure arithmetic expression over variables, so that a comparison can refine its value until an operand is assigned"""
        e = X.strip_wrappers(e)
        if e[0] == 'bin' and e[1] in ('+', '-', '*') and all(x[0] in ('id', 'num', 'bin', 'cast') and (x[0] != 'bin' or x[1] in ('+', '-', '*')) for x in _subexprs(e)):
            return '$' + X.c_text(e)
        return None

    def lvalue(self, e):
        e = X.strip_wrappers(e)
        if e[0] == 'id' and e[1] not in CONSTS:
            return e[1]
        if e[0] == 'assign' and e[2][0] == 'id':
            return e[2][1]
        return None

    def refine(self, env, op, la, a, lb, b):
        """env under `a op b`; None when infeasible"""
        alo, ahi, blo, bhi = a.lo, a.hi, b.lo, b.hi
        if op == '<':
            ahi, blo = min(ahi, bhi - 1), max(blo, alo + 1)
        elif op == '<=':
            ahi, blo = min(ahi, bhi), max(blo, alo)
        elif op == '>':
            alo, bhi = max(alo, blo + 1), min(bhi, ahi - 1)
        elif op == '>=':
            alo, bhi = max(alo, blo), min(bhi, ahi)
        elif op == '==':
            alo = blo = max(alo, blo)
            ahi = bhi = min(ahi, bhi)
        elif op == '!=':
            if blo == bhi:
                if alo == blo:
                    alo += 1
                if ahi == blo:
                    ahi -= 1
            if alo == ahi:
                if blo == alo:
                    blo += 1
                if bhi == alo:
                    bhi -= 1
        if alo > ahi or blo > bhi:
            return None
        if la is not None and env.v.get(la) is not None:
            env.v[la] = V(alo, ahi, a.t, env.v[la].kind)
        if lb is not None and env.v.get(lb) is not None:
            env.v[lb] = V(blo, bhi, b.t, env.v[lb].kind)
        return env

    # ------------------------------------------------------------------ statements: env in -> env out (None = does not fall through)
    def run(self, s, env):
        if env is None and s[0] not in ('label', 'block', 'if'):
            return None
        k = s[0]
        if k == 'block':
            for x in s[1]:
                env = self.run(x, env)
            return env
        if k == 'decl':
            for name, init, typ in s[1]:
                env.k[name] = type_kind(typ)
                if init is not None:
                    self.store(name, self.ev(init, env), env)
                else:
                    env.v[name] = None
            return env
        if k == 'expr':
            self.ev(s[1], env)
            return env
        if k == 'return':
            if s[1] is not None:
                self.ev(s[1], env)
            return None
        if k == 'if':
            if env is None:
                # labels inside an unreachable branch may still be reached by a goto
                a = self.run(s[2], None)
                b = self.run(s[3], None) if s[3] is not None else None
                return join_env(a, b)
            t, f = self.cond(s[1], env)
            a = self.run(s[2], t)
            b = self.run(s[3], f) if s[3] is not None else f
            return join_env(a, b)
        if k == 'goto':
            if s[1] in self.labels_seen:
                raise GiveUp('backward goto %s' % s[1])
            self.pending[s[1]] = join_env(self.pending.get(s[1]), env)
            return None
        if k == 'label':
            self.labels_seen.add(s[1])
            return join_env(env, self.pending.pop(s[1], None))
        raise GiveUp('statement kind %s' % k)


def entry_env(typed, given):
    """given: {param name: V} for by-value params, {'*name': V} for pointer params; missing -> any value"""
    env = Env()
    for typ, name in typed:
        if name is None:
            continue
        tk = type_kind(typ)
        if tk in ('ssize',):
            env.k[name] = 'ssize'
            env.v[name] = given.get(name) or any_index()
        elif tk == 'int':
            env.k[name] = 'int'
            lo, hi = RANGE['int']
            env.v[name] = V(lo, hi, False, 'int')          # flags / directions: not an index
        elif tk == 'ptr-ssize':
            env.k[name] = 'other'
            env.k['*' + name] = 'ssize'
            env.v['*' + name] = given.get('*' + name) or any_index()
        else:
            env.k[name] = 'other'
            env.v[name] = None
    return env


def analyse(fname, typed, body, given, on_call=None, macros=None):
    """-> (problems {key: msg}, checked obligations, unmodelled tainted expressions); raises GiveUp / AnalysisError outside the subset"""
    problems, checked, unmodelled = {}, 0, set()
    try:
        texts = sC02._pp_texts(body)
    except sC02._FastGiveUp as e:
        raise GiveUp(str(e))
    for cfg, text in texts:
        tree = X.parse_c_function_body(text)
        it = Interp(fname, on_call, macros)
        it.run(tree, entry_env(typed, given))
        for k, m in it.problems.items():
            problems.setdefault(k, m)
        checked = max(checked, it.checked)
        unmodelled |= it.unmodelled
    return problems, checked, unmodelled


def _functions(ctx):
    """helpers with a Py_ssize_t / Py_ssize_t* parameter, plus (transitively) every function of the same files that calls one of them (those decide which
    values an internal helper receives)"""
    allf = {}
    for cname, decls in ctx.cat.decls.items():
        for d in decls:
            if d.kind != 'func' or not d.body or d.file not in FILES:
                continue
            allf.setdefault(cname, []).append((d, X.split_c_params(d.params)))
    out = {c: l for c, l in allf.items() if any(type_kind(t) in ('ssize', 'ptr-ssize') for d, typed in l for t, n in typed if n)}
    seeds = set(out)
    calls = {c: {name for d, _ in l for name, _, _ in X.c_calls_in_text(d.body)} for c, l in allf.items()}
    changed = True
    while changed:
        changed = False
        for c, l in allf.items():
            if c not in out and calls[c] & set(out):
                out[c] = l
                changed = True
    return out, seeds


def _subst(e, m):
    if not isinstance(e, tuple):
        return e
    if e[0] == 'id':
        return m.get(e[1], e)
    return tuple([_subst(y, m) for y in x] if isinstance(x, list) else (_subst(x, m) if isinstance(x, tuple) else x) for x in e)


def _macros(ctx):
    """predicates that are expanded inside conditions: function-like macros whose body is one expression and functions whose body is `return expr;`
    (all definitions of the name must agree) -> name: (parameter names, expression tree)"""
    out = {}
    for cname, decls in ctx.cat.decls.items():
        for d in decls:
            if d.kind not in ('macro', 'func') or d.params is None or not d.body or '{{' in d.body or '#' in d.body or len(d.body) > 300:
                continue
            try:
                if d.kind == 'macro':
                    params = [p.strip() for p in d.params]
                    px = X.CParser(' '.join(d.body.replace('\\\n', ' ').split()))
                    tree = px.expr()
                    if px.peek()[0] != 'eof':
                        continue
                else:
                    params = [n for t, n in X.split_c_params(d.params)]
                    blk = X.parse_c_function_body(d.body)
                    if len(blk[1]) != 1 or blk[1][0][0] != 'return' or blk[1][0][1] is None:
                        continue
                    tree = blk[1][0][1]
            except AnalysisError:
                continue
            if all(p and re.fullmatch(r'[A-Za-z_]\w*', p) for p in params):
                out.setdefault(cname, []).append((params, tree))
    return {k: v[0] for k, v in out.items() if all(x == v[0] for x in v)}


def _assigned_names(body):
    return set(re.findall(r'\b([A-Za-z_]\w*)\s*(?:[-+*/%&|^]|<<|>>)?=(?!=)', body)) | set(re.findall(r'(?:\+\+|--)\s*([A-Za-z_]\w*)', body)) \
        | set(re.findall(r'\b([A-Za-z_]\w*)\s*(?:\+\+|--)', body)) | set(re.findall(r'&\s*([A-Za-z_]\w*)', body))


def rule_idxovf(ctx, floor=45):
    r = Rule('C13-IDXOVF', 'interval interpretation (64-bit Py_ssize_t, taint from caller-supplied indices, branch refinement, callers before callees) of every utility '
             'helper with a Py_ssize_t parameter: no signed + - * on an index value can leave the range of its C type for any argument value', floor)
    funcs, seeds = _functions(ctx)
    macros = _macros(ctx)
    if not seeds:
        raise AnalysisError('C13-IDXOVF: no helper with a Py_ssize_t parameter found in %s' % (FILES,))
    # call graph among the helpers (textual), to order callers before callees
    callees = {}
    for cname, lst in funcs.items():
        cs = set()
        for d, typed in lst:
            for name, args, _ in X.c_calls_in_text(d.body):
                if name in funcs and name != cname:
                    cs.add(name)
        callees[cname] = cs
    callers = {c: set() for c in funcs}
    for c, cs in callees.items():
        for x in cs:
            callers[x].add(c)
    order, done, visiting = [], set(), set()
    cyclic = set()

    def visit(c):
        if c in done:
            return
        if c in visiting:
            cyclic.add(c)
            return
        visiting.add(c)
        for p in sorted(callers[c]):
            visit(p)
        visiting.discard(c)
        done.add(c)
        order.append(c)
    for c in sorted(funcs):
        visit(c)

    passed = {}          # callee -> {param key: V}  joined over call sites; 'ANY' marks "any value"

    def record(callee, vals):
        if callee not in funcs:
            return
        d, typed = funcs[callee][0]
        slot = passed.setdefault(callee, {})
        for (typ, pname), (mode, v, kind) in zip(typed, vals):
            if pname is None:
                continue
            tk = type_kind(typ)
            if tk == 'ssize':
                key = pname
                val = v if (mode == 'v' and v is not None) else (size_value() if mode == 'v' else any_index())
                if val.kind == 'lit':
                    val = V(val.lo, val.hi, val.t, 'ssize')
            elif tk == 'ptr-ssize':
                key = '*' + pname
                val = v if (mode == '&' and v is not None) else (size_value() if (mode == '&' and kind == 'ssize') else any_index())
            else:
                continue
            slot[key] = join_v(slot[key], val) if key in slot else val

    total_problems = {}
    for cname in order:
        for d, typed in funcs[cname]:
            given = {}
            if callers[cname] and cname not in cyclic and cname in passed:
                given = dict(passed[cname])
            rel = 'Cython/Utility/' + d.file
            if '{{' in d.body or '{{' in cname:
                r.info('%s (%s): templated body, not interpreted' % (cname, d.file))
                continue
            try:
                problems, checked, unmodelled = analyse(cname, typed, d.body, given, on_call=record, macros=macros)
            except (GiveUp, AnalysisError) as e:
                if cname in seeds:
                    r.info('%s (%s): outside the interpreted C subset (%s); its parameters are forwarded to the helpers it calls' % (cname, d.file, e))
                own = {n: (given.get(n) or any_index()) for t, n in typed if n and type_kind(t) == 'ssize'}
                written = _assigned_names(d.body)
                for name, args, _ in X.c_calls_in_text(d.body):
                    if name not in funcs or name == cname:
                        continue
                    vals = []
                    for a in args:
                        b = X.bare_c_ident(a)
                        if b in own and b not in written and not a.strip().startswith('&'):
                            vals.append(('v', own[b], None))
                        elif re.fullmatch(r'\s*-?\d+\s*', a):
                            vals.append(('v', V(int(a), int(a), False, 'ssize'), None))
                        else:
                            vals.append(('&', any_index(), None) if a.strip().startswith('&') else ('v', any_index(), None))
                    record(name, vals)
                continue
            if cname not in seeds:
                continue
            r.inst(cname, sample='%s: %d index operations inside the range of their type' % (cname, checked), nontrivial=checked > 0)
            for u in sorted(unmodelled)[:3]:
                r.info('%s: `%s` combines an index with a value the interval domain does not model; not decided' % (cname, u))
            for key, msg in problems.items():
                if key not in total_problems:
                    total_problems[key] = 1
                    r.violate(key, rel, d.line, msg)
    # embedded positive example: the unchecked addition in a bounds test
    typed = [('PyObject *', 'self'), ('Py_ssize_t', 'start'), ('Py_ssize_t', 'end')]
    pc = ('{ Py_ssize_t n, m; char *p; n = PyBytes_GET_SIZE(self); m = view.len; if (end > n) end = n; else if (end < 0) end += n; if (end < 0) end = 0; '
          'if (start < 0) start += n; if (start < 0) start = 0; if (start + m <= end) return !memcmp(p + start, q, (size_t)m); return 0; }')
    probs, _, _ = analyse('pc', typed, pc, {})
    ok_text = pc.replace('start + m <= end', 'start <= end && m <= end - start')
    probs_ok, _, _ = analyse('pc', typed, ok_text, {})
    r.positive_control(bool(probs) and not probs_ok, 'an unchecked `start + len <= end` is reported, the subtraction form is not')
    return r
