"""C09-B32: the digit-level encoding of big integer constants (GlobalState to_base32 -> PyLong_FromString(.., 32)).

Decided by abstract interpretation of the encoder over a finite sign domain (number in {<0, 0, >0}) — the function is never run:
  SIGN   for a negative input every returned byte string starts with '-', for a positive one none does; 0 encodes as b'0'
  ORDER  digits are produced least-significant first (mask/shift loop) and reversed exactly once before they are returned
  TERM   the mask/shift loop only ever sees a non-negative value (a negative one never reaches 0 under >>)
  RADIX  mask == 2**shift - 1, the alphabet has 2**shift characters and equals int()/PyLong_FromString's digit order, and the
         decoder call names base 2**shift."""
import ast, re

from ..core import Rule, AnalysisError
from ..engine import tables

NEG, ZERO, POS = '-', '0', '+'
TOP = ('top',)


class Unproven(Exception):
    pass


def I(*s):
    return ('int', frozenset(s))


def B(*s):
    return ('bool', frozenset(s))


def truth(v):
    k = v[0]
    if k == 'int':
        return frozenset(x != ZERO for x in v[1])
    if k == 'bool':
        return v[1]
    if k == 'seq':
        return frozenset([v[1] != 'e']) if v[1] in 'en' else frozenset([True, False])
    if k == 'const':
        return frozenset([bool(v[1])])
    return frozenset([True, False])


class SignInterp:
    """Path-forking interpreter; a state is a dict name -> abstract value. seq value: ('seq', emptiness e|n, first_minus, last_minus, order)"""

    def __init__(self, fn):
        self.fn = fn
        self.returns = []      # (state, value)
        self.notes = []        # (kind, lineno, text)
        self.steps = 0

    def ev(self, n, env):
        if isinstance(n, ast.Constant):
            v = n.value
            if isinstance(v, bool):
                return B(v)
            if isinstance(v, int):
                return I(NEG if v < 0 else POS if v > 0 else ZERO)
            if isinstance(v, bytes):
                return ('const', v)
            return TOP
        if isinstance(n, ast.Name):
            return env.get(n.id, TOP)
        if isinstance(n, ast.UnaryOp):
            v = self.ev(n.operand, env)
            if isinstance(n.op, ast.USub) and v[0] == 'int':
                return ('int', frozenset({NEG: POS, POS: NEG, ZERO: ZERO}[x] for x in v[1]))
            if isinstance(n.op, ast.Not):
                return ('bool', frozenset(not t for t in truth(v)))
            return TOP
        if isinstance(n, ast.Compare) and len(n.ops) == 1:
            a, b = self.ev(n.left, env), self.ev(n.comparators[0], env)
            if a[0] == 'int' and b[0] == 'int' and b[1] == frozenset([ZERO]):
                op = type(n.ops[0])
                tab = {ast.Lt: {NEG}, ast.LtE: {NEG, ZERO}, ast.Gt: {POS}, ast.GtE: {POS, ZERO}, ast.Eq: {ZERO}, ast.NotEq: {NEG, POS}}
                if op in tab:
                    return ('bool', frozenset(x in tab[op] for x in a[1]))
            return B(True, False)
        if isinstance(n, ast.BinOp):
            a, b = self.ev(n.left, env), self.ev(n.right, env)
            if a[0] == 'int' and b[0] == 'int':
                if isinstance(n.op, ast.BitAnd) and (NEG not in b[1] or NEG not in a[1]):
                    return I(ZERO, POS)
                if isinstance(n.op, (ast.RShift, ast.FloorDiv)) and b[1] == frozenset([POS]):
                    out = set()
                    for x in a[1]:
                        out |= {NEG} if x == NEG else {ZERO} if x == ZERO else {ZERO, POS}
                    if NEG in a[1]:
                        self.notes.append(('shift-neg', n.lineno, ast.unparse(n)))
                    return ('int', frozenset(out))
                if isinstance(n.op, ast.Mod) and b[1] == frozenset([POS]):
                    return I(ZERO, POS)
            return TOP if not (a[0] == 'int' and b[0] == 'int') else I(NEG, ZERO, POS)
        if isinstance(n, ast.Call):
            f = n.func
            if isinstance(f, ast.Name) and f.id == 'abs' and len(n.args) == 1:
                v = self.ev(n.args[0], env)
                if v[0] == 'int':
                    return ('int', frozenset(POS if x != ZERO else ZERO for x in v[1]))
            if isinstance(f, ast.Name) and f.id in ('bytearray', 'list') and not n.args:
                return ('seq', 'e', False, False, 'none')
            if isinstance(f, ast.Name) and f.id == 'ord' and len(n.args) == 1:
                v = self.ev(n.args[0], env)
                if v[0] == 'const' and len(v[1]) == 1:
                    return ('char', v[1])
            if isinstance(f, ast.Name) and f.id in ('bytes', 'bytearray') and len(n.args) == 1:
                return self.ev(n.args[0], env)
            return TOP
        if isinstance(n, ast.Subscript):
            v = self.ev(n.value, env)
            if v[0] == 'const' and len(v[1]) > 1:
                return ('char', b'd')       # a digit character of the alphabet
            return TOP
        return TOP

    # --- statements
    def run(self, env):
        self.block(self.fn.body, [env])

    def block(self, stmts, envs):
        for s in stmts:
            nxt = []
            for e in envs:
                nxt.extend(self.stmt(s, e))
            envs = self.dedup(nxt)
            if not envs:
                break
        return envs

    @staticmethod
    def dedup(envs):
        seen, out = set(), []
        for e in envs:
            k = tuple(sorted(e.items()))
            if k not in seen:
                seen.add(k)
                out.append(e)
        return out

    def branch(self, test, env):
        """-> (envs where test is true, envs where it is false), refining a tested name"""
        tv = truth(self.ev(test, env))
        t_envs, f_envs = [], []
        name, pos_truth = None, True
        t = test
        if isinstance(t, ast.UnaryOp) and isinstance(t.op, ast.Not):
            t, pos_truth = t.operand, False
        if isinstance(t, ast.Name):
            name = t.id
        for want in (True, False):
            if want not in tv:
                continue
            e = dict(env)
            if name is not None:
                v = env.get(name, TOP)
                holds = want if pos_truth else not want        # truthiness of the name on this branch
                if v[0] == 'int':
                    keep = frozenset(x for x in v[1] if (x != ZERO) == holds)
                    if not keep:
                        continue
                    e[name] = ('int', keep)
                elif v[0] == 'seq' and v[1] in 'en':
                    if (v[1] != 'e') != holds:
                        continue
            elif isinstance(t, ast.Compare) and isinstance(t.left, ast.Name) and len(t.ops) == 1:
                v = env.get(t.left.id, TOP)
                if v[0] == 'int':
                    keep = set()
                    for x in v[1]:
                        e1 = dict(env)
                        e1[t.left.id] = I(x)
                        if (want if pos_truth else not want) in truth(self.ev(t, e1)):
                            keep.add(x)
                    if not keep:
                        continue
                    e[t.left.id] = ('int', frozenset(keep))
            (t_envs if want else f_envs).append(e)
        return t_envs, f_envs

    def stmt(self, s, env):
        self.steps += 1
        if self.steps > 20000:
            raise Unproven('state explosion')
        if isinstance(s, (ast.Assign, ast.AnnAssign)):
            tg = s.targets[0] if isinstance(s, ast.Assign) else s.target
            if s.value is None:
                return [env]
            if not isinstance(tg, ast.Name):
                raise Unproven('assignment to %s' % ast.unparse(tg))
            e = dict(env)
            e[tg.id] = self.ev(s.value, env)
            return [e]
        if isinstance(s, ast.AugAssign) and isinstance(s.target, ast.Name):
            e = dict(env)
            e[s.target.id] = self.ev(ast.copy_location(ast.BinOp(ast.Name(s.target.id, ast.Load()), s.op, s.value), s), env)
            return [e]
        if isinstance(s, ast.If):
            t, f = self.branch(s.test, env)
            return self.block(s.body, t) + self.block(s.orelse, f)
        if isinstance(s, ast.While):
            seen, work, exits = set(), [env], []
            while work:
                e = work.pop()
                k = tuple(sorted(e.items()))
                if k in seen:
                    continue
                seen.add(k)
                tv = self.ev(s.test, e)
                if tv[0] == 'int' and NEG in tv[1]:
                    self.notes.append(('loop-neg', s.lineno, ast.unparse(s.test)))
                t, f = self.branch(s.test, e)
                exits.extend(f)
                work.extend(self.block(s.body, t))
            return self.dedup(exits)
        if isinstance(s, ast.Return):
            self.returns.append((env, self.ev(s.value, env) if s.value is not None else TOP, s.lineno))
            return []
        if isinstance(s, ast.Expr) and isinstance(s.value, ast.Call) and isinstance(s.value.func, ast.Attribute) and isinstance(s.value.func.value, ast.Name):
            c = s.value
            name = c.func.value.id
            v = env.get(name, TOP)
            if v[0] != 'seq':
                raise Unproven('method call on %s' % name)
            _, emp, first, last, order = v
            meth = c.func.attr
            e = dict(env)
            if meth == 'append' and len(c.args) == 1:
                a = self.ev(c.args[0], env)
                if a[0] != 'char':
                    raise Unproven('append of %s' % ast.unparse(c.args[0]))
                minus = a[1] == b'-'
                e[name] = ('seq', 'n', minus if emp == 'e' else first, minus, order if minus else ('lsb' if order in ('none', 'lsb') else 'mixed'))
                return [e]
            if meth == 'insert' and len(c.args) == 2 and tables.literal(c.args[0]) == 0:
                a = self.ev(c.args[1], env)
                if a[0] != 'char':
                    raise Unproven('insert of %s' % ast.unparse(c.args[1]))
                minus = a[1] == b'-'
                e[name] = ('seq', 'n', minus, minus if emp == 'e' else last, order if minus else ('msb' if order in ('none', 'msb') else 'mixed'))
                return [e]
            if meth == 'reverse' and not c.args:
                e[name] = ('seq', emp, last, first, {'lsb': 'msb', 'msb': 'lsb'}.get(order, order))
                return [e]
            raise Unproven('unsupported call %s' % ast.unparse(c))
        if isinstance(s, (ast.Pass,)) or (isinstance(s, ast.Expr) and isinstance(s.value, ast.Constant)):
            return [env]
        raise Unproven('unsupported statement %s' % type(s).__name__)


def find_encoder(ctx):
    tree = ctx.parse('Cython/Compiler/Code.py')
    for n in ast.walk(tree):
        if isinstance(n, ast.FunctionDef) and n.name == 'to_base32':
            return n
    raise AnalysisError('Code.py: to_base32 (big integer constant encoder) not found')


def analyse(fn):
    """-> list of (input sign, problem text, lineno)"""
    probs = []
    if len(fn.args.args) != 1:
        raise AnalysisError('to_base32 takes %d parameters' % len(fn.args.args))
    p = fn.args.args[0].arg
    for sign in (NEG, ZERO, POS):
        it = SignInterp(fn)
        it.run({p: I(sign)})
        hangs = sorted(set((line, text) for kind, line, text in it.notes if kind == 'loop-neg'))
        for line, text in hangs:
            probs.append((sign, 'the digit loop `while %s` runs on a negative value, which never becomes 0 under >>: the compiler hangs' % text, line))
        if not it.returns and not hangs:
            raise Unproven('no return reached for input sign %s' % sign)
        for env, v, line in it.returns:
            if v[0] == 'const':
                if sign != ZERO or v[1] != b'0':
                    probs.append((sign, 'returns the constant %r for a %s input' % (v[1], {NEG: 'negative', POS: 'positive', ZERO: 'zero'}[sign]), line))
                continue
            if v[0] != 'seq':
                raise Unproven('return value of unknown shape at line %d' % line)
            _, emp, first, last, order = v
            if emp != 'n':
                probs.append((sign, 'may return an empty digit string', line))
            if sign == NEG and not first:
                probs.append((sign, 'the string returned for a negative number does not start with "-": the sign is lost (-N is stored as N)', line))
            if sign != NEG and (first or last):
                probs.append((sign, 'a "-" is emitted for a non-negative number', line))
            if sign == NEG and last:
                probs.append((sign, 'the "-" ends up at the end of the digit string', line))
            if order != 'msb':
                probs.append((sign, 'digits are returned in %s order; PyLong_FromString expects the most significant digit first' % order, line))
    return probs


def radix_facts(fn):
    masks, shifts, alph = set(), set(), set()
    for n in ast.walk(fn):
        if isinstance(n, ast.BinOp) and isinstance(n.op, ast.BitAnd) and isinstance(n.right, ast.Constant):
            masks.add(n.right.value)
        if isinstance(n, (ast.AugAssign, ast.BinOp)) and isinstance(n.op, ast.RShift):
            v = n.value if isinstance(n, ast.AugAssign) else n.right
            if isinstance(v, ast.Constant):
                shifts.add(v.value)
        if isinstance(n, ast.Subscript) and isinstance(n.value, ast.Constant) and isinstance(n.value.value, bytes):
            alph.add(n.value.value)
    return masks, shifts, alph


def rule_b32(ctx, floor=6):
    r = Rule('C09-B32', 'big integer constants: the base-32 text encoder keeps sign, digit order and radix in agreement with the PyLong_FromString(.., 32) decoder '
             '(abstract interpretation over the sign domain; nothing is executed)', floor)
    rel = 'Cython/Compiler/Code.py'
    fn = find_encoder(ctx)
    try:
        probs = analyse(fn)
    except Unproven as e:
        raise AnalysisError('to_base32 uses a construct the sign interpreter does not model (%s) — the obligation is unproven, not violated' % e)
    for sign, what in ((NEG, 'negative'), (ZERO, 'zero'), (POS, 'positive')):
        key = 'Code.GlobalState.to_base32:%s' % what
        r.inst(key, sample='%s input: sign/order/termination obligations' % what)
        for s, msg, line in probs:
            if s == sign:
                r.violate(key, rel, line, 'to_base32(%s number): %s' % (what, msg))
    masks, shifts, alph = radix_facts(fn)
    key = 'Code.GlobalState.to_base32:radix'
    r.inst(key, sample='mask %s shift %s alphabet %s' % (sorted(masks), sorted(shifts), sorted(alph)))
    if len(masks) != 1 or len(shifts) != 1 or len(alph) != 1:
        raise AnalysisError('to_base32: expected one mask, one shift and one alphabet, found %s %s %s' % (masks, shifts, alph))
    mask, shift, alphabet = masks.pop(), shifts.pop(), alph.pop()
    if mask != (1 << shift) - 1:
        r.violate(key, rel, fn.lineno, 'digit mask %d does not match the shift %d (expected %d)' % (mask, shift, (1 << shift) - 1))
    ref = b'0123456789abcdefghijklmnopqrstuvwxyz'[:1 << shift]       # digit values of int(s, base) / PyLong_FromString
    if alphabet.lower() != ref:
        r.violate(key, rel, fn.lineno, 'digit alphabet %r is not the first %d digits of the int() alphabet %r' % (alphabet, 1 << shift, ref))
    # decoder base: PyLong_FromString(..., <base>) emitted in the same function that defines to_base32
    src = ctx.read(rel)
    bases = set(int(b) for b in re.findall(r'PyLong_FromString\(\s*c_constant\s*,\s*&end_pos\s*,\s*(\d+)\s*\)', src))
    key = 'Code.GlobalState.to_base32:decoder-base'
    r.inst(key, sample='decoder bases %s' % sorted(bases))
    if not bases:
        raise AnalysisError('decoder call PyLong_FromString(c_constant, &end_pos, BASE) not found')
    if bases != {1 << shift}:
        r.violate(key, rel, fn.lineno, 'decoder reads base %s but the encoder writes base %d' % (sorted(bases), 1 << shift))
    # separator: joined with an escaped NUL, decoder advances one past end_pos
    key = 'Code.GlobalState.to_base32:separator'
    r.inst(key, sample='NUL-joined, c_constant = end_pos + 1')
    if "b'\\\\000'.join" not in src or 'c_constant = end_pos + 1;' not in src:
        r.info('separator idiom changed (not an error by itself)')
    key = 'Code.GlobalState.to_base32:termination'
    r.inst(key, sample='digit loop runs on non-negative values only')
    # positive controls: the sign lost behind a dead test; a missing reverse
    bad1 = ast.parse("def to_base32(number):\n    if not number:\n        return b'0'\n    digits = bytearray()\n    magnitude = abs(number)\n    while magnitude:\n"
                     "        digit = magnitude & 31\n        digits.append(b'0123456789abcdefghijklmnopqrstuv'[digit])\n        magnitude >>= 5\n"
                     "    if magnitude < 0:\n        digits.append(ord(b'-'))\n    digits.reverse()\n    return digits\n").body[0]
    bad2 = ast.parse("def to_base32(number):\n    digits = bytearray()\n    while number:\n        digits.append(b'0123456789abcdefghijklmnopqrstuv'[number & 31])\n        number >>= 5\n    return digits\n").body[0]
    p1, p2 = analyse(bad1), analyse(bad2)
    r.positive_control(any(s == NEG and 'sign is lost' in m for s, m, _ in p1) and not any(s == POS for s, m, _ in p1) and
                       any('hangs' in m for s, m, _ in p2) and any('order' in m for s, m, _ in p2) and any('empty' in m for s, m, _ in p2),
                       'dead sign test / negative loop / missing reverse are reported')
    return r
