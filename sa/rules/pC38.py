"""C38 helpers: a static model of the module namespace that executing Cython/Shadow.py creates.

Nothing is executed.  The module body is walked once in statement order:
  * plain bindings (def/class/import/assignment/annotated assignment with a value/for targets), `del`;
  * `if TYPE_CHECKING:` bodies are skipped (the name is False at run time), other compound statements are
    walked as "may execute" (their bindings count, their `del`s do not) so that the model never reports a
    name missing that some path binds;
  * stores through an alias of `globals()` (`gs[...] = ...`): the key expression is evaluated over finite sets
    (string constants, f-strings, `+`, `*`, conditional expressions, loop variables that range over literal
    lists / tuples / `range(...)`), giving a superset of the dynamically created names;
  * `sys.modules['cython.x'] = value` registrations;
  * attribute stores on module-level objects (`embedsignature.format = ...`).
Values are resolved eagerly (at the time of the binding) to small object descriptors so that `a.b.c` can be
looked up: class objects, instances of module-level classes (class body names, base classes, `self.x` stores,
`__getattr__` = anything), functions/lambdas (only explicitly stored attributes).
"""
import ast, itertools

from ..core import AnalysisError

MAYBE = 'maybe'          # lookup result: cannot be decided statically
LIMIT = 20000            # size cap of finite-set evaluation


class Obj:
    """Descriptor of a run-time object bound in the Shadow namespace."""
    __slots__ = ('kind', 'node', 'cls', 'extra', 'line')

    def __init__(self, kind, node=None, cls=None, line=0):
        self.kind, self.node, self.cls, self.line = kind, node, cls, line
        self.extra = {}      # attribute name -> Obj (explicit attribute stores on this object)

    def __repr__(self):
        return '<%s %s>' % (self.kind, getattr(self.node, 'name', '') or (self.cls.node.name if self.cls else ''))


class ClassObj(Obj):
    __slots__ = ('bases', 'members', 'self_attrs', 'unknown_base')

    def __init__(self, node, bases, unknown_base):
        Obj.__init__(self, 'class', node, None, node.lineno)
        self.bases, self.unknown_base = bases, unknown_base
        self.members = {}
        self.self_attrs = set()


class ShadowModel:
    def __init__(self, tree, rel='Cython/Shadow.py'):
        self.rel = rel
        self.ns = {}               # name -> Obj
        self.dyn = {}              # dynamically bound name -> line
        self.dyn_unresolved = []   # lines of globals()-stores whose key could not be evaluated
        self.sysmods = {}          # 'cython.x' -> (Obj, line)
        self.galias = set()        # names bound to globals()
        self.sysalias = set()      # names bound to the sys module
        self.false_names = set()   # names that are False at run time (TYPE_CHECKING)
        self.consts = {}           # name -> tuple of scalar values (module-level literal sequences)
        self.all_names = None      # literal module-level __all__ (restricts what `from Cython.Shadow import *` re-exports)
        self.all_unknown = False
        self._block(tree.body, {}, may=False)

    # ------------------------------------------------------------------ finite-set evaluation
    def scalars(self, e, env):
        """Set of possible scalar values (str/int) of expression e, or None when unknown."""
        if isinstance(e, ast.Constant) and isinstance(e.value, (str, int)) and not isinstance(e.value, bool):
            return {e.value}
        if isinstance(e, ast.Name):
            return env.get(e.id)
        if isinstance(e, ast.JoinedStr):
            parts = []
            for v in e.values:
                if isinstance(v, ast.Constant):
                    parts.append({str(v.value)})
                elif isinstance(v, ast.FormattedValue) and v.format_spec is None and v.conversion == -1:
                    s = self.scalars(v.value, env)
                    if s is None:
                        return None
                    parts.append({str(x) for x in s})
                else:
                    return None
            n = 1
            for p in parts:
                n *= len(p)
            if n > LIMIT:
                return None
            return {''.join(c) for c in itertools.product(*parts)} if parts else {''}
        if isinstance(e, ast.BinOp) and isinstance(e.op, (ast.Add, ast.Mult, ast.Sub)):
            a, b = self.scalars(e.left, env), self.scalars(e.right, env)
            if a is None or b is None or len(a) * len(b) > LIMIT:
                return None
            out = set()
            for x in a:
                for y in b:
                    try:
                        if isinstance(e.op, ast.Add):
                            out.add(x + y)
                        elif isinstance(e.op, ast.Sub):
                            out.add(x - y)
                        else:
                            v = x * y
                            if isinstance(v, str) and len(v) > 200:
                                return None
                            out.add(v)
                    except TypeError:
                        return None
            return out
        if isinstance(e, ast.IfExp):
            a, b = self.scalars(e.body, env), self.scalars(e.orelse, env)
            return None if a is None or b is None else a | b
        return None

    def sequence(self, e, env):
        """Set of values a `for` loop over e may yield, or None."""
        if isinstance(e, ast.Name):
            if e.id in self.consts:
                return set(self.consts[e.id])
            return None
        if isinstance(e, (ast.Tuple, ast.List, ast.Set)):
            out = set()
            for x in e.elts:
                s = self.scalars(x, env)
                if s is None:
                    return None
                out |= s
            return out
        if isinstance(e, ast.BinOp) and isinstance(e.op, ast.Add):
            a, b = self.sequence(e.left, env), self.sequence(e.right, env)
            return None if a is None or b is None else a | b
        if isinstance(e, ast.Call) and isinstance(e.func, ast.Name) and e.func.id == 'range' and not e.keywords:
            try:
                args = [ast.literal_eval(a) for a in e.args]
                r = range(*args)
            except Exception:
                return None
            return set(r) if len(r) <= 1000 else None
        return None

    # ------------------------------------------------------------------ value resolution
    def resolve(self, e):
        if isinstance(e, ast.Name):
            return self.ns.get(e.id) or Obj('unknown', e, line=e.lineno)
        if isinstance(e, ast.Lambda):
            return Obj('func', e, line=e.lineno)
        if isinstance(e, ast.Constant):
            return Obj('const', e, line=e.lineno)
        if isinstance(e, ast.Call):
            f = self.resolve(e.func) if isinstance(e.func, (ast.Name, ast.Attribute)) else None
            if isinstance(f, ClassObj):
                return Obj('instance', e, cls=f, line=e.lineno)
            return Obj('unknown', e, line=e.lineno)
        if isinstance(e, ast.Attribute):
            base = self.resolve(e.value)
            r = self.getattr(base, e.attr)
            if isinstance(r, Obj):
                return r
            return Obj('unknown', e, line=e.lineno)
        return Obj('unknown', e, line=getattr(e, 'lineno', 0))

    def _class_members(self, c, seen=None):
        """(members dict, has __getattr__, unknown base somewhere) along the bases of ClassObj c."""
        seen = seen if seen is not None else set()
        if id(c) in seen:
            return {}, False, False
        seen.add(id(c))
        members, wild, unk = {}, False, c.unknown_base
        for b in reversed(c.bases):
            m, w, u = self._class_members(b, seen)
            members.update(m)
            wild, unk = wild or w, unk or u
        members.update(c.members)
        members.update(c.extra)
        if '__getattr__' in c.members:
            wild = True
        return members, wild, unk

    def _self_attrs(self, c, seen=None):
        seen = seen if seen is not None else set()
        if id(c) in seen:
            return set()
        seen.add(id(c))
        out = set(c.self_attrs)
        for b in c.bases:
            out |= self._self_attrs(b, seen)
        return out

    def getattr(self, obj, attr):
        """Obj when `obj.attr` certainly exists, None when it certainly does not, MAYBE otherwise."""
        if attr in obj.extra:
            return obj.extra[attr]
        if obj.kind in ('class', 'instance'):
            c = obj if obj.kind == 'class' else obj.cls
            members, wild, unk = self._class_members(c)
            if attr in members:
                return members[attr]
            if obj.kind == 'instance' and attr in self._self_attrs(c):
                return Obj('unknown', None, line=c.line)
            if wild:
                return Obj('any', None, line=c.line)
            return MAYBE if unk else None
        if obj.kind == 'any':
            return obj
        if obj.kind == 'func':
            return None        # only explicitly stored attributes (plus function internals nobody spells)
        if obj.kind == 'const':
            return None if isinstance(obj.node, ast.Constant) and isinstance(obj.node.value, (bool, int, float, type(None))) else MAYBE
        return MAYBE

    # ------------------------------------------------------------------ statement walk
    def _bind(self, name, obj):
        self.ns[name] = obj

    def _make_class(self, node):
        bases, unknown = [], False
        for b in node.bases:
            r = self.resolve(b) if isinstance(b, (ast.Name, ast.Attribute)) else None
            if isinstance(r, ClassObj):
                bases.append(r)
            else:
                unknown = True
        c = ClassObj(node, bases, unknown)
        for s in node.body:
            if isinstance(s, (ast.FunctionDef, ast.AsyncFunctionDef)):
                c.members[s.name] = Obj('func', s, line=s.lineno)
                args = s.args.posonlyargs + s.args.args
                if args:
                    sn = args[0].arg
                    for n in ast.walk(s):
                        if isinstance(n, ast.Attribute) and isinstance(n.ctx, ast.Store) and isinstance(n.value, ast.Name) and n.value.id == sn:
                            c.self_attrs.add(n.attr)
                        elif isinstance(n, ast.Call) and isinstance(n.func, ast.Attribute) and n.func.attr == 'update' and \
                                isinstance(n.func.value, ast.Attribute) and n.func.value.attr == '__dict__':
                            c.unknown_base = True      # self.__dict__.update(...): arbitrary instance attributes
            elif isinstance(s, ast.ClassDef):
                c.members[s.name] = self._make_class(s)
            elif isinstance(s, ast.Assign):
                v = self.resolve(s.value)
                for t in s.targets:
                    for x in ast.walk(t):
                        if isinstance(x, ast.Name) and isinstance(x.ctx, ast.Store):
                            c.members[x.id] = v
            elif isinstance(s, ast.AnnAssign) and s.value is not None and isinstance(s.target, ast.Name):
                c.members[s.target.id] = self.resolve(s.value)
            elif isinstance(s, (ast.If, ast.Try, ast.With, ast.For, ast.While)):
                for n in ast.walk(s):
                    if isinstance(n, (ast.FunctionDef, ast.ClassDef)):
                        c.members.setdefault(n.name, Obj('unknown', n, line=n.lineno))
                    elif isinstance(n, ast.Name) and isinstance(n.ctx, ast.Store):
                        c.members.setdefault(n.id, Obj('unknown', n, line=n.lineno))
        return c

    def _is_false_test(self, t):
        return isinstance(t, ast.Name) and t.id in self.false_names

    def _is_true_test(self, t):
        return isinstance(t, ast.UnaryOp) and isinstance(t.op, ast.Not) and self._is_false_test(t.operand)

    def _store(self, target, value_obj, value_node, env, line):
        if isinstance(target, ast.Name):
            self._bind(target.id, value_obj)
            if target.id == '__all__':
                try:
                    self.all_names = set(ast.literal_eval(value_node))
                    self.all_unknown = False
                except Exception:
                    self.all_names, self.all_unknown = None, True
            if value_node is not None:
                if isinstance(value_node, ast.Call) and isinstance(value_node.func, ast.Name) and value_node.func.id == 'globals' and not value_node.args:
                    self.galias.add(target.id)
                else:
                    self.galias.discard(target.id)
                try:
                    lit = ast.literal_eval(value_node)
                except Exception:
                    lit = None
                if isinstance(lit, (list, tuple)) and all(isinstance(x, (str, int)) for x in lit):
                    self.consts[target.id] = tuple(lit)
                else:
                    self.consts.pop(target.id, None)
        elif isinstance(target, (ast.Tuple, ast.List)):
            for t in target.elts:
                self._store(t.value if isinstance(t, ast.Starred) else t, Obj('unknown', None, line=line), None, env, line)
        elif isinstance(target, ast.Attribute):
            base = self.resolve(target.value)
            if base.kind != 'unknown':
                base.extra[target.attr] = value_obj
        elif isinstance(target, ast.Subscript):
            v = target.value
            if isinstance(v, ast.Name) and v.id in self.galias:
                keys = self.scalars(target.slice, env)
                if keys is None:
                    self.dyn_unresolved.append(line)
                else:
                    for k in keys:
                        if isinstance(k, str):
                            self.dyn.setdefault(k, line)
            elif isinstance(v, ast.Attribute) and v.attr == 'modules' and isinstance(v.value, ast.Name) and v.value.id in self.sysalias:
                keys = self.scalars(target.slice, env)
                if keys is None:
                    self.dyn_unresolved.append(line)
                else:
                    for k in keys:
                        if isinstance(k, str):
                            self.sysmods[k] = (value_obj, line)

    def _block(self, stmts, env, may):
        for s in stmts:
            if isinstance(s, (ast.FunctionDef, ast.AsyncFunctionDef)):
                self._bind(s.name, Obj('func', s, line=s.lineno))
            elif isinstance(s, ast.ClassDef):
                self._bind(s.name, self._make_class(s))
            elif isinstance(s, ast.Import):
                for a in s.names:
                    nm = (a.asname or a.name).split('.')[0]
                    self._bind(nm, Obj('module', s, line=s.lineno))
                    if a.name == 'sys':
                        self.sysalias.add(nm)
            elif isinstance(s, ast.ImportFrom):
                for a in s.names:
                    nm = a.asname or a.name
                    if nm == '*':
                        continue
                    self._bind(nm, Obj('unknown', s, line=s.lineno))
                    if s.module == 'typing' and a.name == 'TYPE_CHECKING':
                        self.false_names.add(nm)
            elif isinstance(s, ast.Assign):
                v = self.resolve(s.value)
                for t in s.targets:
                    self._store(t, v, s.value, env, s.lineno)
            elif isinstance(s, ast.AnnAssign):
                if s.value is not None:
                    self._store(s.target, self.resolve(s.value), s.value, env, s.lineno)
            elif isinstance(s, ast.AugAssign):
                if isinstance(s.target, ast.Name):
                    self._bind(s.target.id, Obj('unknown', s, line=s.lineno))
                    self.consts.pop(s.target.id, None)
            elif isinstance(s, ast.Delete):
                if not may:
                    for t in s.targets:
                        if isinstance(t, ast.Name):
                            self.ns.pop(t.id, None)
                            self.galias.discard(t.id)
                            self.sysalias.discard(t.id)
            elif isinstance(s, ast.If):
                if self._is_false_test(s.test):
                    self._block(s.orelse, env, may)
                elif self._is_true_test(s.test):
                    self._block(s.body, env, may)
                else:
                    self._block(s.body, env, True)
                    self._block(s.orelse, env, True)
            elif isinstance(s, (ast.For, ast.AsyncFor)):
                vals = self.sequence(s.iter, env)
                env2 = dict(env)
                for x in ast.walk(s.target):
                    if isinstance(x, ast.Name):
                        self._bind(x.id, Obj('unknown', s, line=s.lineno))
                        env2.pop(x.id, None)
                if isinstance(s.target, ast.Name) and vals is not None:
                    env2[s.target.id] = vals
                self._block(s.body, env2, may)
                self._block(s.orelse, env2, may)
            elif isinstance(s, ast.While):
                self._block(s.body, env, True)
                self._block(s.orelse, env, True)
            elif isinstance(s, (ast.With, ast.AsyncWith)):
                for it in s.items:
                    if it.optional_vars is not None:
                        self._store(it.optional_vars, Obj('unknown', None, line=s.lineno), None, env, s.lineno)
                self._block(s.body, env, may)
            elif isinstance(s, ast.Try):
                self._block(s.body, env, True)
                for h in s.handlers:
                    self._block(h.body, env, True)
                self._block(s.orelse, env, True)
                self._block(s.finalbody, env, may)

    # ------------------------------------------------------------------ queries
    def lookup(self, dotted):
        """-> (status, detail): status True (bound), False (certainly missing), MAYBE.
        detail names the first missing component."""
        parts = dotted.split('.')
        head = parts[0]
        if self.all_unknown:
            return MAYBE, 'Shadow.__all__ is not a literal'
        if self.all_names is not None and head not in self.all_names:
            return False, '%r is not listed in the module-level __all__ of Shadow.py, so `from Cython.Shadow import *` (cython.py) does not re-export it' % head
        if head in self.ns:
            obj = self.ns[head]
        elif head in self.dyn:
            obj = Obj('unknown', None, line=self.dyn[head])
        else:
            if self.dyn_unresolved:
                return MAYBE, 'module-level name %r (globals() stores with keys that cannot be evaluated exist, line %s)' % (head, self.dyn_unresolved[0])
            return False, 'no module-level binding of %r' % head
        path = head
        for p in parts[1:]:
            r = self.getattr(obj, p)
            if r is None:
                return False, '%r (%s, bound at line %d) has no attribute %r' % (path, obj.kind if obj.kind != 'instance' else 'instance of ' + obj.cls.node.name, obj.line, p)
            if r == MAYBE:
                return MAYBE, 'attribute %r of %r' % (p, path)
            obj = r
            path += '.' + p
        return True, ''

    def line_of(self, head):
        o = self.ns.get(head)
        return o.line if o is not None else self.dyn.get(head, 1)


# ---------------------------------------------------------------------- compiler-side tables
def module_literal_dict(tree, name, rel):
    """Module-level `name = {literal keys: ...}` -> (ast.Dict, {key: value node})."""
    val = None
    for n in tree.body:
        if isinstance(n, ast.Assign) and any(isinstance(t, ast.Name) and t.id == name for t in n.targets):
            val = n.value
    if not isinstance(val, ast.Dict):
        raise AnalysisError('%s: dict literal %s not found' % (rel, name))
    out = {}
    for k, v in zip(val.keys, val.values):
        if not (isinstance(k, ast.Constant) and isinstance(k.value, str)):
            raise AnalysisError('%s: %s has a non-literal key' % (rel, name))
        out[k.value] = v
    return val, out


def merges_defaults_into_types(tree, types_name, defaults_name):
    """True when a module-level loop over `defaults_name` stores into `types_name[...]`
    (Options.py: every directive with a default is also a directive type)."""
    for n in tree.body:
        if isinstance(n, ast.For) and any(isinstance(x, ast.Name) and x.id == defaults_name for x in ast.walk(n.iter)):
            for x in ast.walk(n):
                if isinstance(x, ast.Subscript) and isinstance(x.ctx, ast.Store) and isinstance(x.value, ast.Name) and x.value.id == types_name:
                    return True
    return False


def class_def(tree, name, rel):
    for n in tree.body:
        if isinstance(n, ast.ClassDef) and n.name == name:
            return n
    raise AnalysisError('%s: class %s not found' % (rel, name))


def class_str_set(cdef, name, rel):
    """Class-level set/dict/list literal `name` (keys for a dict) plus later `name.update(other)` / `name |= other`
    statements of the class body, where `other` is another class-level literal -> (set of str, line)."""
    def literal_keys(v):
        if isinstance(v, ast.Dict):
            ks = v.keys
        elif isinstance(v, (ast.Set, ast.List, ast.Tuple)):
            ks = v.elts
        else:
            return None
        out = set()
        for k in ks:
            if not (isinstance(k, ast.Constant) and isinstance(k.value, str)):
                return None
            out.add(k.value)
        return out
    tables, line = {}, None
    for s in cdef.body:
        if isinstance(s, ast.Assign) and len(s.targets) == 1 and isinstance(s.targets[0], ast.Name):
            ks = literal_keys(s.value)
            if ks is not None:
                tables[s.targets[0].id] = set(ks)
                if s.targets[0].id == name:
                    line = s.lineno
            elif s.targets[0].id == name:
                raise AnalysisError('%s: %s.%s is not a literal table' % (rel, cdef.name, name))
        elif isinstance(s, ast.Expr) and isinstance(s.value, ast.Call) and isinstance(s.value.func, ast.Attribute) and \
                s.value.func.attr == 'update' and isinstance(s.value.func.value, ast.Name) and s.value.func.value.id in tables:
            tgt = s.value.func.value.id
            for a in s.value.args:
                if isinstance(a, ast.Name) and a.id in tables:
                    tables[tgt] |= tables[a.id]
                else:
                    ks = literal_keys(a)
                    if ks is None:
                        if tgt == name:
                            raise AnalysisError('%s: %s.%s.update(...) with a non-literal argument' % (rel, cdef.name, name))
                    else:
                        tables[tgt] |= ks
        elif isinstance(s, ast.AugAssign) and isinstance(s.op, ast.BitOr) and isinstance(s.target, ast.Name) and s.target.id in tables:
            if isinstance(s.value, ast.Name) and s.value.id in tables:
                tables[s.target.id] |= tables[s.value.id]
            else:
                ks = literal_keys(s.value)
                if ks is None:
                    if s.target.id == name:
                        raise AnalysisError('%s: %s.%s |= non-literal' % (rel, cdef.name, name))
                else:
                    tables[s.target.id] |= ks
    if name not in tables:
        raise AnalysisError('%s: %s.%s not found' % (rel, cdef.name, name))
    return tables[name], line
