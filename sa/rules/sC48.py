"""sC48 — cache-key completeness rules of C48, semantic versions (the chain of get_fingerprint is evaluated per option
name instead of being pattern matched; the fingerprint is followed from file contents to the cache file name)."""
import ast, re

from ..core import Rule, AnalysisError, node_src
from ..engine import pyflow, tables


def walk_no_nested(fn):
    """walk a function without entering nested function/class definitions (the nested def node itself is yielded)"""
    todo = list(fn.body) if isinstance(getattr(fn, 'body', None), list) else [fn]
    while todo:
        n = todo.pop()
        yield n
        if isinstance(n, (ast.FunctionDef, ast.AsyncFunctionDef, ast.ClassDef, ast.Lambda)):
            continue
        todo.extend(ast.iter_child_nodes(n))

from .keys import OUTPUT_NEUTRAL

INJECTIVE = {'repr', 'str', 'tuple', 'list', 'dict', 'to_fingerprint', 'sorted', 'frozenset', 'set'}
LOSSY_FUNCS = {'bool', 'len', 'type', 'id', 'hash', 'any', 'all', 'min', 'max', 'sum', 'isinstance', 'callable', 'int', 'abs'}
DICT_REDUCERS = {'sorted', 'list', 'tuple', 'set', 'frozenset', 'len', 'bool', 'min', 'max', 'sum', 'any', 'all', 'enumerate', 'iter', 'next'}


# ----------------------------------------------------------------------------------------------- def-use closure
_OPAQUE = set()      # type mappers such as get_type(value, ctx): the result identifies the value's type, only the first argument counts


def names_in(node, cut=None):
    out = set()
    todo = [node]
    while todo:
        n = todo.pop()
        if cut is not None and cut(n):
            continue
        if _OPAQUE and isinstance(n, ast.Call) and isinstance(n.func, ast.Name) and n.func.id in _OPAQUE:
            todo.extend(n.args[:1])
            continue
        if isinstance(n, ast.Name):
            out.add(n.id)
        elif isinstance(n, ast.Attribute) and n.attr == '__version__':
            out.add('__version__')
        todo.extend(ast.iter_child_nodes(n))
    return out


def closure(fn, cut=None):
    """flow-insensitive def-use closure: name -> set of *sources* (parameters and free names) it depends on"""
    stored = set()
    for n in walk_no_nested(fn):
        if isinstance(n, ast.Name) and isinstance(n.ctx, ast.Store):
            stored.add(n.id)
    params = {a.arg for a in fn.args.args + fn.args.kwonlyargs + fn.args.posonlyargs}
    if fn.args.vararg:
        params.add(fn.args.vararg.arg)
    if fn.args.kwarg:
        params.add(fn.args.kwarg.arg)
    edges = []

    def src_of(e):
        return names_in(e, cut)
    for n in walk_no_nested(fn):
        if isinstance(n, ast.Assign):
            src = src_of(n.value)
            for t in n.targets:
                for x in ast.walk(t):
                    if isinstance(x, ast.Name) and isinstance(x.ctx, ast.Store):
                        edges.append((x.id, src))
                    elif isinstance(x, (ast.Subscript, ast.Attribute)) and isinstance(x.ctx, ast.Store):
                        b = x
                        while isinstance(b, (ast.Subscript, ast.Attribute)):
                            b = b.value
                        if isinstance(b, ast.Name):
                            edges.append((b.id, src | src_of(x)))
        elif isinstance(n, ast.AnnAssign) and n.value is not None and isinstance(n.target, ast.Name):
            edges.append((n.target.id, src_of(n.value)))
        elif isinstance(n, ast.AugAssign) and isinstance(n.target, ast.Name):
            edges.append((n.target.id, src_of(n.value) | {n.target.id}))
        elif isinstance(n, ast.NamedExpr):
            edges.append((n.target.id, src_of(n.value)))
        elif isinstance(n, (ast.For, ast.comprehension)):
            src = src_of(n.iter)
            for x in ast.walk(n.target):
                if isinstance(x, ast.Name):
                    edges.append((x.id, src))
        elif isinstance(n, ast.Call) and isinstance(n.func, ast.Attribute) and isinstance(n.func.value, ast.Name) and \
                n.func.attr in ('append', 'extend', 'update', 'add', 'insert', 'setdefault'):
            src = set()
            for a in n.args:
                src |= src_of(a)
            edges.append((n.func.value.id, src))
        elif isinstance(n, ast.Call) and isinstance(n.func, ast.Name) and n.func.id.startswith('_populate') and n.args and isinstance(n.args[0], ast.Name):
            src = set()
            for a in n.args[1:]:
                src |= src_of(a)
            edges.append((n.args[0].id, src))
        elif isinstance(n, ast.withitem) and n.optional_vars is not None:
            for x in ast.walk(n.optional_vars):
                if isinstance(x, ast.Name):
                    edges.append((x.id, src_of(n.context_expr)))
    # weak updates (x[k] = v, x.a = v, x.append(v)) only define local names; module globals such as caches are not
    # tracked (they would connect unrelated calls flow-insensitively)
    edges = [(t, s2) for t, s2 in edges if t in stored or t in params]
    deps = {}
    for p in params:
        deps[p] = {p}

    def base(name):
        if name in deps:
            return deps[name]
        if name not in stored:
            return {name}            # free name (global, builtin, module): its own source
        return set()
    changed = True
    while changed:
        changed = False
        for tgt, src in edges:
            cur = deps.setdefault(tgt, set())
            add = set()
            for s in src:
                add |= base(s)
            if not add <= cur:
                cur |= add
                changed = True
    return deps, params, stored


def expr_sources(e, deps, stored, cut=None):
    out = set()
    for n in names_in(e, cut):
        if n in deps:
            out |= deps[n]
        elif n not in stored:
            out.add(n)
    return out


def resolve_local(fn, e, depth=0):
    """follow single-assignment local aliases"""
    while isinstance(e, ast.Name) and depth < 6:
        vals = []
        for n in walk_no_nested(fn):
            if isinstance(n, ast.Assign):
                for t in n.targets:
                    if isinstance(t, ast.Name) and t.id == e.id:
                        vals.append(n.value)
                    elif isinstance(t, (ast.Tuple, ast.List)):
                        for i, x in enumerate(t.elts):
                            if isinstance(x, ast.Name) and x.id == e.id:
                                vals.append(n.value.elts[i] if isinstance(n.value, (ast.Tuple, ast.List)) and len(n.value.elts) == len(t.elts) else None)
            elif isinstance(n, (ast.AugAssign, ast.For, ast.comprehension)) and any(isinstance(x, ast.Name) and x.id == e.id for x in ast.walk(n.target)):
                vals.append(None)
        if len(vals) != 1 or vals[0] is None:
            break
        e, depth = vals[0], depth + 1
    return e


def bind_call(call, params):
    """parameter name -> argument expression for a call of a function with the given parameter names (self excluded)"""
    out = {}
    for p, a in zip(params, call.args):
        if isinstance(a, ast.Starred):
            break
        out[p] = a
    for k in call.keywords:
        if k.arg:
            out[k.arg] = k.value
    return out


# ----------------------------------------------------------------------------------------------- lossy reductions
def is_dict_expr(e, dict_names):
    if isinstance(e, (ast.Dict, ast.DictComp)):
        return True
    if isinstance(e, ast.Call) and isinstance(e.func, ast.Name) and e.func.id == 'dict':
        return True
    if isinstance(e, ast.IfExp):
        return is_dict_expr(e.body, dict_names) and is_dict_expr(e.orelse, dict_names)
    if isinstance(e, ast.Name):
        return e.id in dict_names
    return False


def dict_locals(fn):
    """locals that only ever hold dicts"""
    vals = {}
    for n in walk_no_nested(fn):
        if isinstance(n, ast.Assign):
            for t in n.targets:
                if isinstance(t, ast.Name):
                    vals.setdefault(t.id, []).append(n.value)
                else:
                    for x in ast.walk(t):
                        if isinstance(x, ast.Name) and isinstance(x.ctx, ast.Store):
                            vals.setdefault(x.id, []).append(None)
        elif isinstance(n, (ast.For, ast.comprehension, ast.AugAssign, ast.AnnAssign, ast.NamedExpr)):
            for x in ast.walk(n.target):
                if isinstance(x, ast.Name):
                    vals.setdefault(x.id, []).append(None)
    out = set()
    for _ in range(3):
        for name, vs in vals.items():
            if vs and all(v is not None and is_dict_expr(v, out) for v in vs):
                out.add(name)
    return out


def _test_positions(fn):
    ids = set()
    for n in ast.walk(fn):
        t = None
        if isinstance(n, (ast.If, ast.While, ast.IfExp, ast.Assert)):
            t = n.test
        if t is not None:
            for x in ast.walk(t):
                ids.add(id(x))
        if isinstance(n, ast.comprehension):
            for c in n.ifs:
                for x in ast.walk(c):
                    ids.add(id(x))
    return ids


def lossy_reductions(fn, dict_params=()):
    """-> [(node, text)]: places where a dict-typed value is reduced to its keys / size / truth value inside a key function"""
    out = []
    tests = _test_positions(fn)

    def scan(scope, dict_names, region):
        for n in region:
            if id(n) in tests:
                continue
            if isinstance(n, ast.Call) and isinstance(n.func, ast.Name) and n.func.id in DICT_REDUCERS and len(n.args) >= 1 and \
                    isinstance(n.args[0], ast.Name) and n.args[0].id in dict_names:
                out.append((n, '%s(%s) keeps only the keys (or the size) of the dict' % (n.func.id, n.args[0].id)))
            elif isinstance(n, ast.Call) and isinstance(n.func, ast.Attribute) and n.func.attr in ('keys', 'values') and isinstance(n.func.value, ast.Name) and n.func.value.id in dict_names:
                out.append((n, '%s.%s() drops the %s' % (n.func.value.id, n.func.attr, 'values' if n.func.attr == 'keys' else 'keys')))
            elif isinstance(n, ast.Call) and isinstance(n.func, ast.Attribute) and n.func.attr == 'join' and n.args and isinstance(n.args[0], ast.Name) and n.args[0].id in dict_names:
                out.append((n, 'join(%s) keeps only the keys of the dict' % n.args[0].id))
            elif isinstance(n, (ast.For, ast.comprehension)) and isinstance(n.iter, ast.Name) and n.iter.id in dict_names:
                out.append((n.iter, 'iterating %s directly yields only the keys of the dict' % n.iter.id))
            elif isinstance(n, ast.Starred) and isinstance(n.value, ast.Name) and n.value.id in dict_names:
                out.append((n, '*%s unpacks only the keys' % n.value.id))

    def visit(scope, extra):
        dn = dict_locals(scope) | set(extra)
        scan(scope, dn, list(walk_no_nested(scope)))
        # isinstance(x, dict) regions
        for n in walk_no_nested(scope):
            if isinstance(n, ast.If):
                t = n.test
                if isinstance(t, ast.Call) and isinstance(t.func, ast.Name) and t.func.id == 'isinstance' and len(t.args) == 2 and isinstance(t.args[0], ast.Name) \
                        and isinstance(t.args[1], ast.Name) and t.args[1].id == 'dict' and t.args[0].id not in dn:
                    region = []
                    for s in n.body:
                        region.extend(x for x in ast.walk(s) if not isinstance(x, (ast.FunctionDef, ast.Lambda)))
                    scan(scope, {t.args[0].id}, region)
        for n in walk_no_nested(scope):
            if isinstance(n, (ast.FunctionDef, ast.AsyncFunctionDef)) and n is not scope:
                visit(n, ())
    visit(fn, dict_params)
    seen, uniq = set(), []
    for n, t in out:
        if id(n) not in seen:
            seen.add(id(n))
            uniq.append((n, t))
    return uniq


# ----------------------------------------------------------------------------------------------- K1
def _const_collection(e, consts):
    v = tables.literal(e)
    if v is None and isinstance(e, ast.Name) and e.id in consts:
        v = consts[e.id]
    if v is None and isinstance(e, ast.Call) and isinstance(e.func, ast.Name) and e.func.id in ('set', 'frozenset', 'tuple', 'list') and len(e.args) == 1:
        v = tables.literal(e.args[0])
    if isinstance(v, str):
        return None
    if isinstance(v, (list, tuple, set, frozenset)) and all(isinstance(x, str) for x in v):
        return set(v)
    return None


def eval_key_test(t, keyvar, k, consts):
    """truth of a test for key == k; None when it does not (only) depend on the key"""
    if isinstance(t, ast.UnaryOp) and isinstance(t.op, ast.Not):
        r = eval_key_test(t.operand, keyvar, k, consts)
        return None if r is None else not r
    if isinstance(t, ast.BoolOp):
        rs = [eval_key_test(v, keyvar, k, consts) for v in t.values]
        if isinstance(t.op, ast.And):
            if any(r is False for r in rs):
                return False
            return True if all(r is True for r in rs) else None
        if any(r is True for r in rs):
            return True
        return False if all(r is False for r in rs) else None
    if isinstance(t, ast.Compare) and len(t.ops) == 1 and isinstance(t.left, ast.Name) and t.left.id == keyvar:
        op, c = t.ops[0], t.comparators[0]
        if isinstance(op, (ast.In, ast.NotIn)):
            coll = _const_collection(c, consts)
            if coll is None:
                raise AnalysisError('get_fingerprint: cannot evaluate the collection in `%s`' % node_src(t))
            return (k in coll) if isinstance(op, ast.In) else (k not in coll)
        if isinstance(op, (ast.Eq, ast.NotEq)) and isinstance(c, ast.Constant) and isinstance(c.value, str):
            return (k == c.value) if isinstance(op, ast.Eq) else (k != c.value)
        raise AnalysisError('get_fingerprint: unrecognised test on the option name: %s' % node_src(t))
    if isinstance(t, ast.Call) and isinstance(t.func, ast.Attribute) and isinstance(t.func.value, ast.Name) and t.func.value.id == keyvar:
        if t.func.attr in ('startswith', 'endswith') and len(t.args) == 1:
            v = tables.literal(t.args[0])
            if isinstance(v, (str, tuple)):
                return getattr(k, t.func.attr)(v)
        raise AnalysisError('get_fingerprint: unrecognised test on the option name: %s' % node_src(t))
    if any(isinstance(x, ast.Name) and x.id == keyvar for x in ast.walk(t)):
        raise AnalysisError('get_fingerprint: unrecognised test on the option name: %s' % node_src(t))
    return None


def value_transform(e, valvar):
    """'same' | 'injective' | ('lossy', text) | None (does not mention the value)"""
    if isinstance(e, ast.Name):
        return 'same' if e.id == valvar else None
    if not any(isinstance(x, ast.Name) and x.id == valvar for x in ast.walk(e)):
        return None
    if isinstance(e, ast.Call) and isinstance(e.func, ast.Name) and len(e.args) >= 1 and not e.keywords:
        inner = value_transform(e.args[0], valvar)
        if e.func.id in LOSSY_FUNCS:
            return ('lossy', '%s(...) of the option value' % e.func.id)
        if e.func.id in INJECTIVE and inner in ('same', 'injective'):
            return 'injective'
        if inner is not None and inner not in ('same', 'injective'):
            return inner
    if isinstance(e, ast.Call) and isinstance(e.func, ast.Attribute) and e.func.attr == 'items' and value_transform(e.func.value, valvar) in ('same', 'injective'):
        return 'injective'
    if isinstance(e, (ast.Tuple, ast.List)):
        rs = [value_transform(x, valvar) for x in e.elts]
        lossy = [r for r in rs if isinstance(r, tuple)]
        if lossy and not any(r in ('same', 'injective') for r in rs):
            return lossy[0]
        if any(r in ('same', 'injective') for r in rs):
            return 'injective'
    if isinstance(e, (ast.Compare, ast.BoolOp)) or (isinstance(e, ast.UnaryOp) and isinstance(e.op, ast.Not)):
        return ('lossy', 'a truth value computed from the option value')
    if isinstance(e, ast.Subscript):
        return ('lossy', 'a part of the option value (%s)' % node_src(e, 40))
    if isinstance(e, ast.IfExp):
        a, b = value_transform(e.body, valvar), value_transform(e.orelse, valvar)
        for r in (a, b):
            if isinstance(r, tuple):
                return r
        if a in ('same', 'injective') or b in ('same', 'injective'):
            return 'injective'
    raise AnalysisError('get_fingerprint: unmodelled transformation of an option value: %s' % node_src(e, 60))


def classify_option(body, keyvar, valvar, datavar, k, consts):
    """-> set of outcomes over all paths of the loop body for key == k"""
    outcomes = set()

    def run(stmts, stored):
        """returns list of `stored` states that fall through"""
        states = [stored]
        for s in stmts:
            nxt = []
            for st in states:
                if isinstance(s, ast.If):
                    r = eval_key_test(s.test, keyvar, k, consts)
                    if r is not False:
                        nxt.extend(run(s.body, st))
                    if r is not True:
                        nxt.extend(run(s.orelse, st))
                elif isinstance(s, ast.Continue):
                    outcomes.add(st or 'excluded')
                elif isinstance(s, ast.Raise):
                    outcomes.add('rejected')
                elif isinstance(s, ast.Assign) and any(isinstance(t, ast.Subscript) and isinstance(t.value, ast.Name) and t.value.id == datavar for t in s.targets):
                    t = [t for t in s.targets if isinstance(t, ast.Subscript)][0]
                    if not (isinstance(t.slice, ast.Name) and t.slice.id == keyvar):
                        if isinstance(t.slice, ast.Constant) and t.slice.value != k:
                            nxt.append(st)
                            continue
                    vt = value_transform(s.value, valvar)
                    if vt is None:
                        nxt.append(st or 'constant')
                    elif isinstance(vt, tuple):
                        nxt.append('lossy:' + vt[1])
                    else:
                        nxt.append('included')
                elif isinstance(s, (ast.For, ast.While, ast.Try, ast.With, ast.Return, ast.Break)):
                    raise AnalysisError('get_fingerprint: unmodelled statement %s in the option loop' % type(s).__name__)
                else:
                    nxt.append(st)
            states = nxt
        return states
    for st in run(body, None):
        outcomes.add(st or 'dropped')
    return outcomes


def rule_K1(ctx):
    r = Rule('K1', 'every compilation option is included in CompilationOptions.get_fingerprint with its full value (or rejected), or is excluded AND output-neutral; '
                   'unknown options are included; no dict is reduced to its keys on the way into the fingerprint', floor=30)
    rel = 'Cython/Compiler/Options.py'
    tree = ctx.parse(rel)
    dflt = tables.module_assign(tree, 'default_options')
    if not (isinstance(dflt, ast.Call) and isinstance(dflt.func, ast.Name) and dflt.func.id == 'dict'):
        raise AnalysisError('Options.default_options is not a dict(...) call any more')
    keys = [k.arg for k in dflt.keywords if k.arg]
    fn = tables.find_function(tree, 'get_fingerprint', 'CompilationOptions')
    _k1_eval(r, fn, keys, rel)
    pc = ast.parse("def get_fingerprint(self):\n    data = {}\n    for key, value in self.__dict__.items():\n        if key in ('quiet',):\n            continue\n"
                   "        elif key == 'cplus':\n            data[key] = bool(value)\n        else:\n            data[key] = value\n    return repr(sorted(data))\n").body[0]
    r2 = Rule('K1', '', 0)
    _k1_eval(r2, pc, ['quiet', 'cplus'], rel)
    got = ' '.join(f.construct for f in r2.findings)
    r.positive_control(':cplus' in got and 'lossy-dict' in got, 'bool(value) stored / sorted(data) returned')
    return r


def _k1_eval(r, fn, keys, rel):
    loop = None
    for n in walk_no_nested(fn):
        if isinstance(n, ast.For) and isinstance(n.target, ast.Tuple) and len(n.target.elts) == 2 and isinstance(n.iter, ast.Call) and isinstance(n.iter.func, ast.Attribute) \
                and n.iter.func.attr == 'items' and ('__dict__' in ast.unparse(n.iter) or 'vars(self)' in ast.unparse(n.iter)):
            loop = n
    if loop is None:
        raise AnalysisError('get_fingerprint no longer iterates over self.__dict__.items()')
    keyvar, valvar = loop.target.elts[0].id, loop.target.elts[1].id
    consts = {}
    for n in walk_no_nested(fn):
        if isinstance(n, ast.Assign) and len(n.targets) == 1 and isinstance(n.targets[0], ast.Name):
            c = _const_collection(n.value, {})
            if c is not None:
                consts[n.targets[0].id] = c
    # the dict the loop fills
    datavars = {t.value.id for n in ast.walk(loop) if isinstance(n, ast.Assign) for t in n.targets if isinstance(t, ast.Subscript) and isinstance(t.value, ast.Name)}
    if len(datavars) != 1:
        raise AnalysisError('get_fingerprint: expected one dict filled by the option loop, found %s' % sorted(datavars))
    datavar = datavars.pop()
    mentioned = set()
    for n in ast.walk(loop):
        if isinstance(n, ast.Compare) and isinstance(n.left, ast.Name) and n.left.id == keyvar:
            c = _const_collection(n.comparators[0], consts)
            if c:
                mentioned |= c
            elif isinstance(n.comparators[0], ast.Constant) and isinstance(n.comparators[0].value, str):
                mentioned.add(n.comparators[0].value)
    default = classify_option(loop.body, keyvar, valvar, datavar, '<any other option>', consts)
    r.inst('get_fingerprint:else', sample='unlisted options -> %s' % sorted(default))
    if default != {'included'}:
        r.violate('Options.CompilationOptions.get_fingerprint:else', rel, fn.lineno,
                  'options not named in get_fingerprint are %s instead of included: a new output-affecting option would not invalidate the cache' % '/'.join(sorted(default)))
    for k in sorted(set(keys) | mentioned):
        out = classify_option(loop.body, keyvar, valvar, datavar, k, consts)
        r.inst('option:' + k, sample='%s -> %s' % (k, '/'.join(sorted(out))))
        lossy = [o for o in out if o.startswith('lossy:')]
        if lossy:
            r.violate('Options.CompilationOptions.get_fingerprint:%s' % k, rel, loop.lineno,
                      'option %r enters the cache fingerprint only as %s: compilations with different values of %r share one cache entry' % (k, lossy[0][6:], k))
        elif 'included' in out:
            continue
        elif out <= {'rejected', 'dropped', 'excluded'} and 'rejected' in out:
            continue
        elif k not in OUTPUT_NEUTRAL:
            kind = 'excluded' if 'excluded' in out else '/'.join(sorted(out))
            r.violate('Options.CompilationOptions.get_fingerprint:%s' % k, rel, loop.lineno,
                      'option %r is %s from the cache fingerprint but is not output-neutral (it influences the generated C): '
                      'two compilations that differ only in %r share one cache entry and the second gets the stale result' % (k, kind, k))
    # what is returned is built from the collected dict
    rets = [n for n in walk_no_nested(fn) if isinstance(n, ast.Return) and n.value is not None]
    deps, params, stored = closure(fn)
    r.inst('get_fingerprint:return')
    if not rets or not all(datavar in names_in(x.value) or datavar in {s for nm in names_in(x.value) for s in [nm] if nm in deps and datavar in _reach(fn, nm)} for x in rets):
        r.violate('Options.CompilationOptions.get_fingerprint:return', rel, fn.lineno, 'get_fingerprint does not return a digest of the collected data')
    for node, text in lossy_reductions(fn):
        r.inst('get_fingerprint:lossy')
        r.violate('Options.CompilationOptions.get_fingerprint:lossy-dict:%s' % re.sub(r'\W+', '', node_src(node, 40))[:30], rel, node.lineno,
                  'get_fingerprint: %s, so a change of a VALUE (a directive, a compile-time constant, an option) does not change the cache fingerprint' % text)


def _reach(fn, name):
    """local names `name` is computed from (transitively, by assignments)"""
    out, todo = set(), [name]
    while todo:
        x = todo.pop()
        for n in walk_no_nested(fn):
            if isinstance(n, ast.Assign) and any(isinstance(t, ast.Name) and t.id == x for t in n.targets):
                for y in names_in(n.value):
                    if y not in out:
                        out.add(y)
                        todo.append(y)
    return out


# ----------------------------------------------------------------------------------------------- K1b
C_EXTS = {'.c', '.cpp', '.h', '.hpp', '.cxx', '.hxx', '.cc', '.hh', '.c++', '.h++'}
CYTHON_EXTS = ['.pyx', '.py', '.pxd', '.pxi', '', '.pyx.in-like-other']


def _is_call_to(n, name):
    return isinstance(n, ast.Call) and ((isinstance(n.func, ast.Name) and n.func.id == name) or (isinstance(n.func, ast.Attribute) and n.func.attr == name))


def _eval_ext_test(t, var, ext, env):
    """truth of a filter test for a dependency whose name has extension `ext`"""
    def ext_expr(e):
        e2 = env.get(e.id) if isinstance(e, ast.Name) and e.id in env else e
        if isinstance(e2, ast.Subscript) and isinstance(e2.slice, ast.Constant) and e2.slice.value in (1, -1) and _is_call_to(e2.value, 'splitext') \
                and e2.value.args and isinstance(e2.value.args[0], ast.Name) and e2.value.args[0].id == var:
            return True
        return False
    if isinstance(t, ast.UnaryOp) and isinstance(t.op, ast.Not):
        return not _eval_ext_test(t.operand, var, ext, env)
    if isinstance(t, ast.BoolOp):
        rs = [_eval_ext_test(v, var, ext, env) for v in t.values]
        return all(rs) if isinstance(t.op, ast.And) else any(rs)
    if isinstance(t, ast.Compare) and len(t.ops) == 1 and ext_expr(t.left):
        c = tables.literal(t.comparators[0])
        op = t.ops[0]
        if isinstance(op, (ast.In, ast.NotIn)) and isinstance(c, (tuple, list, set, frozenset)):
            return (ext in c) == isinstance(op, ast.In)
        if isinstance(op, (ast.Eq, ast.NotEq)) and isinstance(c, str):
            return (ext == c) == isinstance(op, ast.Eq)
    if isinstance(t, ast.Call) and isinstance(t.func, ast.Attribute) and t.func.attr == 'endswith' and isinstance(t.func.value, ast.Name) and t.func.value.id == var and len(t.args) == 1:
        c = tables.literal(t.args[0])
        if isinstance(c, (str, tuple)):
            return ('name' + ext).endswith(c)
    raise AnalysisError('transitive_fingerprint: unmodelled dependency filter test: %s' % node_src(t, 80))


def _hashed_for_ext(body, var, ext, is_hash_stmt):
    """does the loop body reach the statement that hashes the dependency, for a dependency with this extension?"""
    env = {}

    def run(stmts):
        for s in stmts:
            if isinstance(s, ast.If):
                if any(is_hash_stmt(x) for x in ast.walk(s.test)):
                    return 'hashed'
                r = run(s.body if _eval_ext_test(s.test, var, ext, env) else s.orelse)
                if r:
                    return r
            elif isinstance(s, ast.Continue):
                return 'skipped'
            elif isinstance(s, (ast.Break, ast.Return, ast.Raise)):
                return 'aborted'
            elif any(is_hash_stmt(x) for x in ast.walk(s)):
                return 'hashed'
            elif isinstance(s, ast.Assign) and len(s.targets) == 1 and isinstance(s.targets[0], ast.Name):
                env[s.targets[0].id] = s.value
            elif isinstance(s, (ast.For, ast.While, ast.Try, ast.With)):
                raise AnalysisError('transitive_fingerprint: unmodelled statement in the dependency loop')
        return None
    return run(body) or 'skipped'


def rule_K1b(ctx):
    r = Rule('K1b', 'Cache.transitive_fingerprint feeds the version, the CONTENT of the source and of every non-C dependency, the flags and the options into the hash it returns', floor=8)
    rel = 'Cython/Build/Cache.py'
    tree = ctx.parse(rel)
    fn = tables.find_function(tree, 'transitive_fingerprint', 'Cache')
    _k1b_eval(r, fn, rel)
    pc = ast.parse("def transitive_fingerprint(self, filename, dependencies, compilation_options, flags=None):\n    m = hashlib.sha256(__version__.encode())\n    m.update(file_hash(filename).encode())\n"
                   "    for x in sorted(dependencies):\n        if x.endswith(('.pyx', '.py')):\n            m.update(x.encode())\n    m.update(flags.get_fingerprint().encode())\n"
                   "    m.update(compilation_options.get_fingerprint().encode())\n    return m.hexdigest()\n").body[0]
    r2 = Rule('K1b', '', 0)
    _k1b_eval(r2, pc, rel)
    got = ' '.join(f.construct for f in r2.findings)
    r.positive_control('dependency-content' in got, 'dependency names hashed instead of contents')
    return r


def _k1b_eval(r, fn, rel):
    deps, params, stored = closure(fn)
    plist = [a.arg for a in fn.args.args if a.arg != 'self']
    if len(plist) < 3:
        raise AnalysisError('transitive_fingerprint: unexpected signature')
    p_file, p_deps = plist[0], plist[1]
    hv = None
    ctor = None
    for n in walk_no_nested(fn):
        if isinstance(n, ast.Assign) and isinstance(n.value, ast.Call) and re.search(r'sha|md5|blake|hashlib', ast.unparse(n.value.func)) and isinstance(n.targets[0], ast.Name):
            hv, ctor = n.targets[0].id, n.value
    if hv is None:
        raise AnalysisError('transitive_fingerprint: hash object not found')
    feeds = list(ctor.args)
    for n in walk_no_nested(fn):
        if isinstance(n, ast.Call) and isinstance(n.func, ast.Attribute) and n.func.attr == 'update' and isinstance(n.func.value, ast.Name) and n.func.value.id == hv:
            feeds.extend(n.args)
    fed = set()
    for a in feeds:
        fed |= expr_sources(a, deps, stored)
    for p in ['__version__'] + plist:
        r.inst('transitive_fingerprint:' + p, sample='%s -> hash' % p)
        if p not in fed:
            r.violate('Cache.transitive_fingerprint:%s' % p, rel, fn.lineno, '%r is not fed into the fingerprint hash: changes to it do not invalidate cached results' % p)
    rets = [n for n in walk_no_nested(fn) if isinstance(n, ast.Return) and n.value is not None and not isinstance(n.value, ast.Constant)]
    r.inst('transitive_fingerprint:return')
    if not rets or not all(hv in names_in(x.value) or hv in expr_sources(x.value, deps, stored) for x in rets):
        r.violate('Cache.transitive_fingerprint:return', rel, fn.lineno, 'the returned fingerprint is not the digest of the hash object')
    # content, not names: a file_hash() call whose argument comes from the source / from the dependency collection must feed the hash
    feeders = set()
    for a in feeds:
        feeders |= names_in(a)
    for _ in range(4):
        for n in walk_no_nested(fn):
            if isinstance(n, ast.Assign) and any(isinstance(t, ast.Name) and t.id in feeders for t in n.targets):
                feeders |= names_in(n.value)
            if isinstance(n, ast.Call) and isinstance(n.func, ast.Attribute) and n.func.attr in ('append', 'extend', 'add', 'insert') and isinstance(n.func.value, ast.Name) and n.func.value.id in feeders:
                for a in n.args:
                    feeders |= names_in(a)
            if isinstance(n, ast.For) and any(isinstance(x, ast.Name) and x.id in feeders for x in ast.walk(n.target)):
                feeders |= names_in(n.iter)

    def flows(call):
        for a in feeds:
            if any(x is call for x in ast.walk(a)):
                return True
        for n in walk_no_nested(fn):
            if isinstance(n, ast.Assign) and any(isinstance(t, ast.Name) and t.id in feeders for t in n.targets) and any(x is call for x in ast.walk(n.value)):
                return True
            if isinstance(n, ast.Call) and isinstance(n.func, ast.Attribute) and n.func.attr in ('append', 'extend', 'add', 'insert') and isinstance(n.func.value, ast.Name) \
                    and n.func.value.id in feeders and any(x is call for a in n.args for x in ast.walk(a)):
                return True
        return False
    hcalls = [n for n in walk_no_nested(fn) if _is_call_to(n, 'file_hash') and n.args and flows(n)]
    for p, what in ((p_file, 'source-content'), (p_deps, 'dependency-content')):
        r.inst('transitive_fingerprint:' + what)
        if not any(p in expr_sources(h.args[0], deps, stored) for h in hcalls):
            r.violate('Cache.transitive_fingerprint:%s' % what, rel, fn.lineno,
                      'no file_hash(...) of %s reaches the fingerprint: the file NAME may be hashed but an edit of the file does not change the fingerprint'
                      % ('the source file' if p == p_file else 'the dependencies'))
    # every dependency is visited and only C/C++ files are skipped
    dep_calls = [h for h in hcalls if p_deps in expr_sources(h.args[0], deps, stored)]
    for h in dep_calls:
        loop = None
        for n in walk_no_nested(fn):
            if isinstance(n, ast.For) and any(x is h for x in ast.walk(n)) and p_deps in expr_sources(n.iter, deps, stored):
                if loop is None or any(x is n for x in ast.walk(loop)):
                    loop = n
        if loop is None:
            # the call sits in a later loop over collected pieces: find the collecting loop
            for n in walk_no_nested(fn):
                if isinstance(n, ast.For) and any(x is h for x in ast.walk(n)):
                    loop = n
        if loop is None or not isinstance(loop.target, ast.Name):
            raise AnalysisError('transitive_fingerprint: loop over the dependencies not found')
        it = loop.iter
        while isinstance(it, ast.Call) and isinstance(it.func, ast.Name) and it.func.id in ('sorted', 'list', 'tuple', 'set', 'frozenset') and it.args:
            it = it.args[0]
        r.inst('transitive_fingerprint:all-dependencies')
        if not isinstance(it, ast.Name) or isinstance(loop.iter, ast.Subscript):
            r.violate('Cache.transitive_fingerprint:all-dependencies', rel, loop.lineno, 'the dependency loop iterates %s, not the whole dependency collection' % node_src(loop.iter, 60))
        var = loop.target.id

        def is_hash_stmt(x):
            return x is h
        for ext in CYTHON_EXTS + sorted(C_EXTS):
            res = _hashed_for_ext(loop.body, var, ext, is_hash_stmt)
            r.inst('transitive_fingerprint:filter:' + ext, sample='dependency *%s -> %s' % (ext, res), nontrivial=ext not in C_EXTS)
            if res == 'aborted' or (res != 'hashed' and ext not in C_EXTS):
                shown = ext if not ext.endswith('other') else '<any other extension>'
                key = 'skip-filter' if res == 'skipped' else 'loop-aborted'
                r.violate('Cache.transitive_fingerprint:%s' % key, rel, loop.lineno,
                          'a dependency with extension %r is %s the fingerprint loop; only C/C++ sources and headers are content-neutral for the generated C'
                          % (shown, 'skipped by' if res == 'skipped' else 'followed by leaving'))
                break
        # after hashing one dependency the loop must go on
        for n in ast.walk(loop):
            if isinstance(n, (ast.Break, ast.Return)) and n is not loop:
                inner = [l for l in ast.walk(loop) if isinstance(l, (ast.For, ast.While)) and l is not loop and any(x is n for x in ast.walk(l))]
                if isinstance(n, ast.Break) and inner:
                    continue
                r.violate('Cache.transitive_fingerprint:loop-aborted', rel, n.lineno, 'the dependency loop can stop before all dependencies are hashed (%s)' % type(n).__name__.lower())
                break


# ----------------------------------------------------------------------------------------------- FILEHASH (typestate)
def _filehash_eval(fn):
    """-> list of problem texts for a function that is supposed to digest the whole content of a file"""
    problems = []
    hashvars, filevars = set(), set()
    for n in walk_no_nested(fn):
        if isinstance(n, ast.Assign) and isinstance(n.value, ast.Call) and re.search(r'sha|md5|blake|hashlib', ast.unparse(n.value.func)) and isinstance(n.targets[0], ast.Name):
            hashvars.add(n.targets[0].id)
        if isinstance(n, ast.withitem) and _is_call_to(n.context_expr, 'open') and isinstance(n.optional_vars, ast.Name):
            filevars.add(n.optional_vars.id)
        if isinstance(n, ast.Assign) and _is_call_to(n.value, 'open') and isinstance(n.targets[0], ast.Name):
            filevars.add(n.targets[0].id)
    if not hashvars:
        raise AnalysisError('file_hash: hash object not found')
    if not filevars:
        return ['the file is never opened: the digest does not depend on the content']

    def is_read(e):
        return isinstance(e, ast.Call) and isinstance(e.func, ast.Attribute) and e.func.attr in ('read', 'read1', 'readline', 'readinto') and isinstance(e.func.value, ast.Name) and e.func.value.id in filevars

    def is_file_iter(e):
        """`f` itself, or iter(lambda: f.read(n), sentinel): iterating it reads the file to its end"""
        if isinstance(e, ast.Name) and e.id in filevars:
            return True
        if isinstance(e, ast.Call) and isinstance(e.func, ast.Name) and e.func.id == 'iter' and len(e.args) == 2 and isinstance(e.args[0], ast.Lambda) and is_read(e.args[0].body):
            return True
        if isinstance(e, ast.Call) and isinstance(e.func, ast.Name) and e.func.id == 'iter' and len(e.args) == 1:
            return is_file_iter(e.args[0])
        return False
    file_loops = {}
    for n in walk_no_nested(fn):
        if isinstance(n, ast.For) and is_file_iter(n.iter) and isinstance(n.target, ast.Name):
            file_loops[id(n.iter)] = n
            file_loops[id(n.target)] = n
            if any(isinstance(x, (ast.Break, ast.Return)) for b in n.body for x in ast.walk(b)):
                problems.append('the loop over the file can be left before the end of the file')

    sites = {}

    def site(e):
        return sites.setdefault(id(e), 'r%d' % (len(sites) + 1))

    def do_read(s, var, e):
        s = set(s)
        sid = site(e)
        whole = isinstance(e, ast.Call) and not e.args
        # overwriting the only reference to an unconsumed chunk
        old = [f for f in s if f[0] == 'var' and f[1] == var]
        for f in old:
            s.discard(f)
            if ('pending', f[2]) in s and not any(g[0] == 'var' and g[2] == f[2] for g in s):
                s.add(('BAD', 'a chunk read from the file is overwritten before it is fed to the hash'))
        if any(g[0] == 'var' and g[2] == sid for g in s):
            raise AnalysisError('file_hash: a chunk is still referenced when the same read() is executed again')
        s.add(('var', var, sid))
        s.add(('pending', sid))
        s = {f for f in s if f[0] not in ('last', 'eof')}
        s.add(('last', sid))
        if whole:
            s.add(('eof',))
        return s

    def tr(node, state):
        s = set(state)
        if id(node) in file_loops:
            loop = file_loops[id(node)]
            if node is loop.iter:
                sites.setdefault(id(node), 'it%d' % (len(sites) + 1))
                s.add(('eof',))
                return frozenset(s)
            s = {f for f in do_read(s, node.id, node) if f[0] != 'last'}
            s.add(('eof',))
            return frozenset(s)
        if isinstance(node, ast.Assign) and len(node.targets) == 1 and isinstance(node.targets[0], ast.Name):
            tgt = node.targets[0].id
            if is_read(node.value):
                return frozenset(do_read(s, tgt, node.value))
            if isinstance(node.value, ast.Name):
                src = [f for f in s if f[0] == 'var' and f[1] == node.value.id]
                s = {f for f in s if not (f[0] == 'var' and f[1] == tgt)}
                for f in src:
                    s.add(('var', tgt, f[2]))
                return frozenset(s)
            s = {f for f in s if not (f[0] == 'var' and f[1] == tgt)}
        for n in [x for x in ast.walk(node) if isinstance(x, ast.NamedExpr)]:
            if is_read(n.value):
                s = do_read(s, n.target.id, n.value)
        for c in pyflow.calls_in(node):
            if isinstance(c.func, ast.Attribute) and c.func.attr == 'update' and isinstance(c.func.value, ast.Name) and c.func.value.id in hashvars and c.args:
                a = c.args[0]
                if isinstance(a, ast.Name):
                    for f in list(s):
                        if f[0] == 'var' and f[1] == a.id:
                            s.discard(('pending', f[2]))
                elif is_read(a):
                    site(a)
                    if not a.args:
                        s.add(('eof',))
                    else:
                        s.add(('BAD', 'a single read(n) is hashed without a loop'))
        return frozenset(s)

    def refine(test, truth, state):
        core, neg = test, False
        while isinstance(core, ast.UnaryOp) and isinstance(core.op, ast.Not):
            core, neg = core.operand, not neg
        name = core.id if isinstance(core, ast.Name) else core.target.id if isinstance(core, ast.NamedExpr) else None
        if name is None:
            return state
        if truth != neg:
            return state        # chunk non-empty
        s = set(state)
        for f in list(s):
            if f[0] == 'var' and f[1] == name:
                s.discard(('pending', f[2]))
                if ('last', f[2]) in s:
                    s.add(('eof',))
        return frozenset(s)
    o = pyflow.Flow(tr, refine=refine, correlate=False).run(fn)
    if not sites:
        return ['the file is opened but never read: the digest does not depend on the content']
    for st in o.normal | o.returns:
        for f in st:
            if f[0] == 'BAD':
                problems.append(f[1])
        if ('eof',) not in st:
            problems.append('the function can return before the file is read to its end: only the first chunk(s) reach the hash')
        if any(f[0] == 'pending' for f in st):
            problems.append('a chunk read from the file is never fed to the hash')
    rets = [n for n in walk_no_nested(fn) if isinstance(n, ast.Return) and n.value is not None]
    if not rets or not all(names_in(x.value) & hashvars for x in rets):
        problems.append('the value returned is not the digest of the hash object')
    return sorted(set(problems))


def rule_filehash(ctx):
    r = Rule('K5', 'Cache.file_hash digests the whole file: every chunk read reaches the hash and reading only stops at end of file', floor=1)
    rel = 'Cython/Build/Cache.py'
    fn = tables.find_function(ctx.parse(rel), 'file_hash')
    r.inst('Cache.file_hash', sample='typestate of the read loop of file_hash')
    for p in _filehash_eval(fn):
        r.violate('Cache.file_hash:%s' % re.sub(r'\W+', '-', p)[:40], rel, fn.lineno, 'file_hash: %s; an edit outside the hashed part leaves the cache fingerprint unchanged' % p)
    pc = ast.parse("def file_hash(filename):\n    m = hashlib.sha256()\n    with open(filename, 'rb') as f:\n        data = f.read(65000)\n        m.update(data)\n    return m.hexdigest()\n").body[0]
    pc2 = ast.parse("def file_hash(filename):\n    m = hashlib.sha256()\n    with open(filename, 'rb') as f:\n        data = f.read(65000)\n        more = data\n        while more:\n            m.update(data)\n            more = f.read(65000)\n    return m.hexdigest()\n").body[0]
    r.positive_control(bool(_filehash_eval(pc)) and bool(_filehash_eval(pc2)), 'first chunk only / stale chunk variable')
    return r


# ----------------------------------------------------------------------------------------------- K6: the fingerprint is threaded unchanged
FP = 'fingerprint'
FP_MODULES = ('Cython/Build/Cache.py', 'Cython/Compiler/Main.py', 'Cython/Build/Dependencies.py')
FP_PRODUCERS = ('transitive_fingerprint', 'get_fingerprint')


def _functions(tree):
    for n in tree.body:
        if isinstance(n, (ast.FunctionDef, ast.AsyncFunctionDef)):
            yield None, n
        elif isinstance(n, ast.ClassDef):
            for m in n.body:
                if isinstance(m, (ast.FunctionDef, ast.AsyncFunctionDef)):
                    yield n.name, m


def _fp_value_ok(fn, e, seen=frozenset()):
    """is e the fingerprint this function was given / computed by a fingerprint producer (or None)?"""
    if isinstance(e, ast.Constant) and e.value is None:
        return True
    if isinstance(e, ast.Call):
        # cache.transitive_fingerprint(...) or the module-level get_fingerprint(cache, source, options); NOT options.get_fingerprint()
        return (isinstance(e.func, ast.Attribute) and e.func.attr == 'transitive_fingerprint') or (isinstance(e.func, ast.Name) and e.func.id in FP_PRODUCERS)
    if isinstance(e, ast.BoolOp) and isinstance(e.op, ast.Or):
        return all(_fp_value_ok(fn, v, seen) for v in e.values)
    if isinstance(e, ast.IfExp):
        return _fp_value_ok(fn, e.body, seen) and _fp_value_ok(fn, e.orelse, seen)
    if isinstance(e, ast.Name):
        params = [a.arg for a in fn.args.args + fn.args.kwonlyargs]
        if e.id in params and e.id != FP:
            return False
        if e.id in seen:
            return True
        defs = []
        for n in walk_no_nested(fn):
            if isinstance(n, ast.Assign) and any(isinstance(t, ast.Name) and t.id == e.id for t in n.targets):
                defs.append(n.value)
            elif isinstance(n, ast.Assign) and any(isinstance(x, ast.Name) and x.id == e.id and isinstance(x.ctx, ast.Store) for t in n.targets for x in ast.walk(t)):
                defs.append(None)
            elif isinstance(n, (ast.AugAssign, ast.For, ast.comprehension, ast.NamedExpr)) and any(isinstance(x, ast.Name) and x.id == e.id for x in ast.walk(n.target)):
                defs.append(None)
        if not defs:
            return e.id in params
        return all(d is not None and _fp_value_ok(fn, d, seen | {e.id}) for d in defs)
    return False


def rule_fp_thread(ctx):
    r = Rule('K6', 'the fingerprint computed by transitive_fingerprint is passed on unchanged to the cache lookup, the cache store and the cache file name', floor=7)
    table = {}
    fns = []
    for rel in FP_MODULES:
        for cls, fn in _functions(ctx.parse(rel)):
            params = [a.arg for a in fn.args.args + fn.args.kwonlyargs]
            if params and params[0] in ('self', 'cls'):
                params = params[1:]
            fns.append((rel, cls, fn))
            if FP in params:
                table.setdefault(fn.name, []).append(params)
    if 'fingerprint_file' not in table or 'lookup_cache' not in table or 'store_to_cache' not in table:
        raise AnalysisError('Cache.fingerprint_file / lookup_cache / store_to_cache not found')
    # the file name depends on every parameter
    rel = 'Cython/Build/Cache.py'
    ff = tables.find_function(ctx.parse(rel), 'fingerprint_file', 'Cache')
    deps, params, stored = closure(ff)
    rets = [n for n in walk_no_nested(ff) if isinstance(n, ast.Return) and n.value is not None]
    got = set()
    for x in rets:
        got |= expr_sources(x.value, deps, stored)
    for p in [a.arg for a in ff.args.args if a.arg != 'self']:
        r.inst('Cache.fingerprint_file:' + p, sample='cache file name depends on %s' % p)
        if p not in got:
            r.violate('Cache.fingerprint_file:%s' % p, rel, ff.lineno,
                      'the cache file name does not depend on %r: entries stored for different %ss overwrite / answer for each other' % (p, p))
    for rel, cls, fn in fns:
        for n in walk_no_nested(fn):
            if not isinstance(n, ast.Call):
                continue
            name = n.func.id if isinstance(n.func, ast.Name) else n.func.attr if isinstance(n.func, ast.Attribute) else None
            if name not in table or name in FP_PRODUCERS:
                continue
            if any(isinstance(a, ast.Starred) for a in n.args):
                continue
            sigs = table[name]
            if len({tuple(s) for s in sigs}) != 1:
                raise AnalysisError('several functions named %s take a fingerprint' % name)
            b = bind_call(n, sigs[0])
            key = '%s%s->%s' % ((cls + '.') if cls else '', fn.name, name)
            if FP not in b:
                continue
            r.inst(key, sample='%s(%s=%s)' % (key, FP, node_src(b[FP], 40)))
            if not _fp_value_ok(fn, b[FP]):
                r.violate('%s:%s' % (rel.rsplit('/', 1)[1][:-3], key), rel, n.lineno,
                          '%s passes %s as the fingerprint to %s(): the cache entry is looked up / stored under a key that is not the fingerprint of the compilation '
                          '(source, dependencies, options), so another compilation can be answered from it' % (key.split('->')[0], node_src(b[FP], 50), name))
    return r


# ----------------------------------------------------------------------------------------------- DEP1 / DEP2 / K7
def rule_seen_guard(ctx, rid='DEP1'):
    r = Rule(rid, 'DependencyTree.transitive_merge_helper memoises a node\'s merged dependency set only when no cimport cycle is still open (loop is None); the merge used for all_dependencies does not mutate cached sets', floor=3)
    rel = 'Cython/Build/Dependencies.py'
    tree = ctx.parse(rel)
    fn = tables.find_function(tree, 'transitive_merge_helper', 'DependencyTree')
    memo_param = None
    for n in sorted(walk_no_nested(fn), key=lambda x: getattr(x, 'lineno', 0)):
        if isinstance(n, ast.If) and isinstance(n.test, ast.Compare) and isinstance(n.test.ops[0], ast.In) and isinstance(n.test.comparators[0], ast.Name) \
                and n.body and isinstance(n.body[0], ast.Return):
            memo_param = n.test.comparators[0].id
            break
    if memo_param is None:
        raise AnalysisError('transitive_merge_helper: memo lookup not found')
    loopvar = None
    for n in sorted(walk_no_nested(fn), key=lambda x: getattr(x, 'lineno', 0)):
        if isinstance(n, ast.Return) and isinstance(n.value, ast.Tuple) and len(n.value.elts) == 2 and isinstance(n.value.elts[1], ast.Name):
            loopvar = n.value.elts[1].id
    if loopvar is None:
        raise AnalysisError('transitive_merge_helper: loop result variable not found')
    bad = []

    def known_none(state):
        for f in state:
            if isinstance(f, tuple) and f and f[0] == '?':
                try:
                    t = ast.parse(f[1], mode='eval').body
                except SyntaxError:
                    continue
                if isinstance(t, ast.Compare) and len(t.ops) == 1 and isinstance(t.left, ast.Name) and t.left.id == loopvar and \
                        isinstance(t.comparators[0], ast.Constant) and t.comparators[0].value is None:
                    if isinstance(t.ops[0], (ast.Is, ast.Eq)) and f[2] is True:
                        return True
                    if isinstance(t.ops[0], (ast.IsNot, ast.NotEq)) and f[2] is False:
                        return True
            if f == ('none', loopvar):
                return True
        return False

    def tr(n, state):
        s = set(state)
        if isinstance(n, ast.Assign):
            for t in n.targets:
                if isinstance(t, ast.Name) and t.id == loopvar:
                    s.discard(('none', loopvar))
                    if isinstance(n.value, ast.Constant) and n.value.value is None:
                        s.add(('none', loopvar))
        if isinstance(n, ast.Assign) and isinstance(n.targets[0], ast.Subscript) and isinstance(n.targets[0].value, ast.Name) and n.targets[0].value.id == memo_param:
            if not known_none(s):
                bad.append(n.lineno)
        return frozenset(s)
    pyflow.Flow(tr).run(fn)
    stores = [n for n in walk_no_nested(fn) if isinstance(n, ast.Assign) and isinstance(n.targets[0], ast.Subscript) and
              isinstance(n.targets[0].value, ast.Name) and n.targets[0].value.id == memo_param]
    r.inst('transitive_merge_helper:memo-store', sample='%d store(s) into %s' % (len(stores), memo_param))
    for line in sorted(set(bad)):
        r.violate('Dependencies.DependencyTree.transitive_merge_helper:memo-in-cycle', rel, line,
                  'the merged dependency set is memoised on a path where a dependency cycle may still be open (%s is not known to be None): '
                  'nodes inside a cimport cycle get a partial dependency set, so edits to the missing files neither trigger rebuilds nor change the cache fingerprint' % loopvar)
    if not stores:
        r.info('no memoisation at all (slower, but not unsound)')
    cls = [n for n in tree.body if isinstance(n, ast.ClassDef) and n.name == 'DependencyTree'][0]
    for m in cls.body:
        if not isinstance(m, ast.FunctionDef):
            continue
        for n in walk_no_nested(m):
            if isinstance(n, ast.Call) and isinstance(n.func, ast.Attribute) and n.func.attr == 'transitive_merge' and len(n.args) >= 3:
                mg = n.args[2]
                key = 'DependencyTree.%s:merge=%s' % (m.name, node_src(mg, 40))
                r.inst(key, sample=key)
                txt = ast.unparse(mg)
                if re.search(r'\b(update|__ior__|extend|add)\b', txt):
                    r.violate('Dependencies.DependencyTree.%s:mutating-merge' % m.name, rel, n.lineno,
                              'transitive_merge is given the mutating merge function %s: the memoised/extracted sets of other nodes are shared and would be modified in place' % txt)
    return r


def dependency_tags(ctx):
    """per DependencyTree method a summary of its return value: which components of parse_dependencies' result (by position)
    and which of its own parameters it is built from (('param', name), substituted at call sites), and whether it is a
    transitive closure (goes through transitive_merge)."""
    rel = 'Cython/Build/Dependencies.py'
    tree = ctx.parse(rel)
    cls = [n for n in tree.body if isinstance(n, ast.ClassDef) and n.name == 'DependencyTree']
    if not cls:
        raise AnalysisError('DependencyTree not found')
    methods = {m.name: m for m in cls[0].body if isinstance(m, ast.FunctionDef)}
    tags = {name: set() for name in methods}
    postags = {}
    transitive = {name: False for name in methods}

    def subst(callee, tg, call, local, selfname, fn):
        params = [a.arg for a in methods[callee].args.args][1:]
        b = bind_call(call, params) if call is not None else {}
        out = set()
        for t in tg:
            if isinstance(t, tuple) and t[0] == 'param':
                if call is None:
                    out.add(t)                      # bound method used as a value: applied to files later
                elif t[1] in b:
                    out |= expr_tags(fn, b[t[1]], local, selfname)
            else:
                out.add(t)
        return out

    def self_call(e, selfname):
        return isinstance(e, ast.Call) and isinstance(e.func, ast.Attribute) and isinstance(e.func.value, ast.Name) and e.func.value.id == selfname and e.func.attr in methods

    def expr_tags(fn, e, local, selfname):
        out = set()
        if e is None:
            return out
        if isinstance(e, ast.Subscript) and isinstance(e.slice, ast.Constant) and isinstance(e.slice.value, int) and isinstance(e.value, ast.Call) \
                and isinstance(e.value.func, ast.Attribute) and e.value.func.attr == 'parse_dependencies':
            return {('pd', e.slice.value)}
        if isinstance(e, ast.Call) and isinstance(e.func, ast.Attribute) and e.func.attr == 'parse_dependencies':
            return {('pd', 0), ('pd', 1), ('pd', 2), ('pd', 3)}
        if isinstance(e, ast.Name):
            return set(local.get(e.id, ()))
        if isinstance(e, ast.Attribute) and isinstance(e.value, ast.Name) and e.value.id == selfname and e.attr in methods:
            return subst(e.attr, tags[e.attr], None, local, selfname, fn) | ({'transitive'} if transitive[e.attr] else set())
        if self_call(e, selfname):
            name = e.func.attr
            out |= subst(name, tags[name], e, local, selfname, fn)
            if transitive[name] or name == 'transitive_merge':
                out.add('transitive')
            return out
        if isinstance(e, ast.Subscript) and isinstance(e.slice, ast.Constant) and isinstance(e.slice.value, int) and self_call(e.value, selfname):
            pos = postags.get(e.value.func.attr)
            if pos is not None and e.slice.value < len(pos):
                return subst(e.value.func.attr, pos[e.slice.value], e.value, local, selfname, fn)
        for ch in ast.iter_child_nodes(e):
            if isinstance(ch, ast.expr):
                out |= expr_tags(fn, ch, local, selfname)
            elif isinstance(ch, ast.comprehension):
                out |= expr_tags(fn, ch.iter, local, selfname)
            elif isinstance(ch, ast.keyword):
                out |= expr_tags(fn, ch.value, local, selfname)
        return out
    for _ in range(10):
        changed = False
        for name, fn in methods.items():
            selfname = fn.args.args[0].arg
            local = {a.arg: {('param', a.arg)} for a in fn.args.args[1:]}
            for _i in range(6):
                for n in walk_no_nested(fn):
                    upd = []
                    if isinstance(n, ast.Assign):
                        for t in n.targets:
                            if isinstance(t, ast.Name):
                                upd.append((t.id, expr_tags(fn, n.value, local, selfname)))
                            elif isinstance(t, (ast.Tuple, ast.List)):
                                v = n.value
                                pos = None
                                if isinstance(v, ast.Subscript) and isinstance(v.slice, ast.Slice) and v.slice.lower is None and isinstance(v.value, ast.Call) \
                                        and isinstance(v.value.func, ast.Attribute) and v.value.func.attr == 'parse_dependencies':
                                    pos = [{('pd', i)} for i in range(len(t.elts))]
                                elif self_call(v, selfname) and v.func.attr in postags:
                                    pos = [subst(v.func.attr, pt, v, local, selfname, fn) for pt in postags[v.func.attr]]
                                for i, x in enumerate(t.elts):
                                    if isinstance(x, ast.Name):
                                        upd.append((x.id, set(pos[i]) if pos and i < len(pos) else expr_tags(fn, v, local, selfname)))
                    elif isinstance(n, (ast.For, ast.comprehension)):
                        tg = expr_tags(fn, n.iter, local, selfname)
                        for x in ast.walk(n.target):
                            if isinstance(x, ast.Name):
                                upd.append((x.id, tg))
                    elif isinstance(n, ast.Call) and isinstance(n.func, ast.Attribute) and isinstance(n.func.value, ast.Name) and n.func.attr in ('append', 'extend', 'update', 'add', 'insert'):
                        tg = set()
                        for a in n.args:
                            tg |= expr_tags(fn, a, local, selfname)
                        upd.append((n.func.value.id, tg))
                    for k, tg in upd:
                        cur = local.setdefault(k, set())
                        if not tg <= cur:
                            cur |= tg
            new = set()
            newpos = None
            for n in walk_no_nested(fn):
                if isinstance(n, ast.Return) and n.value is not None:
                    new |= expr_tags(fn, n.value, local, selfname)
                    if isinstance(n.value, ast.Tuple):
                        p = [expr_tags(fn, x, local, selfname) - {'transitive'} for x in n.value.elts]
                        newpos = p if newpos is None else [x | y for x, y in zip(newpos, p)]
            tr_flag = 'transitive' in new or any(_is_call_to(x, 'transitive_merge') for x in walk_no_nested(fn))
            new.discard('transitive')
            if new != tags[name] or tr_flag != transitive[name] or (newpos is not None and postags.get(name) != newpos):
                tags[name], transitive[name] = new, tr_flag
                if newpos is not None:
                    postags[name] = newpos
                changed = True
        if not changed:
            break
    # a parameter of the method itself stands for "the file it is asked about"
    final = {}
    for name, tg in tags.items():
        final[name] = {('file' if isinstance(t, tuple) and t[0] == 'param' else t) for t in tg}
    return methods, final, transitive


def _required_dep_tags(ctx):
    rel = 'Cython/Build/Dependencies.py'
    pd = tables.find_function(ctx.parse(rel), 'parse_dependencies')
    rets = [n for n in walk_no_nested(pd) if isinstance(n, ast.Return) and isinstance(n.value, ast.Tuple)]
    if len(rets) != 1 or not all(isinstance(x, ast.Name) for x in rets[0].value.elts):
        raise AnalysisError('parse_dependencies no longer returns a tuple of named lists')
    names = [x.id for x in rets[0].value.elts]
    req = {}
    for want in ('cimports', 'includes'):
        if want not in names:
            raise AnalysisError('parse_dependencies does not return %r' % want)
        req[('pd', names.index(want))] = want
    req['file'] = 'the file itself'
    return req


def rule_dep_flow(ctx):
    r = Rule('DEP2', 'the dependency set that is fingerprinted is transitive and contains the file itself, the files found for its cimports and its textual includes', floor=4)
    rel = 'Cython/Build/Dependencies.py'
    methods, tags, transitive = dependency_tags(ctx)
    req = _required_dep_tags(ctx)
    good = set()
    for name in sorted(methods):
        if transitive[name] and name not in ('transitive_merge', 'transitive_merge_helper') and 'file' in tags[name] or name == 'all_dependencies':
            if name != 'all_dependencies' and not (tags[name] & set(req)):
                continue
            missing = [req[t] for t in req if t not in tags[name]]
            if name == 'all_dependencies' or not missing:
                good.add(name)
            if name != 'all_dependencies':
                continue
            for t, what in sorted(req.items(), key=repr):
                r.inst('DependencyTree.%s:%s' % (name, what), sample='%s reaches all_dependencies: %s' % (what, t in tags[name]))
                if t not in tags[name]:
                    r.violate('Dependencies.DependencyTree.all_dependencies:%s' % what.replace(' ', '-'), rel, methods[name].lineno,
                              'the dependency set used for the cache fingerprint and the rebuild decision does not contain %s: editing such a file neither recompiles the module nor changes the fingerprint'
                              % ('the files of the ' + what if what != 'the file itself' else what))
            r.inst('DependencyTree.all_dependencies:transitive')
            if not transitive[name]:
                r.violate('Dependencies.DependencyTree.all_dependencies:transitive', rel, methods[name].lineno, 'all_dependencies is no longer the transitive closure (it does not go through transitive_merge)')
    if 'all_dependencies' not in methods:
        raise AnalysisError('DependencyTree.all_dependencies not found')
    # K7 part: every fingerprint call gets the full dependency set of the same source and the options object in use
    complete = {n for n in methods if transitive[n] and all(t in tags[n] for t in req)}
    import os
    sites = []
    for dp, dns, fns in os.walk(ctx.path('Cython')):
        dns[:] = sorted(d for d in dns if d not in ('Tests', '__pycache__', 'Includes', 'Utility'))
        for f in sorted(fns):
            if f.endswith('.py'):
                relp = os.path.relpath(os.path.join(dp, f), ctx.repo)
                if 'transitive_fingerprint' in ctx.read(relp):
                    for cls, fn in _functions(ctx.parse(relp)):
                        sites.append((relp, cls, fn))

    class _M:
        pass
    for relp, cls, fn in sites:
        m = _M()
        m.rel, m.short = relp, relp.rsplit('/', 1)[1][:-3]
        qn = (cls + '.' if cls else '') + fn.name
        if True:
            for n in walk_no_nested(fn):
                if not _is_call_to(n, 'transitive_fingerprint') or fn.name == 'transitive_fingerprint':
                    continue
                b = bind_call(n, ['filename', 'dependencies', 'compilation_options', 'flags'])
                key = '%s.%s->transitive_fingerprint' % (m.short, qn)
                r.inst(key, sample=key)
                d = resolve_local(fn, b.get('dependencies'))
                ok = isinstance(d, ast.Call) and isinstance(d.func, ast.Attribute) and d.func.attr in complete and len(d.args) == 1 and 'filename' in b and \
                    ast.dump(resolve_local(fn, d.args[0])) == ast.dump(resolve_local(fn, b['filename']))
                if not ok:
                    r.violate('%s:dependencies' % key, m.rel, n.lineno,
                              '%s fingerprints %s instead of the complete transitive dependency set of the same source (%s): an edit of a file that is missing from it returns the stale cache entry'
                              % (key.split('->')[0], node_src(b.get('dependencies'), 60) if b.get('dependencies') is not None else 'nothing', '/'.join(sorted(complete)) + '(source)'))
                o = b.get('compilation_options')
                ro = resolve_local(fn, o) if o is not None else None
                # a copy of the options in use with extra settings, CompilationOptions(options, x=...), is fine; a constructor call
                # that does not start from a local options object is a fresh object
                derived = isinstance(ro, ast.Call) and ro.args and isinstance(ro.args[0], ast.Name) and \
                    (ro.args[0].id in {a.arg for a in fn.args.args} or any(isinstance(x, ast.Name) and x.id == ro.args[0].id and isinstance(x.ctx, ast.Store) for x in walk_no_nested(fn)))
                if o is None or (isinstance(ro, ast.Call) and not derived):
                    r.violate('%s:options' % key, m.rel, n.lineno,
                              '%s fingerprints a freshly built options object (%s), not the options the module is compiled with' % (key.split('->')[0], node_src(o, 50) if o is not None else 'none'))
    return r


# ----------------------------------------------------------------------------------------------- Inline: K2, K3
INLINE_NEUTRAL = {'quiet': 'reporting only', 'force': 'forces a rebuild, never a hit', 'lib_dir': 'the cache directory itself',
                  'locals': 'only supplies values of unbound names, whose types are in the key', 'globals': 'same as locals',
                  'get_type': 'type mapper; its results (arg_sigs) are in the key', 'kwds': 'values; their types/names are in the key as arg_sigs'}


def _opaque_get_type(n):
    # get_type(value, ctx): the result identifies the value's type, only the first argument counts
    return False


def _inline_ctx(ctx):
    rel = 'Cython/Build/Inline.py'
    tree = ctx.parse(rel)
    fn = tables.find_function(tree, 'cython_inline')
    keyfn = tables.find_function(tree, '_inline_key')
    _OPAQUE.add('get_type')
    try:
        deps, params, stored = closure(fn)
    finally:
        _OPAQUE.clear()
    sinks = [n for n in walk_no_nested(fn) if isinstance(n, ast.Call) and isinstance(n.func, ast.Name) and n.func.id in ('cythonize', 'Extension')]
    keys = [n for n in walk_no_nested(fn) if isinstance(n, ast.Call) and isinstance(n.func, ast.Name) and n.func.id == '_inline_key']
    if not sinks or not keys:
        raise AnalysisError('cython_inline: cythonize()/Extension()/_inline_key() call sites not found')
    sink_params = set()
    for s in sinks:
        for a in list(s.args) + [k.value for k in s.keywords]:
            sink_params |= expr_sources(a, deps, stored) & params
    return rel, fn, keyfn, deps, params, stored, sinks, keys, sink_params


def rule_K2(ctx):
    r = Rule('K2', 'every parameter of cython_inline that flows into the cythonize()/Extension() build flows into every _inline_key(); _inline_key hashes each of its parameters with its '
                   'full value and the compiler version; the key text is the unstripped source', floor=10)
    rel, fn, keyfn, deps, params, stored, sinks, keys, sink_params = _inline_ctx(ctx)
    # the key function: every parameter and the compiler version reach the returned digest
    kdeps, kparams, kstored = closure(keyfn)
    rets = [n for n in walk_no_nested(keyfn) if isinstance(n, ast.Return) and n.value is not None]
    reach = set()
    for x in rets:
        reach |= expr_sources(x.value, kdeps, kstored)
    kp = [a.arg for a in keyfn.args.args]
    for p in kp:
        r.inst('_inline_key:param:' + p, sample='_inline_key hashes parameter %s' % p)
        if p not in reach:
            r.violate('Inline._inline_key:unused:%s' % p, rel, keyfn.lineno, '_inline_key does not feed its parameter %r into the digest it returns: calls differing only in %r share a module' % (p, p))
    r.inst('_inline_key:compiler-version')
    if '__version__' not in reach:
        r.violate('Inline._inline_key:compiler-version', rel, keyfn.lineno,
                  '_inline_key does not hash the Cython version: after an upgrade of the compiler cython.inline() keeps loading the modules generated by the old one')
    # dict-typed arguments must not be reduced to their keys
    dict_params = set()
    for kc in keys:
        b = bind_call(kc, kp)
        for p, a in b.items():
            if isinstance(a, ast.Name):
                vals = [n.value for n in walk_no_nested(fn) if isinstance(n, ast.Assign) and any(isinstance(t, ast.Name) and t.id == a.id for t in n.targets)]
                if vals and all(is_dict_expr(v, set()) for v in vals):
                    dict_params.add(p)
    r.inst('_inline_key:dict-params', sample='dict-typed key parameters: %s' % sorted(dict_params))
    for node, text in lossy_reductions(keyfn, dict_params):
        r.violate('Inline._inline_key:lossy-dict:%s' % re.sub(r'\W+', '', node_src(node, 40))[:30], rel, node.lineno,
                  '_inline_key: %s, so changing the VALUE of a compiler directive reuses the module built with the old value' % text)
    for kc in keys:
        b = bind_call(kc, kp)
        kparams_c = set()
        for a in b.values():
            kparams_c |= expr_sources(a, deps, stored) & params
        for p in sorted(sink_params - set(INLINE_NEUTRAL)):
            key = 'Inline.cython_inline:%s@key%d' % (p, keys.index(kc))
            r.inst(key, sample='parameter %s flows into the build; in key: %s' % (p, p in kparams_c))
            if p not in kparams_c:
                r.violate('Inline.cython_inline:%s' % p, rel, kc.lineno,
                          'parameter %r of cython_inline flows into the cythonize()/Extension() build but not into _inline_key(%s): '
                          'calls differing only in %r reuse the cached module' % (p, ', '.join(node_src(a, 30) for a in kc.args), p))
    # dependency digest (known finding K3)
    r.inst('Inline.cython_inline:dependency-digest', sample='does any _inline_key() argument derive from a dependency/fingerprint/file-hash call?')
    digest_calls = [n for n in walk_no_nested(fn) if isinstance(n, ast.Call) and re.search(r'(?i)file_hash|fingerprint|all_dependencies|dependenc', ast.unparse(n.func))]
    has_digest = False
    for kc in keys:
        knames = set()
        for a in list(kc.args) + [k.value for k in kc.keywords]:
            knames |= names_in(a)
        for dc in digest_calls:
            for n in walk_no_nested(fn):
                if isinstance(n, ast.Assign) and n.value is dc and any(isinstance(t, ast.Name) and t.id in knames for t in n.targets):
                    has_digest = True
            if any(dc is x for a in kc.args for x in ast.walk(a)):
                has_digest = True
    if not has_digest:
        r.violate('Inline.cython_inline:dependency-digest', rel, keys[-1].lineno,
                  'the inline module cache key contains no digest of the files the snippet depends on (cimported .pxd, included .pxi): '
                  'after editing such a file cython.inline() keeps returning the module built from the old contents')
    # raw-source rule
    src_param = fn.args.args[0].arg

    def tr(n, state):
        s = set(state)
        if isinstance(n, ast.Assign):
            raw_val = isinstance(n.value, ast.Name) and ('raw', n.value.id) in s
            for t in n.targets:
                for x in ast.walk(t):
                    if isinstance(x, ast.Name) and isinstance(x.ctx, ast.Store):
                        s.discard(('raw', x.id))
                        if raw_val and isinstance(t, ast.Name):
                            s.add(('raw', x.id))
        for c in pyflow.calls_in(n):
            if isinstance(c.func, ast.Name) and c.func.id == '_inline_key':
                b = bind_call(c, kp)
                a = b.get(kp[0])
                if not (isinstance(a, ast.Name) and ('raw', a.id) in s):
                    s.add(('BADKEY', c.lineno, node_src(a, 40) if a is not None else 'nothing'))
        return frozenset(s)
    o = pyflow.Flow(tr, correlate=False).run(fn, init={('raw', src_param)})
    bad = set()
    for st in o.normal | o.returns | o.raises:
        bad |= {f for f in st if f[0] == 'BADKEY'}
    r.inst('Inline.cython_inline:raw-source', sample='key text must be the unstripped %r' % src_param)
    for b in sorted(bad):
        r.violate('Inline.cython_inline:rawkey', rel, b[1],
                  '_inline_key is given %r, which on some path is not the original source text but a transformed value '
                  '(e.g. literal-stripped code): snippets differing only inside string literals/comments share a cache entry' % b[2])
    pc = ast.parse("def f(code):\n    orig = code\n    code, lit = strip(code)\n    k = _inline_key(code, 1, 2)\n").body[0]
    o = pyflow.Flow(tr, correlate=False).run(pc, init={('raw', 'code')})
    r.positive_control(any(f[0] == 'BADKEY' for st in o.normal for f in st), 'stripped code used as key')
    return r


def rule_K3(ctx):
    r = Rule('K3', 'cython.inline: the in-process cache of compiled snippets and the name under which a built module is looked up (sys.modules, file on disk) '
                   'depend on every parameter that influences the build', floor=3)
    rel, fn, keyfn, deps, params, stored, sinks, keys, sink_params = _inline_ctx(ctx)
    required = sink_params - set(INLINE_NEUTRAL)
    tree = ctx.parse(rel)
    # module-level dicts used as caches in this function
    caches = set()
    for n in tree.body:
        if isinstance(n, ast.Assign) and isinstance(n.value, (ast.Dict, ast.Call)) and isinstance(n.targets[0], ast.Name):
            if isinstance(n.value, ast.Dict) and not n.value.keys or (isinstance(n.value, ast.Call) and isinstance(n.value.func, ast.Name) and n.value.func.id in ('dict', 'OrderedDict')):
                caches.add(n.targets[0].id)
    # values that stand for "the built module"
    built = set()
    for n in walk_no_nested(fn):
        if isinstance(n, ast.Assign) and any(_is_call_to(x, 'load_dynamic') or (isinstance(x, ast.Subscript) and 'sys.modules' in ast.unparse(x.value)) for x in ast.walk(n.value)):
            built |= {t.id for t in n.targets if isinstance(t, ast.Name)}
    if not built:
        raise AnalysisError('cython_inline: the place where the built module is loaded was not found')

    def key_params(k):
        return expr_sources(k, deps, stored) & params
    arities = {}
    for n in walk_no_nested(fn):
        if isinstance(n, ast.Assign):
            for t in n.targets:
                if isinstance(t, ast.Subscript) and isinstance(t.value, ast.Name) and t.value.id in caches and names_in(n.value) & built:
                    k = t.slice
                    ar = len(k.elts) if isinstance(k, ast.Tuple) else 1
                    arities[ar] = True
                    key = 'Inline.cython_inline:memo-store:%s' % t.value.id
                    r.inst(key, sample='%s[%s] = %s' % (t.value.id, node_src(k, 50), node_src(n.value, 30)))
                    missing = required - key_params(k)
                    if missing:
                        r.violate(key + ':' + ','.join(sorted(missing)), rel, n.lineno,
                                  'the compiled function is memoised in %s under (%s), which does not depend on %s: a later call that differs only there is answered with the function built for the earlier call'
                                  % (t.value.id, node_src(k, 60), sorted(missing)))
    for n in walk_no_nested(fn):
        k = None
        if isinstance(n, ast.Call) and isinstance(n.func, ast.Attribute) and n.func.attr == 'get' and isinstance(n.func.value, ast.Name) and n.func.value.id in caches and n.args:
            k, cname = n.args[0], n.func.value.id
        elif isinstance(n, ast.Subscript) and isinstance(n.ctx, ast.Load) and isinstance(n.value, ast.Name) and n.value.id in caches:
            k, cname = n.slice, n.value.id
        if k is None:
            continue
        ar = len(k.elts) if isinstance(k, ast.Tuple) else 1
        if ar not in arities:
            continue            # another kind of entry (e.g. the unbound-symbol table keyed by the code)
        key = 'Inline.cython_inline:memo-lookup:%s' % cname
        r.inst(key, sample='%s.get(%s)' % (cname, node_src(k, 50)))
        missing = required - key_params(k)
        if missing:
            r.violate(key + ':' + ','.join(sorted(missing)), rel, n.lineno,
                      'the compiled function is looked up in %s under (%s), which does not depend on %s' % (cname, node_src(k, 60), sorted(missing)))
    # guards that skip the build: every derived name they test must identify the build completely
    parents = {}
    for p in ast.walk(fn):
        for ch in ast.iter_child_nodes(p):
            parents[id(ch)] = p
    guards = []
    for s in sinks:
        p = parents.get(id(s))
        while p is not None and p is not fn:
            if isinstance(p, ast.If) and p.test not in guards:
                guards.append(p.test)
            p = parents.get(id(p))
    if not guards:
        raise AnalysisError('cython_inline: the build is not guarded by a lookup any more')
    for g in guards:
        for x in ast.walk(g):
            if isinstance(x, ast.Name) and x.id in stored and x.id not in params and deps.get(x.id):
                src = deps[x.id] & params
                if not src:
                    continue
                key = 'Inline.cython_inline:build-guard:%s' % x.id
                r.inst(key, sample='build skipped depending on %s (from %s)' % (x.id, sorted(src)))
                missing = required - src
                if missing:
                    r.violate(key + ':' + ','.join(sorted(missing)), rel, g.lineno,
                              'the build is skipped when %r is already known (test `%s`), but %r does not depend on %s: a call that differs only there loads the module built for another call'
                              % (x.id, node_src(g, 50), x.id, sorted(missing)))
    return r


# ----------------------------------------------------------------------------------------------- K8 (pending finding)
def included_options(ctx):
    """option name -> True for options whose value get_fingerprint includes"""
    tree = ctx.parse('Cython/Compiler/Options.py')
    fn = tables.find_function(tree, 'get_fingerprint', 'CompilationOptions')
    dflt = tables.module_assign(tree, 'default_options')
    keys = [k.arg for k in dflt.keywords if k.arg]
    loop = [n for n in walk_no_nested(fn) if isinstance(n, ast.For) and isinstance(n.target, ast.Tuple) and len(n.target.elts) == 2]
    if not loop:
        raise AnalysisError('get_fingerprint: option loop not found')
    loop = loop[0]
    keyvar, valvar = loop.target.elts[0].id, loop.target.elts[1].id
    consts = {}
    for n in walk_no_nested(fn):
        if isinstance(n, ast.Assign) and len(n.targets) == 1 and isinstance(n.targets[0], ast.Name):
            c = _const_collection(n.value, {})
            if c is not None:
                consts[n.targets[0].id] = c
    datavar = [t.value.id for n in ast.walk(loop) if isinstance(n, ast.Assign) for t in n.targets if isinstance(t, ast.Subscript) and isinstance(t.value, ast.Name)][0]
    return {k for k in keys if 'included' in classify_option(loop.body, keyvar, valvar, datavar, k, consts)}


def rule_fp_final(ctx):
    """An option whose value is part of the fingerprint must have its final value when the fingerprint is taken: a store
    `options.X = v` in the function that receives the finished fingerprint is only sound when the fingerprint call was given
    options carrying the same X."""
    r = Rule('K8', 'options included in the fingerprint are not changed between fingerprinting and compiling (or the fingerprint was computed from options that already carry the same value)', floor=1)
    rel = 'Cython/Build/Dependencies.py'
    tree = ctx.parse(rel)
    inc = included_options(ctx)
    one = tables.find_function(tree, 'cythonize_one')
    main = tables.find_function(tree, 'cythonize')
    oparams = [a.arg for a in one.args.args]
    if FP not in oparams or 'options' not in oparams:
        raise AnalysisError('cythonize_one no longer takes (fingerprint, options)')
    # what cythonize() hands to cythonize_one: the to_compile tuples (first element is the sort priority)
    tuples = [n.args[0] for n in walk_no_nested(main) if isinstance(n, ast.Call) and isinstance(n.func, ast.Attribute) and n.func.attr == 'append' and
              isinstance(n.func.value, ast.Name) and n.func.value.id == 'to_compile' and n.args and isinstance(n.args[0], ast.Tuple)]
    fpcalls = [n for n in walk_no_nested(main) if _is_call_to(n, 'transitive_fingerprint')]
    if not tuples or not fpcalls:
        raise AnalysisError('cythonize: to_compile tuples / fingerprint call not found')
    for n in walk_no_nested(one):
        if isinstance(n, ast.Assign):
            for t in n.targets:
                if isinstance(t, ast.Attribute) and isinstance(t.value, ast.Name) and t.value.id == 'options':
                    key = 'Dependencies.cythonize_one:options.%s' % t.attr
                    r.inst(key, sample='%s = %s (in fingerprint: %s)' % (key, node_src(n.value, 30), t.attr in inc))
                    if t.attr not in inc:
                        continue
                    ok = False
                    if isinstance(n.value, ast.Name) and n.value.id in oparams:
                        pos = oparams.index(n.value.id)
                        for tup in tuples:
                            handed = tup.elts[pos + 1] if pos + 1 < len(tup.elts) else None
                            for fc in fpcalls:
                                b = bind_call(fc, ['filename', 'dependencies', 'compilation_options', 'flags'])
                                o = resolve_local(main, b.get('compilation_options'))
                                if isinstance(o, ast.Call) and handed is not None:
                                    for k in o.keywords:
                                        if k.arg == t.attr and ast.dump(k.value) == ast.dump(handed):
                                            ok = True
                    if not ok:
                        r.violate(key, rel, n.lineno,
                                  'cythonize_one sets options.%s after the cache fingerprint was computed in cythonize(); %r is part of the fingerprint (and of the generated C file) but the '
                                  'fingerprint saw the value before this store: two builds that differ only in it share one cache entry and the second gets the C file of the first' % (t.attr, t.attr))
    return r
