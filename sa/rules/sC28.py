"""C28-DISP: dispatch inside the BinopSlot template — every path through the generated nb_* slot function.

generate_binop_function instantiates the `BinopSlot` template of ExtensionTypes.c once per binary operator of an extension type
with (overloads_left, overloads_right) in {(1,1), (1,0), (0,1)}: `{{call_left}}` is "what to call when self is the left operand"
(the user's __op__, or the base type's slot when the type does not define it), `{{call_right}}` the same for the reflected method.
CPython's binary_op1 calls this function with (left, right); the function decides with two flags which operand may be `self`.

Whatever the decision logic looks like, an equivalent Python class (slot_nb_* in typeobject.c / the data model, 3.3.8) obeys on every
single slot invocation:
  ONCE   neither the forward nor the reflected method is called twice (a second call after NotImplemented is observable: the user's
         method runs twice with the same arguments);
  SELF   the user's reflected method is only called with `right` type-checked against the extension type (it is passed as self,
         a wrong guard is a type confusion), the forward method only with `left` checked;
  TRY    when the function gives up (returns the NotImplemented singleton itself) although a flag said that operand X may be self, the
         call for X has been made on that path (otherwise a defined method is silently never consulted).

The rule expands the template for the three instantiations (mini Tempita expander of rules/pC15, placeholders for the context
strings), resolves its #if lines by enumeration, and explores every path of the slot function with rules/sC22.Explorer: flags assigned
from type tests are forked over {0, 1} at the assignment (the disjunct `Py_TYPE(left) == Py_TYPE(right)` shared by both flags is one
boolean of the path state, so same-type paths set both flags) and remember which operand they test (the operand that occurs in a call
together with the type object), `res != Py_NotImplemented` is explored both ways.  Nothing is compiled or run.
"""
import re

from ..core import Rule, AnalysisError
from ..engine.cutil import strip_c_comments
from ..engine.cguard import _match_brace
from .pC15 import tempita_expand
from .sC22 import Explorer, Client, pp_variants

FUNC, TYPE = '__pyx_SLOTFN', '__pyx_TYPEOBJ'
CALLS = {'left': '__pyx_CALL_LEFT', 'right': '__pyx_CALL_RIGHT'}
CONFIGS = ((1, 1), (1, 0), (0, 1))


def context(ol, orr):
    return {'overloads_left': ol, 'overloads_right': orr, 'func_name': FUNC, 'slot_name': 'nb_x', 'type_cname': TYPE, 'slot_type': 'binaryfunc',
            'extra_arg': '', 'extra_arg_decl': '',
            # the self operand comes first, as generate_binop_function builds it (checked by C28-TPL)
            'call_left': '%s(left, right)' % CALLS['left'], 'call_right': '%s(right, left)' % CALLS['right']}


def slot_function(expanded):
    """(parameter names, body text) of the function named FUNC in an expanded template"""
    m = re.search(r'\b%s\s*\(([^(){};]*)\)\s*\{' % re.escape(FUNC), expanded)
    if not m:
        raise AnalysisError('BinopSlot template: definition of {{func_name}} not found')
    params = [re.findall(r'\w+', p)[-1] for p in m.group(1).split(',') if p.strip()]
    b0 = m.end() - 1
    return params, expanded[b0:_match_brace(expanded, b0) + 1]


SAME_MARK = frozenset({'=='})


def _balanced(t):
    d = 0
    for ch in t:
        d += ch == '('
        d -= ch == ')'
        if d < 0:
            return False
    return d == 0


def _split_or(t):
    """top-level operands of a || chain"""
    out, cur, depth, i = [], '', 0, 0
    while i < len(t):
        ch = t[i]
        if ch == '(':
            depth += 1
        elif ch == ')':
            depth -= 1
        if depth == 0 and t.startswith('||', i):
            out.append(cur.strip())
            cur = ''
            i += 2
            continue
        cur += ch
        i += 1
    out.append(cur.strip())
    return out


class SlotClient(Client):
    events = tuple(CALLS.values())

    def __init__(self, operands, same=None):
        self.operands = operands
        self.same = same        # None: the same-exact-type situation is not distinguished; 0/1: explored separately (rule C28-SAME)

    def symmetric(self, d, env):
        """is the disjunct `d` the test "both operands have the same exact type" (or a flag holding it)?"""
        t = ''.join(d.split())
        while t.startswith('(') and t.endswith(')') and _balanced(t[1:-1]):
            t = t[1:-1]
        a, b = self.operands
        forms = {'Py_TYPE(%s)==Py_TYPE(%s)' % (a, b), 'Py_TYPE(%s)==Py_TYPE(%s)' % (b, a), 'Py_IS_TYPE(%s,Py_TYPE(%s))' % (a, b), 'Py_IS_TYPE(%s,Py_TYPE(%s))' % (b, a)}
        if t in forms:
            return True
        v = env.get(t) if env is not None else None
        return isinstance(v, tuple) and v[0] == 'F' and v[2] == SAME_MARK

    def subjects(self, text):
        """operands that occur in one call together with the type object or compared with the slot function itself"""
        subj = set()
        for m in re.finditer(r'\b\w+\s*\(((?:[^()]|\((?:[^()]|\([^()]*\))*\))*)\)', text):
            if re.search(r'\b%s\b' % TYPE, m.group(1)):
                subj |= {o for o in self.operands if re.search(r'\b%s\b' % o, m.group(1))}
        for m in re.finditer(r'([^|&]*?)==\s*&?\s*%s\b' % re.escape(FUNC), text):
            subj |= {o for o in self.operands if re.search(r'\b%s\b' % o, m.group(1))}
        return frozenset(subj)

    def flag_values(self, text, env=None):
        t = text.strip()
        if self.same is not None:
            parts = [p for p in _split_or(t)]
            sym = [p for p in parts if self.symmetric(p, env)]
            if sym:
                if len(parts) == 1:
                    return [('F', self.same, SAME_MARK)]
                if self.same:
                    rest = ' || '.join(p for p in parts if p not in sym)
                    return [('F', 1, self.subjects(rest))]
                t = ' || '.join(p for p in parts if p not in sym)
        if re.fullmatch(r'\(*\s*[01]\s*\)*', t):
            return [('F', int(re.search(r'[01]', t).group(0)), frozenset())]
        if any(c in t for c in CALLS.values()) or not any(re.search(r'\b%s\b' % o, t) for o in self.operands):
            return None
        subj = self.subjects(t)
        if not subj:
            raise AnalysisError('BinopSlot: cannot tell which operand the flag expression `%s` type-checks' % ' '.join(t.split())[:90])
        return [('F', 0, subj), ('F', 1, subj)]

    def values(self, e, env):
        if e[0] == 'num' and e[1] in (0, 1):
            return [('F', e[1], frozenset())]
        if e[0] == 'id' and isinstance(env.get(e[1]), tuple):
            return [env[e[1]]]
        return ['UNK']

    def values_text(self, text, env):
        return self.flag_values(text, env)

    def assign_text(self, text, env=None):
        return self.flag_values(text, env)

    def atom(self, e, env):
        if e[0] == 'id':
            v = env.get(e[1])
            if isinstance(v, tuple) and v[0] == 'F':
                return bool(v[1])
        return None

    def assigned(self, name, value):
        if isinstance(value, tuple) and value[0] == 'F' and value[1] == 1 and value[2]:
            return ('flag', name, value[2])
        return None

    def event(self, name, args, env):
        side = [k for k, v in CALLS.items() if v == name][0]
        held = frozenset(o for v in env.values() if isinstance(v, tuple) and v[0] == 'F' and v[1] == 1 for o in v[2])
        # flags whose value is 1 *and* which have been computed from a type test of their subject
        return ('call', side, held)

    def returned(self, text, env):
        if any(c in text for c in CALLS.values()):
            return ('ret', 'call')
        if re.search(r'\bPy_NotImplemented\b', text):
            return ('ret', 'NotImplemented')
        return ('ret', 'value')


class FlagExplorer(Explorer):
    """flag expressions contain `Py_TYPE(x)->tp_as_number->slot`, which engine/cexpr does not read: assignments whose right-hand side
    mentions an operand are classified on the text (SlotClient.flag_values) before the expression parser is tried"""

    def assign(self, name, rhs, state):
        if rhs is not None:
            vals = self.c.assign_text(rhs, dict(state[0]))
            if vals is not None:
                env, trace = dict(state[0]), state[1]
                out = []
                for v in vals:
                    e2 = dict(env)
                    e2[name] = v
                    ev = self.c.assigned(name, v)
                    out.append(self.freeze(e2, trace + ((ev,) if ev is not None else ())))
                return out
        return Explorer.assign(self, name, rhs, state)


def dispatch_problems(template_text, what='BinopSlot'):
    """-> (instances [(key, sample)], problems [(key, message)]) for the three instantiations of a BinopSlot-shaped template"""
    insts, probs = [], {}
    text = strip_c_comments(template_text)
    for ol, orr in CONFIGS:
        cfg = '%s[left=%d,right=%d]' % (what, ol, orr)
        expanded = tempita_expand(text, context(ol, orr))
        params, body = slot_function(expanded)
        if len(params) < 2:
            raise AnalysisError('%s: slot function with %d parameters' % (cfg, len(params)))
        operands = params[:2]
        user = {'left': bool(ol), 'right': bool(orr)}
        selfop = {'left': operands[0], 'right': operands[1]}
        npaths, ncalls = 0, {'left': 0, 'right': 0}
        once_bad, self_bad, try_bad = {}, {}, {}
        for label, variant in pp_variants(body):
            # the situation "both operands have the same exact type" (a disjunct of both flags) is explored separately
            finals = set()
            for same in (0, 1):
                finals |= {(env, trace) for env, trace in FlagExplorer(SlotClient(operands, same=same), cfg).run(variant)}
            npaths += len(finals)
            for env, trace in finals:
                calls = [ev for ev in trace if ev[0] == 'call']
                for side in ('left', 'right'):
                    n = sum(1 for ev in calls if ev[1] == side)
                    ncalls[side] = max(ncalls[side], n)
                    if n > 1:
                        once_bad.setdefault(side, label)
                for ev in calls:
                    if user[ev[1]] and selfop[ev[1]] not in ev[2]:
                        self_bad.setdefault(ev[1], label)
                if trace and trace[-1] == ('ret', 'NotImplemented'):
                    for ev in trace:
                        if ev[0] == 'flag':
                            for side in ('left', 'right'):
                                if selfop[side] in ev[2] and not any(c[1] == side for c in calls):
                                    try_bad.setdefault(side, (label, ev[1]))
        if not npaths:
            raise AnalysisError('%s: no path through the slot function' % cfg)
        for side in ('left', 'right'):
            k = '%s:call_%s' % (cfg, side)
            kind = 'user method' if user[side] else 'base-type slot'
            insts.append((k + ':once', '%s (%s): at most once on each of %d paths' % (k, kind, npaths)))
            insts.append((k + ':tried', '%s: made before giving up whenever a flag says %s may be self' % (k, selfop[side])))
            if user[side]:
                insts.append((k + ':self', '%s: only under a flag that type-checks %s' % (k, selfop[side])))
            what_m = ('__r%s__' if side == 'right' else '__%s__') % 'op'
            if side in once_bad:
                probs[k + ':once'] = ('with overloads_left=%d, overloads_right=%d the slot function can evaluate {{call_%s}} twice in one invocation (%s; #if: %s): after the %s '
                                      'returned NotImplemented it is asked again with the same operands — a Python class calls it once' % (
                                          ol, orr, side, kind, once_bad[side], what_m if user[side] else 'base slot'))
            if side in self_bad:
                probs[k + ':self'] = ('with overloads_left=%d, overloads_right=%d {{call_%s}} (the user\'s %s, self = `%s`) is reachable on a path where no flag computed from a type '
                                      'test of `%s` is set (#if: %s): the method would run with a self of the wrong type' % (ol, orr, side, what_m, selfop[side], selfop[side], self_bad[side]))
            if ncalls[side] == 0:
                probs[k + ':tried'] = ('with overloads_left=%d, overloads_right=%d {{call_%s}} is not reachable on any path of the slot function: the %s is never consulted' % (ol, orr, side, kind))
            elif side in try_bad:
                probs[k + ':tried'] = ('with overloads_left=%d, overloads_right=%d the slot function returns NotImplemented although `%s` was set from a type test of `%s` and {{call_%s}} '
                                       'was never made on that path (#if: %s): the %s is silently skipped' % (ol, orr, try_bad[side][1], selfop[side], side, try_bad[side][0], kind))
    return insts, sorted(probs.items())


CONTROL = '''
static PyObject *{{func_name}}(PyObject *left, PyObject *right {{extra_arg_decl}}) {
    int maybe_self_is_left, maybe_self_is_right = 0;
    maybe_self_is_left = Py_TYPE(left) == Py_TYPE(right) || __Pyx_TypeCheck(left, {{type_cname}});
    {{if not overloads_left}}
    maybe_self_is_right = Py_TYPE(left) == Py_TYPE(right) || __Pyx_TypeCheck(right, {{type_cname}});
    {{endif}}
    if (maybe_self_is_left) {
        PyObject *res;
        {{if overloads_right and not overloads_left}}
        if (maybe_self_is_right) {
            res = {{call_right}};
            if (res != Py_NotImplemented) return res;
            Py_DECREF(res);
        }
        {{endif}}
        res = {{call_left}};
        if (res != Py_NotImplemented) return res;
        Py_DECREF(res);
    }
    {{if overloads_left}}
    maybe_self_is_right = Py_TYPE(left) == Py_TYPE(right) || PyType_IsSubtype(Py_TYPE(right), {{type_cname}});
    {{endif}}
    if (maybe_self_is_right) {
        return {{call_right}};
    }
    return __Pyx_NewRef(Py_NotImplemented);
}
'''


def rule_dispatch(ctx, floor=13):
    r = Rule('C28-DISP', 'BinopSlot template, all three instantiations x #if arms x paths: the forward / reflected method (or the base-type slot standing in for it) is '
             'called at most once per slot invocation, a user method only under a flag that type-checks its self operand, and it has been tried '
             'whenever the function gives up with NotImplemented although that flag was set', floor)
    rel = 'Cython/Utility/ExtensionTypes.c'
    sec = ctx.cat.files.get('ExtensionTypes.c', {}).get('BinopSlot', {})
    sec = sec.get('impl')
    if sec is None:
        raise AnalysisError('utility section ExtensionTypes.c::BinopSlot vanished')
    insts, probs = dispatch_problems(sec.raw)
    for k, sample in insts:
        r.inst('ExtensionTypes.c:' + k, sample=sample)
    for k, msg in probs:
        r.violate('ExtensionTypes.c:' + k, rel, sec.line, msg)
    _, ctl = dispatch_problems(CONTROL, 'control')
    r.positive_control([k for k, _ in ctl] == ['control[left=0,right=1]:call_right:once'], 'reflected method asked again after NotImplemented (flag not cleared)')
    return r


def same_type_problems(template_text, what='BinopSlot'):
    """paths on which both operands have the same exact type: an equivalent Python class only ever calls the forward method
    (slot_nb_* returns after it when Py_IS_TYPE(other, Py_TYPE(self)); binary_op1 does not try a second slot for identical types)"""
    insts, probs = [], {}
    text = strip_c_comments(template_text)
    for ol, orr in CONFIGS:
        cfg = '%s[left=%d,right=%d]' % (what, ol, orr)
        expanded = tempita_expand(text, context(ol, orr))
        params, body = slot_function(expanded)
        operands = params[:2]
        key = '%s:call_right:same-type' % cfg
        npaths = 0
        for label, variant in pp_variants(body):
            for env, trace in FlagExplorer(SlotClient(operands, same=1), cfg).run(variant):
                npaths += 1
                calls = [ev[1] for ev in trace if ev[0] == 'call']
                if 'right' in calls:
                    probs.setdefault(key, 'with overloads_left=%d, overloads_right=%d and both operands of the same exact type the slot function evaluates {{call_right}} (calls made: %s; #if: %s): '
                                     'a Python class only tries the forward method for `a OP b` with type(a) is type(b) and raises TypeError when it returns NotImplemented' % (
                                         ol, orr, ' then '.join('call_' + c for c in calls), label))
        if not npaths:
            raise AnalysisError('%s: no same-type path' % cfg)
        insts.append((key, '%s: %d same-type paths' % (key, npaths)))
    return insts, sorted(probs.items())


FIXED_CONTROL = CONTROL.replace('int maybe_self_is_left, maybe_self_is_right = 0;', 'int maybe_self_is_left, maybe_self_is_right = 0;\n    const int same_type = Py_TYPE(left) == Py_TYPE(right);') \
    .replace('if (maybe_self_is_right) {\n            res = {{call_right}};', 'if (maybe_self_is_right && !same_type) {\n            res = {{call_right}};') \
    .replace('res = {{call_left}};\n        if (res != Py_NotImplemented) return res;', 'res = {{call_left}};\n        if (res != Py_NotImplemented || same_type) return res;')


# pending finding (FINDING_1): reports the three instantiations on the unmodified tree — NOT registered in props/C28.run()
def rule_same_type(ctx, floor=3):
    r = Rule('C28-SAME', 'BinopSlot template: when both operands have the same exact type only {{call_left}} (the forward method) is evaluated, as for a Python class', floor)
    rel = 'Cython/Utility/ExtensionTypes.c'
    sec = ctx.cat.files.get('ExtensionTypes.c', {}).get('BinopSlot', {}).get('impl')
    if sec is None:
        raise AnalysisError('utility section ExtensionTypes.c::BinopSlot vanished')
    insts, probs = same_type_problems(sec.raw)
    for k, sample in insts:
        r.inst('ExtensionTypes.c:' + k, sample=sample)
    for k, msg in probs:
        r.violate('ExtensionTypes.c:' + k, rel, sec.line, msg)
    _, bad = same_type_problems(CONTROL, 'control')
    _, good = same_type_problems(FIXED_CONTROL, 'control')
    r.positive_control(len(bad) == 3 and not good, 'reflected method tried for operands of identical type; silent on the same_type-guarded variant')
    return r
