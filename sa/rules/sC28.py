"""C28-DISP: dispatch inside the BinopSlot template — every path through the generated nb_* slot function.

generate_binop_function instantiates the `BinopSlot` template of ExtensionTypes.c once per binary operator of an extension type
with (overloads_left, overloads_right) in {(1,1), (1,0), (0,1)}: `{{call_left}}` is "what to call when self is the left operand"
(the user's __op__, or the base type's slot when the type does not define it), `{{call_right}}` the same for the reflected method.
CPython's binary_op1 calls this function with (left, right); the function decides with two flags which operand may be `self`.

Whatever the decision logic looks like, an equivalent Python class (slot_nb_* in typeobject.c / the data model, 3.3.8) obeys on every
single slot invocation:
  ONCE   neither the forward nor the reflected method is called twice (a second call after NotImplemented is observable: the user's
         method runs twice with the same arguments);
  SELF   the user's reflected method is only called with `right` type-checked against the extension type (it is passed as self,
         a wrong guard is a type confusion), the forward method only with `left` checked;
  TRY    when the function gives up (returns the NotImplemented singleton itself) although a flag said that operand X may be self, the
         call for X has been made on that path (otherwise a defined method is silently never consulted).

The rule expands the template for the three instantiations (mini Tempita expander of rules/pC15, placeholders for the context
strings), resolves its #if lines by enumeration, and explores every path of the slot function with rules/sC22.Explorer: flags assigned
from type tests are forked over {0, 1} at the assignment (the disjunct `Py_TYPE(left) == Py_TYPE(right)` shared by both flags is one
boolean of the path state, so same-type paths set both flags) and remember which operand they test (the operand that occurs in a call
together with the type object), `res != Py_NotImplemented` is explored both ways.  Nothing is compiled or run.
"""
import re

from ..core import Rule, AnalysisError
from ..engine.cutil import strip_c_comments
from ..engine.cguard import _match_brace
from .pC15 import tempita_expand
from .sC22 import Explorer, Client, pp_variants

FUNC, TYPE = '__pyx_SLOTFN', '__pyx_TYPEOBJ'
CALLS = {'left': '__pyx_CALL_LEFT', 'right': '__pyx_CALL_RIGHT'}
CONFIGS = ((1, 1), (1, 0), (0, 1))


def context(ol, orr):
    return {'overloads_left': ol, 'overloads_right': orr, 'func_name': FUNC, 'slot_name': 'nb_x', 'type_cname': TYPE, 'slot_type': 'binaryfunc',
            'extra_arg': '', 'extra_arg_decl': '',
            # the self operand comes first, as generate_binop_function builds it (checked by C28-TPL)
            'call_left': '%s(left, right)' % CALLS['left'], 'call_right': '%s(right, left)' % CALLS['right']}


def slot_function(expanded):
    """(parameter names, body text) of the function named FUNC in an expanded template"""
    m = re.search(r'\b%s\s*\(([^(){};]*)\)\s*\{' % re.escape(FUNC), expanded)
    if not m:
        raise AnalysisError('BinopSlot template: definition of {{func_name}} not found')
    params = [re.findall(r'\w+', p)[-1] for p in m.group(1).split(',') if p.strip()]
    b0 = m.end() - 1
    return params, expanded[b0:_match_brace(expanded, b0) + 1]


SAME_MARK = frozenset({'=='})


def _balanced(t):
    d = 0
    for ch in t:
        d += ch == '('
        d -= ch == ')'
        if d < 0:
            return False
    return d == 0


def _split_or(t):
    """top-level operands of a || chain"""
    out, cur, depth, i = [], '', 0, 0
    while i < len(t):
        ch = t[i]
        if ch == '(':
            depth += 1
        elif ch == ')':
            depth -= 1
        if depth == 0 and t.startswith('||', i):
            out.append(cur.strip())
            cur = ''
            i += 2
            continue
        cur += ch
        i += 1
    out.append(cur.strip())
    return out


class SlotClient(Client):
    events = tuple(CALLS.values())

    def __init__(self, operands, same=None):
        self.operands = operands
        self.same = same        # None: the same-exact-type situation is not distinguished; 0/1: explored separately (rule C28-SAME)
        self.mixed, self.exact_only = [], []

    def symmetric(self, d, env):
        """is the disjunct `d` the test "both operands have the same exact type" (or a flag holding it)?"""
        t = ''.join(d.split())
        while t.startswith('(') and t.endswith(')') and _balanced(t[1:-1]):
            t = t[1:-1]
        a, b = self.operands
        forms = {'Py_TYPE(%s)==Py_TYPE(%s)' % (a, b), 'Py_TYPE(%s)==Py_TYPE(%s)' % (b, a), 'Py_IS_TYPE(%s,Py_TYPE(%s))' % (a, b), 'Py_IS_TYPE(%s,Py_TYPE(%s))' % (b, a)}
        if t in forms:
            return True
        v = env.get(t) if env is not None else None
        return isinstance(v, tuple) and v[0] == 'F' and v[2] == SAME_MARK

    def subjects(self, text):
        """operands that occur in one call together with the type object or compared with the slot function itself"""
        subj = set()
        for m in re.finditer(r'\b\w+\s*\(((?:[^()]|\((?:[^()]|\([^()]*\))*\))*)\)', text):
            if re.search(r'\b%s\b' % TYPE, m.group(1)):
                subj |= {o for o in self.operands if re.search(r'\b%s\b' % o, m.group(1))}
        for m in re.finditer(r'([^|&]*?)==\s*&?\s*%s\b' % re.escape(FUNC), text):
            subj |= {o for o in self.operands if re.search(r'\b%s\b' % o, m.group(1))}
        # exact-type tests written as a comparison: Py_TYPE(x) == T  /  T == Py_TYPE(x)
        for m in re.finditer(r'Py_TYPE\s*\(\s*(\w+)\s*\)\s*==\s*\(?\s*%s\b|\b%s\s*\)?\s*==\s*Py_TYPE\s*\(\s*(\w+)\s*\)' % (TYPE, TYPE), text):
            o = m.group(1) or m.group(2)
            if o in self.operands:
                subj.add(o)
        return frozenset(subj)

    SUBTYPE_TEST = re.compile(r'\b(__Pyx_TypeCheck|PyType_IsSubtype|__Pyx_IsSubtype|PyObject_TypeCheck|__Pyx_TypeTest|PyObject_IsInstance)\s*\(')

    def note_flag(self, text, env):
        """per-disjunct bookkeeping of a flag expression (clauses FLAGOP and SUBTYPE)"""
        parts = [p for p in _split_or(text.strip()) if not self.symmetric(p, env)]
        tests = [(p, self.subjects(p)) for p in parts]
        tests = [(p, s) for p, s in tests if s]
        if not tests:
            return
        ops = set()
        for p, s in tests:
            ops |= s
        if len(ops) > 1:
            self.mixed.append((' '.join(text.split())[:120], tuple(sorted(ops))))
        admits = any(self.SUBTYPE_TEST.search(p) or re.search(r'==\s*&?\s*%s\b' % re.escape(FUNC), p) for p, s in tests)
        if not admits:
            self.exact_only.append((' '.join(text.split())[:120], tuple(sorted(ops))))

    def flag_values(self, text, env=None):
        t = text.strip()
        if not any(c in t for c in CALLS.values()) and any(re.search(r'\b%s\b' % o, t) for o in self.operands):
            self.note_flag(t, env)
        if self.same is not None:
            parts = [p for p in _split_or(t)]
            sym = [p for p in parts if self.symmetric(p, env)]
            if sym:
                if len(parts) == 1:
                    return [('F', self.same, SAME_MARK)]
                if self.same:
                    rest = ' || '.join(p for p in parts if p not in sym)
                    return [('F', 1, self.subjects(rest))]
                t = ' || '.join(p for p in parts if p not in sym)
        if re.fullmatch(r'\(*\s*[01]\s*\)*', t):
            return [('F', int(re.search(r'[01]', t).group(0)), frozenset())]
        if any(c in t for c in CALLS.values()) or not any(re.search(r'\b%s\b' % o, t) for o in self.operands):
            return None
        subj = self.subjects(t)
        if not subj:
            raise AnalysisError('BinopSlot: cannot tell which operand the flag expression `%s` type-checks' % ' '.join(t.split())[:90])
        return [('F', 0, subj), ('F', 1, subj)]

    def values(self, e, env):
        if e[0] == 'num' and e[1] in (0, 1):
            return [('F', e[1], frozenset())]
        if e[0] == 'id' and isinstance(env.get(e[1]), tuple):
            return [env[e[1]]]
        if e[0] == 'call' and e[1] in CALLS.values():
            # the result of the forward / reflected call; third field: 0 not compared with NotImplemented yet, 1 known to be a real result, 2 known to be NotImplemented
            return [('R', [k for k, v in CALLS.items() if v == e[1]][0], 0)]
        return ['UNK']

    def _result_test(self, e, env):
        """(variable, polarity) when e compares a tracked call result with Py_NotImplemented: polarity True for `!=`"""
        if e[0] == 'bin' and e[1] in ('==', '!='):
            for a, b in ((e[2], e[3]), (e[3], e[2])):
                if a[0] == 'id' and b[0] == 'id' and b[1] == 'Py_NotImplemented' and isinstance(env.get(a[1]), tuple) and env[a[1]][0] == 'R':
                    return a[1], e[1] == '!='
        return None

    def assume(self, e, truth, env):
        rt = self._result_test(e, env)
        if rt is not None:
            name, ne = rt
            v = env[name]
            env = dict(env)
            env[name] = ('R', v[1], 1 if (truth == ne) else 2)
        return env

    def values_text(self, text, env):
        return self.flag_values(text, env)

    def assign_text(self, text, env=None):
        return self.flag_values(text, env)

    def atom(self, e, env):
        if e[0] == 'id':
            v = env.get(e[1])
            if isinstance(v, tuple) and v[0] == 'F':
                return bool(v[1])
        rt = self._result_test(e, env)
        if rt is not None:
            st = env[rt[0]][2]
            if st:
                return (st == 1) == rt[1]
        return None

    def assigned(self, name, value):
        if isinstance(value, tuple) and value[0] == 'F' and value[1] == 1 and value[2]:
            return ('flag', name, value[2])
        return None

    def event(self, name, args, env):
        side = [k for k, v in CALLS.items() if v == name][0]
        held = frozenset(o for v in env.values() if isinstance(v, tuple) and v[0] == 'F' and v[1] == 1 for o in v[2])
        # flags whose value is 1 *and* which have been computed from a type test of their subject
        return ('call', side, held)

    def returned(self, text, env):
        v = env.get(text.strip())
        if isinstance(v, tuple) and v[0] == 'R':
            return ('ret', 'result', v[1], v[2])
        if any(c in text for c in CALLS.values()):
            return ('ret', 'call')
        if re.search(r'\bPy_NotImplemented\b', text):
            return ('ret', 'NotImplemented')
        return ('ret', 'value')


class FlagExplorer(Explorer):
    """flag expressions contain `Py_TYPE(x)->tp_as_number->slot`, which engine/cexpr does not read: assignments whose right-hand side
    mentions an operand are classified on the text (SlotClient.flag_values) before the expression parser is tried"""

    def assign(self, name, rhs, state):
        if rhs is not None:
            vals = self.c.assign_text(rhs, dict(state[0]))
            if vals is not None:
                env, trace = dict(state[0]), state[1]
                out = []
                for v in vals:
                    e2 = dict(env)
                    e2[name] = v
                    ev = self.c.assigned(name, v)
                    out.append(self.freeze(e2, trace + ((ev,) if ev is not None else ())))
                return out
        return Explorer.assign(self, name, rhs, state)


def dispatch_problems(template_text, what='BinopSlot'):
    """-> (instances [(key, sample)], problems [(key, message)]) for the three instantiations of a BinopSlot-shaped template"""
    insts, probs = [], {}
    text = strip_c_comments(template_text)
    for ol, orr in CONFIGS:
        cfg = '%s[left=%d,right=%d]' % (what, ol, orr)
        expanded = tempita_expand(text, context(ol, orr))
        params, body = slot_function(expanded)
        if len(params) < 2:
            raise AnalysisError('%s: slot function with %d parameters' % (cfg, len(params)))
        operands = params[:2]
        user = {'left': bool(ol), 'right': bool(orr)}
        selfop = {'left': operands[0], 'right': operands[1]}
        npaths, ncalls = 0, {'left': 0, 'right': 0}
        once_bad, self_bad, try_bad, blind_bad, mixed_bad, exact_bad = {}, {}, {}, {}, {}, {}
        for label, variant in pp_variants(body):
            # the situation "both operands have the same exact type" (a disjunct of both flags) is explored separately
            finals = set()
            for same in (0, 1):
                cl = SlotClient(operands, same=same)
                got = {(env, trace) for env, trace in FlagExplorer(cl, cfg).run(variant)}
                finals |= got
                for ftext, ops in cl.mixed:
                    mixed_bad.setdefault(ftext, (label, ops))
                for ftext, ops in cl.exact_only:
                    exact_bad.setdefault(ftext, (label, ops))
                if not same:
                    for env, trace in got:
                        last = trace[-1] if trace else None
                        if last and last[0] == 'ret' and last[1] == 'result' and last[3] == 0:
                            calls = [ev[1] for ev in trace if ev[0] == 'call']
                            other = 'right' if last[2] == 'left' else 'left'
                            if other not in calls:
                                blind_bad.setdefault(last[2], label)
            npaths += len(finals)
            for env, trace in finals:
                calls = [ev for ev in trace if ev[0] == 'call']
                for side in ('left', 'right'):
                    n = sum(1 for ev in calls if ev[1] == side)
                    ncalls[side] = max(ncalls[side], n)
                    if n > 1:
                        once_bad.setdefault(side, label)
                for ev in calls:
                    if user[ev[1]] and selfop[ev[1]] not in ev[2]:
                        self_bad.setdefault(ev[1], label)
                if trace and trace[-1] == ('ret', 'NotImplemented'):
                    for ev in trace:
                        if ev[0] == 'flag':
                            for side in ('left', 'right'):
                                if selfop[side] in ev[2] and not any(c[1] == side for c in calls):
                                    try_bad.setdefault(side, (label, ev[1]))
        if not npaths:
            raise AnalysisError('%s: no path through the slot function' % cfg)
        insts.append(('%s:flags' % cfg, '%s: every flag type-checks one operand and admits subclass instances' % cfg))
        for ftext, (label, ops) in sorted(mixed_bad.items()):
            probs['%s:flags:mixed-operands' % cfg] = ('with overloads_left=%d, overloads_right=%d the flag expression `%s` combines type tests of `%s` and `%s` (#if: %s): the flag can be set by the '
                                                     'wrong operand, and the method guarded by it then runs with a self that was never checked / is skipped for the operand that was' % (ol, orr, ftext, ops[0], ops[1], label))
        for ftext, (label, ops) in sorted(exact_bad.items()):
            probs['%s:flags:no-subtype-test' % cfg] = ('with overloads_left=%d, overloads_right=%d the flag expression `%s` (#if: %s) contains no test that is true for an instance of a subclass of the '
                                                      'extension type (__Pyx_TypeCheck / PyType_IsSubtype / own-slot comparison): subclass operands never reach the user\'s method' % (ol, orr, ftext, label))
        mcs = re.search(r'\b%s_maybe_call_slot\s*\(([^(){};]*)\)\s*\{' % re.escape(FUNC), expanded)
        if mcs:
            hp = [re.findall(r'\w+', p)[-1] for p in mcs.group(1).split(',') if p.strip()]
            hb0 = mcs.end() - 1
            hbody = expanded[hb0:_match_brace(expanded, hb0) + 1]
            calls_ = re.findall(r'\bslot\s*\(([^()]*)\)', hbody)
            k = '%s:maybe_call_slot:args' % cfg
            insts.append((k, '%s: inherited slot called with %s' % (k, calls_)))
            if not calls_ or len(hp) < 3:
                raise AnalysisError('%s: {{func_name}}_maybe_call_slot no longer calls the slot pointer of the base type' % cfg)
            for a in calls_:
                got = [x.strip() for x in a.split(',') if x.strip()]
                if got[:2] != hp[1:3]:
                    probs[k] = ('{{func_name}}_maybe_call_slot(type, %s, %s) calls the inherited slot with (%s): the base type\'s operator sees its operands exchanged '
                                '(a - b computed as b - a for an operator inherited from a cdef base class)' % (hp[1], hp[2], ', '.join(got[:2])))
        for side in ('left', 'right'):
            k = '%s:call_%s' % (cfg, side)
            kind = 'user method' if user[side] else 'base-type slot'
            if side in blind_bad:
                other = 'right' if side == 'left' else 'left'
                probs[k + ':result-untested'] = ('with overloads_left=%d, overloads_right=%d the slot function returns the result of {{call_%s}} without comparing it with Py_NotImplemented on a path where '
                                                 '{{call_%s}} has not been tried and the operands have different types (#if: %s): a %s returning NotImplemented is never followed by the %s method of the other operand' % (
                                                     ol, orr, side, other, blind_bad[side], 'forward method' if side == 'left' else 'reflected method', 'reflected' if side == 'left' else 'forward'))
            insts.append((k + ':once', '%s (%s): at most once on each of %d paths' % (k, kind, npaths)))
            insts.append((k + ':tried', '%s: made before giving up whenever a flag says %s may be self' % (k, selfop[side])))
            if user[side]:
                insts.append((k + ':self', '%s: only under a flag that type-checks %s' % (k, selfop[side])))
            what_m = ('__r%s__' if side == 'right' else '__%s__') % 'op'
            if side in once_bad:
                probs[k + ':once'] = ('with overloads_left=%d, overloads_right=%d the slot function can evaluate {{call_%s}} twice in one invocation (%s; #if: %s): after the %s '
                                      'returned NotImplemented it is asked again with the same operands — a Python class calls it once' % (
                                          ol, orr, side, kind, once_bad[side], what_m if user[side] else 'base slot'))
            if side in self_bad:
                probs[k + ':self'] = ('with overloads_left=%d, overloads_right=%d {{call_%s}} (the user\'s %s, self = `%s`) is reachable on a path where no flag computed from a type '
                                      'test of `%s` is set (#if: %s): the method would run with a self of the wrong type' % (ol, orr, side, what_m, selfop[side], selfop[side], self_bad[side]))
            if ncalls[side] == 0:
                probs[k + ':tried'] = ('with overloads_left=%d, overloads_right=%d {{call_%s}} is not reachable on any path of the slot function: the %s is never consulted' % (ol, orr, side, kind))
            elif side in try_bad:
                probs[k + ':tried'] = ('with overloads_left=%d, overloads_right=%d the slot function returns NotImplemented although `%s` was set from a type test of `%s` and {{call_%s}} '
                                       'was never made on that path (#if: %s): the %s is silently skipped' % (ol, orr, try_bad[side][1], selfop[side], side, try_bad[side][0], kind))
    return insts, sorted(probs.items())


CONTROL = '''
static PyObject *{{func_name}}(PyObject *left, PyObject *right {{extra_arg_decl}}) {
    int maybe_self_is_left, maybe_self_is_right = 0;
    maybe_self_is_left = Py_TYPE(left) == Py_TYPE(right) || __Pyx_TypeCheck(left, {{type_cname}});
    {{if not overloads_left}}
    maybe_self_is_right = Py_TYPE(left) == Py_TYPE(right) || __Pyx_TypeCheck(right, {{type_cname}});
    {{endif}}
    if (maybe_self_is_left) {
        PyObject *res;
        {{if overloads_right and not overloads_left}}
        if (maybe_self_is_right) {
            res = {{call_right}};
            if (res != Py_NotImplemented) return res;
            Py_DECREF(res);
        }
        {{endif}}
        res = {{call_left}};
        if (res != Py_NotImplemented) return res;
        Py_DECREF(res);
    }
    {{if overloads_left}}
    maybe_self_is_right = Py_TYPE(left) == Py_TYPE(right) || PyType_IsSubtype(Py_TYPE(right), {{type_cname}});
    {{endif}}
    if (maybe_self_is_right) {
        return {{call_right}};
    }
    return __Pyx_NewRef(Py_NotImplemented);
}
'''


def rule_dispatch(ctx, floor=13):
    r = Rule('C28-DISP', 'BinopSlot template, all three instantiations x #if arms x paths: the forward / reflected method (or the base-type slot standing in for it) is '
             'called at most once per slot invocation, a user method only under a flag that type-checks its self operand, and it has been tried '
             'whenever the function gives up with NotImplemented although that flag was set', floor)
    rel = 'Cython/Utility/ExtensionTypes.c'
    sec = ctx.cat.files.get('ExtensionTypes.c', {}).get('BinopSlot', {})
    sec = sec.get('impl')
    if sec is None:
        raise AnalysisError('utility section ExtensionTypes.c::BinopSlot vanished')
    insts, probs = dispatch_problems(sec.raw)
    for k, sample in insts:
        r.inst('ExtensionTypes.c:' + k, sample=sample)
    for k, msg in probs:
        r.violate('ExtensionTypes.c:' + k, rel, sec.line, msg)
    _, ctl = dispatch_problems(CONTROL, 'control')
    r.positive_control([k for k, _ in ctl] == ['control[left=0,right=1]:call_right:once'], 'reflected method asked again after NotImplemented (flag not cleared)')
    return r


def same_type_problems(template_text, what='BinopSlot'):
    """paths on which both operands have the same exact type: an equivalent Python class only ever calls the forward method
    (slot_nb_* returns after it when Py_IS_TYPE(other, Py_TYPE(self)); binary_op1 does not try a second slot for identical types)"""
    insts, probs = [], {}
    text = strip_c_comments(template_text)
    for ol, orr in CONFIGS:
        cfg = '%s[left=%d,right=%d]' % (what, ol, orr)
        expanded = tempita_expand(text, context(ol, orr))
        params, body = slot_function(expanded)
        operands = params[:2]
        key = '%s:call_right:same-type' % cfg
        npaths = 0
        for label, variant in pp_variants(body):
            for env, trace in FlagExplorer(SlotClient(operands, same=1), cfg).run(variant):
                npaths += 1
                calls = [ev[1] for ev in trace if ev[0] == 'call']
                if 'right' in calls:
                    probs.setdefault(key, 'with overloads_left=%d, overloads_right=%d and both operands of the same exact type the slot function evaluates {{call_right}} (calls made: %s; #if: %s): '
                                     'a Python class only tries the forward method for `a OP b` with type(a) is type(b) and raises TypeError when it returns NotImplemented' % (
                                         ol, orr, ' then '.join('call_' + c for c in calls), label))
        if not npaths:
            raise AnalysisError('%s: no same-type path' % cfg)
        insts.append((key, '%s: %d same-type paths' % (key, npaths)))
    return insts, sorted(probs.items())


FIXED_CONTROL = CONTROL.replace('int maybe_self_is_left, maybe_self_is_right = 0;', 'int maybe_self_is_left, maybe_self_is_right = 0;\n    const int same_type = Py_TYPE(left) == Py_TYPE(right);') \
    .replace('if (maybe_self_is_right) {\n            res = {{call_right}};', 'if (maybe_self_is_right && !same_type) {\n            res = {{call_right}};') \
    .replace('res = {{call_left}};\n        if (res != Py_NotImplemented) return res;', 'res = {{call_left}};\n        if (res != Py_NotImplemented || same_type) return res;')


# pending finding (FINDING_1): reports the three instantiations on the unmodified tree — NOT registered in props/C28.run()
def rule_same_type(ctx, floor=3):
    r = Rule('C28-SAME', 'BinopSlot template: when both operands have the same exact type only {{call_left}} (the forward method) is evaluated, as for a Python class', floor)
    rel = 'Cython/Utility/ExtensionTypes.c'
    sec = ctx.cat.files.get('ExtensionTypes.c', {}).get('BinopSlot', {}).get('impl')
    if sec is None:
        raise AnalysisError('utility section ExtensionTypes.c::BinopSlot vanished')
    insts, probs = same_type_problems(sec.raw)
    for k, sample in insts:
        r.inst('ExtensionTypes.c:' + k, sample=sample)
    for k, msg in probs:
        r.violate('ExtensionTypes.c:' + k, rel, sec.line, msg)
    _, bad = same_type_problems(CONTROL, 'control')
    _, good = same_type_problems(FIXED_CONTROL, 'control')
    r.positive_control(len(bad) == 3 and not good, 'reflected method tried for operands of identical type; silent on the same_type-guarded variant')
    return r


# ======================================================================================= C28-GEN
import ast as _ast


def _fn_aliases(fn):
    """locals of fn bound exactly once by a plain assignment: name -> value node"""
    from ..engine.pyindex import walk_no_nested
    seen = {}
    for n in walk_no_nested(fn):
        if isinstance(n, _ast.Assign):
            for t in n.targets:
                if isinstance(t, _ast.Name):
                    seen.setdefault(t.id, []).append(n.value)
        elif isinstance(n, (_ast.AugAssign, _ast.For)) and isinstance(getattr(n, 'target', None), _ast.Name):
            seen.setdefault(n.target.id, []).extend([None, None])
    return {k: v[0] for k, v in seen.items() if len(v) == 1 and v[0] is not None}


def names_desc(ix, m, fn, arg, depth=0):
    """what a `names` argument of scope.defines_any_special denotes: ('attr', attribute of the slot object) | ('names', frozenset) | ('expr', text)"""
    from . import pC28 as H
    from ..core import node_src
    if depth > 4:
        return ('expr', node_src(arg, 80))
    if isinstance(arg, _ast.Call) and isinstance(arg.func, _ast.Name) and arg.func.id in ('list', 'tuple', 'set', 'frozenset', 'sorted') and len(arg.args) == 1:
        return names_desc(ix, m, fn, arg.args[0], depth + 1)
    if isinstance(arg, (_ast.List, _ast.Tuple, _ast.Set)) and all(isinstance(e, _ast.Constant) and isinstance(e.value, str) for e in arg.elts):
        return ('names', frozenset(e.value for e in arg.elts))
    if isinstance(arg, _ast.Name):
        al = _fn_aliases(fn)
        if arg.id in al:
            return names_desc(ix, m, fn, al[arg.id], depth + 1)
        v = H.module_globals(ix, m).get(arg.id)
        if isinstance(v, (list, tuple, set, frozenset)) and all(isinstance(x, str) for x in v):
            return ('names', frozenset(v))
    if isinstance(arg, _ast.Attribute) and isinstance(arg.value, _ast.Name):
        al = _fn_aliases(fn)
        if arg.value.id in ('self', 'slot') or arg.value.id in [a.arg for a in fn.args.args]:
            return ('attr', arg.attr)
        ns = H.module_globals(ix, m).get(arg.value.id)
        v = getattr(ns, arg.attr, None) if ns is not None else None
        if isinstance(v, (list, tuple, set, frozenset)) and all(isinstance(x, str) for x in v):
            return ('names', frozenset(v))
    return ('expr', node_src(arg, 80))


def _dsa_args(node):
    return [c.args[0] for c in _ast.walk(node) if isinstance(c, _ast.Call) and isinstance(c.func, _ast.Attribute) and c.func.attr == 'defines_any_special' and c.args]


def _show(d):
    return ('the slot attribute .%s' % d[1]) if d[0] == 'attr' else ('{%s}' % ', '.join(sorted(d[1]))) if d[0] == 'names' else '`%s`' % d[1]


def rule_gen(ctx, floor=3):
    """two cooperating sites: ModuleNode emits the synthesised slot function F under a predicate, TypeSlots writes the name of F into the type slot under a predicate"""
    from . import pC28 as H
    from ..engine.pyindex import walk_no_nested
    ix = ctx.index
    r = Rule('C28-GEN', 'the predicate under which ModuleNode emits a synthesised slot function (tp_richcompare, nb_* binop) is the predicate under which TypeSlots puts that function\'s name into the '
             'slot (same `defines_any_special` name set), and the six rich comparison methods are special methods with a binary signature', floor)
    mn, ts = ix.mod('Compiler.ModuleNode'), ix.mod('Compiler.TypeSlots')
    mcls = ix.cls('Compiler.ModuleNode', 'ModuleNode')
    if mcls is None or ts is None:
        raise AnalysisError('ModuleNode / TypeSlots vanished')
    gen = {}
    for fname, fn in mcls.methods.items():
        for n in walk_no_nested(fn):
            if not isinstance(n, _ast.If):
                continue
            for st in n.body:
                for c in _ast.walk(st) if isinstance(st, _ast.Expr) else ():
                    if isinstance(c, _ast.Call) and isinstance(c.func, _ast.Attribute) and c.func.attr in ('generate_richcmp_function', 'generate_binop_function') \
                            and isinstance(c.func.value, _ast.Name) and c.func.value.id == 'self':
                        args = _dsa_args(n.test)
                        if len(args) != 1:
                            raise AnalysisError('ModuleNode.%s: the condition guarding %s has %d defines_any_special tests' % (fname, c.func.attr, len(args)))
                        gen.setdefault(c.func.attr, []).append((names_desc(ix, mn, fn, args[0]), n.lineno, fname))
    slot_sites = {}
    for what, clsname in (('generate_richcmp_function', 'RichcmpSlot'), ('generate_binop_function', 'BinopSlot')):
        c = ix.cls('Compiler.TypeSlots', clsname)
        if c is None:
            raise AnalysisError('TypeSlots.%s vanished' % clsname)
        fm = ix.find_method(c, 'slot_code')
        if fm is None:
            raise AnalysisError('TypeSlots.%s has no slot_code' % clsname)
        owner, fn = fm
        args = _dsa_args(fn)
        if len(args) != 1:
            raise AnalysisError('%s.slot_code has %d defines_any_special tests' % (owner.qual, len(args)))
        slot_sites[what] = (names_desc(ix, owner.module, fn, args[0]), fn.lineno, owner)
    for what in ('generate_richcmp_function', 'generate_binop_function'):
        if what not in gen:
            raise AnalysisError('ModuleNode no longer calls self.%s under a defines_any_special test' % what)
        sd, sline, owner = slot_sites[what]
        for gd, gline, fname in gen[what]:
            key = 'ModuleNode.%s:%s:predicate' % (fname, what)
            r.inst(key, sample='%s: emitted under %s, slot filled under %s (%s.slot_code)' % (key, _show(gd), _show(sd), owner.qual))
            if gd != sd:
                r.violate(key, mn.rel, gline, 'ModuleNode.%s emits the function of %s when the type defines any of %s, but %s.slot_code puts its name into the type slot when the type defines any of %s: '
                          'for a type in the difference the slot refers to a function that is not emitted, or stays 0 although the methods exist (the operator raises TypeError)' % (
                              fname, what.replace('generate_', '').replace('_function', ''), _show(gd), owner.qual, _show(sd)))
    # the comparison methods are special
    st = ix.cls('Compiler.TypeSlots', 'SlotTable')
    fn = st.methods.get('get_special_method_signature') if st else None
    if fn is None:
        raise AnalysisError('TypeSlots.SlotTable.get_special_method_signature vanished')
    six = frozenset(H.RICHCMP)
    param = fn.args.args[1].arg if len(fn.args.args) > 1 else None
    found = None
    for n in walk_no_nested(fn):
        if isinstance(n, _ast.If) and isinstance(n.test, _ast.Compare) and len(n.test.ops) == 1 and isinstance(n.test.ops[0], _ast.In) \
                and isinstance(n.test.left, _ast.Name) and n.test.left.id == param and names_desc(ix, ts, fn, n.test.comparators[0]) == ('names', six):
            rets = [x for x in n.body if isinstance(x, _ast.Return)]
            found = (rets[0].value if rets else None, n.lineno)
    key = 'TypeSlots.SlotTable.get_special_method_signature:richcmp'
    r.inst(key, sample='%s -> %s' % (key, _ast.unparse(found[0]) if found and found[0] is not None else None))
    if found is None or found[0] is None or (isinstance(found[0], _ast.Constant) and found[0].value is None):
        r.violate(key, ts.rel, fn.lineno, 'get_special_method_signature returns no signature for __eq__/__ne__/__lt__/__le__/__gt__/__ge__: the comparison methods of an extension type are compiled as '
                  'ordinary methods (entry.is_special False), defines_any_special() never sees them, no tp_richcompare is generated and `==`/`<` fall back to identity / TypeError')
    else:
        sig = found[0]
        node = ts.bindings.get(sig.id) if isinstance(sig, _ast.Name) else None
        fmt = None
        if isinstance(node, _ast.Call) and len(node.args) >= 2 and all(isinstance(a, _ast.Constant) for a in node.args[:2]):
            fmt = (node.args[0].value, node.args[1].value)
        r.inst(key + ':arity', sample='%s: %s' % (key, fmt))
        if fmt is None:
            r.info('%s: the signature %s is not a module-level Signature(...) literal; arity not compared' % (key, _ast.unparse(sig)))
        elif len(fmt[0]) != 2 or fmt[1] != 'O':
            r.violate(key + ':arity', ts.rel, found[1], 'the rich comparison methods get the signature Signature(%r, %r): they take (self, other) and return an object' % fmt)
    r.positive_control(names_desc(ix, ts, fn, _ast.parse("['__eq__']").body[0].value) != ('names', six), 'a one-name list differs from the six comparison methods')
    return r
