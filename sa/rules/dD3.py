"""C45 rules written together with three repairs of the tracing code (return events that are lost or doubled).

C45-CLOSEGATE   (Profile.c x the put_trace_* call sites)  The event that CLOSES an activation (return / unwind) must be delivered
                whenever the event that OPENED it (start) was.  The start macro decides from (function is nogil, CYTHON_TRACE_NOGIL);
                the closing macros are handed the CURRENT GIL state by statement nodes (a `return` inside `with nogil:` of a function that
                was entered with the GIL).  The rule evaluates the delivery predicate of every start and closing macro - three-valued
                reachability of the delivering calls under the assignment (flag, CYTHON_TRACE_NOGIL, tracing-active = 1), per configuration
                block - and checks   start(f, c) => close(g, c)   for every (f, g) some call site can produce.  Complete domain: 2 x 2 x 2.

C45-DEFER       (Nodes.py)  A code generator that redirects the function's return label, generates a child under the redirected label and
                later generates ANOTHER child on the intercepted return path before jumping on to the saved label runs user code between
                a `return` statement and the function exit (try-finally).  The return event may then only be reported after that child:
                the generator must bracket the first child with writes to a function-state attribute A, every node that reports the return
                event itself before jumping to the return label must stay silent while A is set, and the generator must report the event
                after the second child, on the return path only, and only when A is clear again (outermost).  Writers of A are balanced
                per class.  Decided by def-use of the saved labels, program order, guard dominance and the decision table of C45-RETCOND.

C45-SKIPSTART   (Code.py / Nodes.py / Profile.c)  The start event of a generated function is never suppressed by a run-time flag unless the
                same flag reaches every closing event; a function node whose body is compiled under a directives override that switches
                profile / linetrace off (the cpdef wrapper) must not be traced by its function node either.

Nothing below imports or runs repository code; C text is only parsed.
"""
import ast, itertools, re

from ..core import Rule, AnalysisError, node_src
from ..engine import cguard, cexpr
from ..engine.cutil import strip_c_comments, match_paren, split_args
from ..engine.pyindex import walk_no_nested, is_self_attr
from .pC37 import local_assigns, deref, inline_helpers
from .pC45 import trace_sites, EVENT_METHODS, GEN_MODULES
from . import sC45

REL_PROFILE = 'Cython/Utility/Profile.c'
GIL_ACQUIRE = re.compile(r'GILState_Ensure')


# ====================================================================================================================== helpers
def _macro_defs(ctx, name, seen=()):
    """[(config key, decl)] of the function-like definitions of a Profile.c macro, object-like aliases followed"""
    out = []
    for d in ctx.cat.decls.get(name, []):
        if d.file != 'Profile.c' or d.kind != 'macro':
            continue
        if d.params is None:
            tgt = (d.body or '').strip()
            if re.fullmatch(r'[A-Za-z_]\w*', tgt) and tgt not in seen and tgt != name:
                for k, d2 in _macro_defs(ctx, tgt, seen + (name,)):
                    if sC45._compatible(d.conds, d2.conds):
                        out.append((tuple(d.conds), d2))
            continue
        out.append((tuple(d.conds), d))
    return out


def _pname(p):
    ids = re.findall(r'[A-Za-z_]\w*', p)
    return ids[-1] if ids else ''


def _if_conditions(body):
    """[(condition text, offset of the `if`)] of a C body"""
    out = []
    for m in re.finditer(r'\bif\s*\(', body):
        lp = m.end() - 1
        rp = match_paren(body, lp)
        if rp > 0:
            out.append((body[lp + 1:rp], m.start()))
    return out


def gil_flag_params(params, body):
    """parameters of a macro that select between a branch which acquires the GIL and one which does not: they occur in an `if` condition whose
    other identifiers are configuration constants, and the body acquires the GIL somewhere"""
    if not GIL_ACQUIRE.search(body):
        return []
    out = []
    for cond, _ in _if_conditions(body):
        ids = set(re.findall(r'[A-Za-z_]\w*', cond))
        for p in params:
            if p in ids and all(i == p or i.isupper() or i in ('likely', 'unlikely') for i in ids) and p not in out:
                out.append(p)
    return out


TRUE_DELIVERY = re.compile(r'^(PyMonitoring_Fire\w+Event|c_profilefunc|c_tracefunc)$')
EARLY_EXIT = re.compile(r'^if\s*\((?P<c>.*)\)\s*\{?\s*(return\b[^;{}]*;|goto\s+\w+\s*;|break\s*;|continue\s*;)\s*\}?\s*$', re.S)


def profile_functions(ctx):
    """{name: [(parameter names, body)]} of every static function defined in Profile.c (also those indented inside the macro block, which the
    catalogue does not list), and {name: replacement text} of the object-like macros of the file"""
    def build():
        text = strip_c_comments(ctx.read(REL_PROFILE))
        funcs = {}
        for m in re.finditer(r'\bstatic\s+[\w\s\*]+?\b(\w+)\s*\(([^;{}()]*(?:\([^()]*\))?[^;{}()]*)\)\s*\{', text):
            b0 = m.end() - 1
            b1 = sC45._match_brace(text, b0)
            if b1 < 0:
                continue
            funcs.setdefault(m.group(1), []).append(([_pname(p) for p in split_args(m.group(2))], text[b0 + 1:b1]))
        aliases = {}
        for m in re.finditer(r'^[ \t]*#[ \t]*define[ \t]+(\w+)[ \t]+([^\\\n]+)$', text, re.M):
            aliases.setdefault(m.group(1), set()).add(m.group(2).strip())
        return funcs, {k: next(iter(v)) for k, v in aliases.items() if len(v) == 1}
    return ctx.memo('dD3.profile_functions', build)


def _expand_aliases(body, env, aliases):
    """replace object-like macros of Profile.c (not the variables of env) that stand for an expression over configuration constants"""
    for _ in range(2):
        def sub(m):
            n = m.group(0)
            if n in env or n not in aliases:
                return n
            rep = aliases[n]
            if re.fullmatch(r'[\w\s!&|()<>=]+', rep) and re.search(r'[A-Z]', rep) and not re.fullmatch(r'\d+', rep):
                return '(%s)' % rep
            return n
        new = re.sub(r'\b[A-Za-z_]\w*\b(?!\s*\()', sub, body)
        if new == body:
            break
        body = new
    return body


def reach(body, pos, env):
    """sC45.reach plus early exits: a preceding `if (c) return;` (goto / break / continue) whose condition is true under env makes pos unreachable"""
    v = sC45.reach(body, pos, env)
    if v is False:
        return False
    for st in cguard.dominators(body, pos):
        m = EARLY_EXIT.match(st.strip())
        if not m:
            continue
        try:
            t = sC45._tri(cexpr.parse(m.group('c')), env)
        except Exception:
            t = None
        if t is True:
            return False
        if t is None:
            v = None
    return v


def _conds_hold(conds, env):
    """can the preprocessor condition chain of a definition hold under env?  (False only when a condition is decided the other way)"""
    for c in conds or ():
        m = re.match(r'\s*(if|elif|ifdef|ifndef)\s+(.*?)(;\s*else\s*)?$', c.strip())
        if not m or m.group(1) != 'if':
            continue
        try:
            v = sC45._tri(cexpr.parse(m.group(2).split(';')[0]), env)
        except Exception:
            v = None
        if v is None:
            continue
        if v == bool(m.group(3)):
            return False
    return True


def _callable_defs(ctx, name, env):
    """[(parameter names, body)] of the Profile.c functions / function-like macros called `name` that can be active under env"""
    funcs, _ = profile_functions(ctx)
    out = list(funcs.get(name, []))
    for d in ctx.cat.decls.get(name, []):
        if d.file == 'Profile.c' and d.kind == 'macro' and d.params is not None and _conds_hold(d.conds, env):
            out.append(([_pname(p_) for p_ in d.params], strip_c_comments(d.body or '')))
    return out


def delivers(body, env, ctx=None, depth=0):
    """may a delivering call of the body execute under the partial assignment env?  (None when the body has no delivering call).  Helper
    functions and function-like macros of Profile.c are followed: arguments that are variables of env or integer literals are bound to the
    callee's parameters; a callee that cannot be resolved counts as delivering when its name says so (sC45.DELIVER)."""
    aliases = profile_functions(ctx)[1] if ctx is not None else {}
    body = _expand_aliases(body, env, aliases)
    sites = []
    for c, off in sC45.c_callees(body):
        defs = _callable_defs(ctx, c, env) if ctx is not None and depth < 3 and not TRUE_DELIVERY.match(c) else []
        if TRUE_DELIVERY.match(c) or sC45.DELIVER.match(c) or (defs and depth < 3 and c.startswith('__Pyx')):
            sites.append((c, off, defs))
    if not sites:
        return None
    for c, off, defs in sites:
        if reach(body, off, env) is False:
            continue
        if defs:
            lp = body.find('(', off)
            rp = match_paren(body, lp)
            args = [a.strip() for a in split_args(body[lp + 1:rp])] if rp > 0 else []
            verdicts = []
            for params, fbody in defs:
                env2 = {k: v for k, v in env.items() if k.isupper() or k.startswith('__Pyx_')}
                for p_, a in zip(params, args):
                    a = a.strip('() ')
                    if a in env:
                        env2[p_] = env[a]
                    elif re.fullmatch(r'\d+', a):
                        env2[p_] = int(a)
                verdicts.append(delivers(fbody, env2, ctx, depth + 1))
            if any(verdicts):           # a resolved body without any delivering call (None) delivers nothing
                return True
            continue
        return True
    return False


def flag_param_indices(ctx, ems):
    """{macro name: {index of the macro argument into which a put_trace_* method writes a value derived from nogil / gil_owned,
    counted from the right end (negative) when an earlier argument expands to several C arguments}}"""
    from . import sC44
    FILE_I, LINE_I = sC44.scanner_pos_indices(ctx)
    out = {}
    for ccw, fn, n, macro, args, exprs, env, params in ems:
        multi = [k for k, a_ in enumerate(args) if a_.count(sC45.PHX) > 1]
        for i, e in enumerate(exprs):
            if e is not None and sC45.python_arg_kind(e, env, LINE_I, params) == 'nogil':
                out.setdefault(macro, set()).add(i - len(args) if multi and i > multi[-1] else i)
    return out


def _emitted_macros(ctx):
    """{kind ('start' | 'ret' | 'unwind' ...): {macro name}} of the CCodeWriter.put_trace_* methods, and the emissions themselves"""
    kinds = {}
    ems = sC45.trace_emissions(ctx)
    for ccw, fn, n, macro, args, exprs, env, params in ems:
        k = EVENT_METHODS.get(fn.name)
        if k:
            kinds.setdefault(k, set()).add(macro)
    return kinds, ems


def _flag_kind(call, fn, env, sig=None):
    """what a put_trace_return / put_trace_unwind call site says about the GIL: 'current' (negation of the function state's gil_owned at this
    statement), 'held' (constant false / no flag), or None (cannot tell)"""
    e = None
    for k in call.keywords:
        if k.arg == 'nogil':
            e = k.value
        elif k.arg is None:
            return None             # **kwargs
    if e is None and sig is not None:
        names = [a.arg for a in sig.args.posonlyargs + sig.args.args][1:]
        if 'nogil' in names and names.index('nogil') < len(call.args):
            e = call.args[names.index('nogil')]
    if any(isinstance(a, ast.Starred) for a in call.args):
        return None
    if e is None:
        return 'held'
    e = deref(e, env)
    if isinstance(e, ast.Constant):
        return 'held' if not e.value else None
    pol = sC45._gil_polarity(e, env)
    if pol == {1}:
        return 'current'
    return None


# ====================================================================================================================== C45-CLOSEGATE
def rule_closegate(ctx):
    r = Rule('C45-CLOSEGATE', 'whenever the start macro of a configuration delivers the start event (function entered with / without the GIL, CYTHON_TRACE_NOGIL on / off), '
             'every closing macro (return, unwind) delivers its event for each GIL state a call site can hand to it: a return inside `with nogil:` of a function that '
             'was entered with the GIL closes the activation that was opened', floor=4)
    kinds, ems = _emitted_macros(ctx)
    starts, closes = kinds.get('start', set()), kinds.get('ret', set()) | kinds.get('unwind', set())
    if not starts or not closes:
        raise AnalysisError('C45-CLOSEGATE: the start / closing trace macros emitted by CCodeWriter.put_trace_* were not found')
    macro_kind = {m: k for k in ('ret', 'unwind') for m in kinds.get(k, ())}
    flag_idx = flag_param_indices(ctx, ems)

    # ---- compiler side: which (function entered without GIL, GIL released at the statement) pairs reach each closing method
    method_of = {v: k for k, v in EVENT_METHODS.items()}
    pairs = {'ret': set(), 'unwind': set()}
    where = {'ret': {}, 'unwind': {}}
    n_sites = 0
    ccw_methods = ctx.index.cls('Code', 'CCodeWriter').methods
    for m, qn, owner, fn in trace_sites(ctx):
        calls = [c for c in walk_no_nested(fn) if isinstance(c, ast.Call) and isinstance(c.func, ast.Attribute)]
        owns_scope = any(c.func.attr == method_of['start'] for c in calls)
        env = local_assigns(fn)
        for c in calls:
            k = EVENT_METHODS.get(c.func.attr)
            if k not in pairs:
                continue
            n_sites += 1
            if owns_scope:
                # the function epilogue: the flag is the state the function was entered with, or "held" after it took the GIL itself
                ps = {(0, 0), (1, 1), (1, 0)}
            else:
                fk = _flag_kind(c, fn, env, ccw_methods.get(c.func.attr))
                if fk is None:
                    r.info('%s.%s: the nogil flag of %s (%s) is not derived from a gil_owned value; site not modelled' % (
                        m.short, qn, c.func.attr, node_src(c, 80)))
                    continue
                # a statement node can sit in a `with nogil:` / `with gil:` block of either kind of function
                ps = {(0, 0), (1, 1), (1, 0), (0, 1)} if fk == 'current' else {(0, 0), (1, 0)}
            for p in ps:
                pairs[k].add(p)
                where[k].setdefault(p, '%s.%s' % (m.short, qn))
    if n_sites < 3:
        raise AnalysisError('C45-CLOSEGATE: only %d call sites of put_trace_return / put_trace_unwind found' % n_sites)

    # ---- C side: delivery predicates per configuration
    by_cfg = {}
    for name in sorted(starts | closes):
        for cfg, d in _macro_defs(ctx, name):
            by_cfg.setdefault(cfg, {}).setdefault(name, []).append(d)
    n_cfg = 0
    for cfg, defs in sorted(by_cfg.items()):
        def table(d, name):
            body = strip_c_comments(d.body or '')
            params = [_pname(p) for p in d.params]
            flags = gil_flag_params(params, body)
            for j in flag_idx.get(name, ()):
                if -len(params) <= j < len(params) and params[j] not in flags:
                    flags.append(params[j])
            t = {}
            for f, c in itertools.product((0, 1), repeat=2):
                env = {'CYTHON_TRACE_NOGIL': c, '__Pyx_use_tracing': 1}
                for p in flags:
                    env[p] = f
                t[(f, c)] = delivers(body, env, ctx)
            return t, [p for p in flags if re.search(r'\b%s\b' % re.escape(p), body)]
        start_tabs = []
        for name in sorted(starts):
            for d in defs.get(name, []):
                t, flags = table(d, name)
                if any(v for v in t.values()):
                    start_tabs.append((name, t, flags))
        if not start_tabs:
            continue            # no-op configuration: nothing is opened
        n_cfg += 1
        cfg_text = (cfg[-1].split(';')[0].replace('if ', '') + (' (else)' if 'else' in cfg[-1] else '')) if cfg else 'default'

        def start_delivers(f, c):
            # a start macro that never looks at the GIL flag is only used by functions that hold the GIL
            return any(t[(f, c)] for _, t, flags in start_tabs if flags or f == 0)
        for name in sorted(closes):
            for d in defs.get(name, []):
                t, flags = table(d, name)
                key = 'Profile.%s:%s:close-gate' % (name, ''.join(cfg_text.split()))       # construct keys carry no blanks (known_findings.txt format)
                if all(v is None for v in t.values()):
                    raise AnalysisError('%s (`%s`): the configuration delivers start events but no delivering call was found in this closing macro' % (name, cfg_text))
                kind = macro_kind[name]
                r.inst(key, sample='%s [%s]: delivered for (flag, CYTHON_TRACE_NOGIL) in %s; call sites produce (entered without GIL, flag) pairs %s' % (
                    name, cfg_text, sorted(k for k, v in t.items() if v), sorted(pairs[kind])))
                bad = []
                for (f, g) in sorted(pairs[kind]):
                    for c in (0, 1):
                        if start_delivers(f, c) and not t[(g, c)]:
                            bad.append((f, g, c))
                if bad:
                    f, g, c = bad[0]
                    r.violate(key, REL_PROFILE, d.line,
                              '%s (`%s`) does not deliver its event when its GIL flag is %d and CYTHON_TRACE_NOGIL is %d, although the start macro delivers the start event of a '
                              'function that was entered %s the GIL under that setting and %s hands over the GIL state of the statement: a %s inside `with %s:` reports a call '
                              'event that is never closed (all failing cases (entered without GIL, flag, CYTHON_TRACE_NOGIL): %s)' % (
                                  name, cfg_text, g, c, 'without' if f else 'with', where[kind].get((f, g), '?'),
                                  'return' if kind == 'ret' else 'raise', 'nogil' if g else 'gil', bad))
    if n_cfg < 2:
        raise AnalysisError('C45-CLOSEGATE: only %d configuration blocks with a delivering start macro found in Profile.c' % n_cfg)
    pcb = ('if (likely(!__Pyx_use_tracing)); else { if (nogil) { if (CYTHON_TRACE_NOGIL) { PyGILState_STATE s = PyGILState_Ensure(); '
           '__Pyx_call_return_trace_func(t, f, r); PyGILState_Release(s); } } else { __Pyx_call_return_trace_func(t, f, r); } }')
    r.positive_control(gil_flag_params(['result', 'nogil'], pcb) == ['nogil'] and
                       delivers(pcb, {'nogil': 1, 'CYTHON_TRACE_NOGIL': 0, '__Pyx_use_tracing': 1}) is False and
                       delivers(pcb, {'nogil': 1, 'CYTHON_TRACE_NOGIL': 1, '__Pyx_use_tracing': 1}) is True and
                       delivers(pcb, {'nogil': 0, 'CYTHON_TRACE_NOGIL': 0, '__Pyx_use_tracing': 1}) is True,
                       'closing macro that drops the event of a nogil section unless CYTHON_TRACE_NOGIL is set')
    return r


# ====================================================================================================================== C45-DEFER
def _is_child_codegen(c):
    """<child>.generate_execution_code(<writer>) - not the explicit super call Class.generate_execution_code(self, code)"""
    return isinstance(c, ast.Call) and isinstance(c.func, ast.Attribute) and c.func.attr == 'generate_execution_code' and \
        not (c.args and isinstance(c.args[0], ast.Name) and c.args[0].id == 'self')


def _funcstate_attr(e, env):
    """`<w>.funcstate.A` (or `fs.A` with fs = <w>.funcstate) -> 'A'"""
    if not isinstance(e, ast.Attribute):
        return None
    v = e.value
    if isinstance(v, ast.Name):
        v = deref(v, env)
    if isinstance(v, ast.Attribute) and v.attr == 'funcstate':
        return e.attr
    return None


def _linear(fn):
    """statements and calls of fn in program order (nested function bodies skipped): [(position, node)]"""
    out = []

    def expr_calls(node):
        cs = [x for x in ast.walk(node) if isinstance(x, ast.Call)]
        cs.sort(key=lambda c: (getattr(c, 'end_lineno', c.lineno), getattr(c, 'end_col_offset', c.col_offset)))
        return cs

    def rec(stmts):
        for s in stmts:
            if isinstance(s, (ast.FunctionDef, ast.AsyncFunctionDef, ast.ClassDef)):
                continue
            out.append(s)
            heads = []
            if isinstance(s, (ast.If, ast.While)):
                heads = [s.test]
            elif isinstance(s, ast.For):
                heads = [s.iter]
            elif isinstance(s, ast.With):
                heads = [i.context_expr for i in s.items]
            elif isinstance(s, ast.Try):
                heads = []
            else:
                heads = [s]
            for h in heads:
                out.extend(expr_calls(h))
            for fld in ('body', 'orelse', 'finalbody'):
                sub = getattr(s, fld, None)
                if isinstance(sub, list) and sub and isinstance(sub[0], ast.stmt):
                    rec(sub)
            for h in getattr(s, 'handlers', []) or []:
                rec(h.body)
    rec(fn.body)
    return out


def _bind_iter(target, it, saved, out):
    if isinstance(it, ast.Call) and isinstance(it.func, ast.Name) and it.func.id == 'enumerate' and it.args and isinstance(target, ast.Tuple) and len(target.elts) == 2:
        return _bind_iter(target.elts[1], it.args[0], saved, out)
    if isinstance(it, ast.Call) and isinstance(it.func, ast.Name) and it.func.id == 'zip' and isinstance(target, ast.Tuple) and len(target.elts) == len(it.args):
        for t, a in zip(target.elts, it.args):
            _bind_iter(t, a, saved, out)
        return
    if isinstance(it, ast.Name) and it.id in saved:
        for x in ast.walk(target):
            if isinstance(x, ast.Name):
                out.add(x.id)


def _saved_labels(fn):
    """(names holding the saved label tuple or one of its elements, names holding the saved return label)"""
    allsaved, retsaved = set(), set()
    for n in walk_no_nested(fn):
        if isinstance(n, ast.Assign) and len(n.targets) == 1 and isinstance(n.targets[0], ast.Name):
            v = n.value
            if isinstance(v, ast.Call) and isinstance(v.func, ast.Attribute) and v.func.attr == 'all_new_labels':
                allsaved.add(n.targets[0].id)
            elif isinstance(v, ast.Attribute) and v.attr == 'return_label':
                retsaved.add(n.targets[0].id)
    changed = True
    while changed:
        changed = False
        for n in walk_no_nested(fn):
            if isinstance(n, ast.For):
                got = set()
                _bind_iter(n.target, n.iter, allsaved, got)
                if got - allsaved:
                    allsaved |= got
                    changed = True
    return allsaved, retsaved


def _parents(fn):
    par = {}
    for n in ast.walk(fn):
        for ch in ast.iter_child_nodes(n):
            par[id(ch)] = n
    return par


def _stmt_of(node, par):
    while node is not None and not isinstance(node, ast.stmt):
        node = par.get(id(node))
    return node


def _if_chain_lists(stmt, par):
    """[(statement list, the member that (transitively, through `if` only) holds stmt)] from stmt outwards up to the nearest loop / function"""
    out = []
    cur = stmt
    while True:
        p = par.get(id(cur))
        if p is None:
            break
        lst = None
        for fld in ('body', 'orelse', 'finalbody'):
            sub = getattr(p, fld, None)
            if isinstance(sub, list) and any(x is cur for x in sub):
                lst = sub
        if lst is None:
            break
        out.append((lst, cur))
        if not isinstance(p, ast.If):
            break
        cur = p
    return out


def _means_set(text, truth, attr, env):
    """does the literal (atom text, truth) say that funcstate.<attr> is set (True) / clear (False)?  None: it does not speak about attr"""
    try:
        e = ast.parse(text, mode='eval').body
    except SyntaxError:
        return None
    pol = True
    if isinstance(e, ast.Compare) and len(e.ops) == 1 and isinstance(e.comparators[0], ast.Constant) and e.comparators[0].value in (0, False):
        op = e.ops[0]
        if isinstance(op, (ast.Gt, ast.NotEq, ast.IsNot)):
            e = e.left
        elif isinstance(op, (ast.Eq, ast.Is, ast.LtE)):
            e, pol = e.left, False
        else:
            return None
    if isinstance(e, ast.Name):
        e = deref(e, env)
    if _funcstate_attr(e, env) == attr:
        return truth == pol
    return None


def _const_of_write(s):
    """(attr expr, '+' | '-' | '=', value node) of an assignment statement"""
    if isinstance(s, ast.AugAssign) and isinstance(s.op, (ast.Add, ast.Sub)):
        return s.target, '+' if isinstance(s.op, ast.Add) else '-', s.value
    if isinstance(s, ast.Assign) and len(s.targets) == 1:
        return s.targets[0], '=', s.value
    return None


def _no_early_return(stmts):
    """`if c: return` followed by the rest  ->  `if not c: <rest>` (bare returns only); a trailing bare return is dropped"""
    out = []
    for i, s in enumerate(stmts):
        if isinstance(s, ast.Return) and s.value is None:
            return out
        if isinstance(s, ast.If) and not s.orelse and len(s.body) == 1 and isinstance(s.body[0], ast.Return) and s.body[0].value is None:
            rest = _no_early_return(stmts[i + 1:])
            if rest:
                n = ast.If(test=ast.UnaryOp(op=ast.Not(), operand=s.test), body=rest, orelse=[])
                out.append(ast.copy_location(n, s))
            return out
        out.append(s)
    return out


def inline_self_helpers(ctx, owner, fn, needles, depth=0):
    """copy of fn in which statements `self.<helper>(<names>)` are replaced by the helper's body (early returns normalised, parameters
    substituted) when the helper mentions one of the needles - `extract method` undone; also delegates to pC37.inline_helpers"""
    from .pC37 import _Subst
    ix = ctx.index
    fn = inline_helpers(ctx, owner, fn, needles)
    if depth > 2:
        return fn
    changed = [False]

    def simple(e):
        return isinstance(e, (ast.Name, ast.Constant)) or (isinstance(e, ast.Attribute) and simple(e.value))

    def expand(stmts):
        out = []
        for s in stmts:
            c = s.value if isinstance(s, ast.Expr) and isinstance(s.value, ast.Call) else None
            if c is not None and is_self_attr(c.func) and c.func.attr != fn.name and all(simple(a) for a in c.args) and not c.keywords:
                r = ix.find_method(owner, c.func.attr)
                if r is not None:
                    h = r[1]
                    src = ast.unparse(h)
                    body = _no_early_return([b for b in h.body if not (isinstance(b, ast.Expr) and isinstance(b.value, ast.Constant))])
                    params = [a.arg for a in h.args.posonlyargs + h.args.args][1:]
                    if any(x in src for x in needles) and len(params) == len(c.args) and not h.args.vararg and not h.args.kwarg and \
                            not any(isinstance(x, (ast.Return, ast.Yield, ast.YieldFrom)) for b in body for x in ast.walk(b)):
                        mapping = dict(zip(params, c.args))
                        assigned = {x.id for b in body for x in ast.walk(b) if isinstance(x, ast.Name) and isinstance(x.ctx, ast.Store)}
                        if not (assigned & set(params)):
                            mapping.update({a: '%s__%s' % (a, h.name) for a in assigned})
                            new = [_Subst(mapping).visit(ast.parse(ast.unparse(b)).body[0]) for b in body]
                            for b in new:
                                for x in ast.walk(b):
                                    if hasattr(x, 'lineno'):
                                        x.lineno = getattr(x, 'lineno', 1) + h.lineno - 1
                            out.extend(new or [ast.copy_location(ast.Pass(), s)])
                            changed[0] = True
                            continue
            for field in ('body', 'orelse', 'finalbody'):
                sub = getattr(s, field, None)
                if isinstance(sub, list) and sub and isinstance(sub[0], ast.stmt):
                    setattr(s, field, expand(sub))
            out.append(s)
        return out
    copy = ast.parse(ast.unparse(fn)).body[0]
    for a_, b_ in zip(ast.walk(copy), ast.walk(fn)):
        if type(a_) is type(b_) and hasattr(b_, 'lineno'):
            a_.lineno, a_.col_offset = b_.lineno, b_.col_offset
            a_.end_lineno, a_.end_col_offset = getattr(b_, 'end_lineno', b_.lineno), getattr(b_, 'end_col_offset', 0)
    copy.body = expand(copy.body)
    if not changed[0]:
        return fn
    ast.fix_missing_locations(copy)
    return inline_self_helpers(ctx, owner, copy, needles, depth + 1)


def interceptors(ctx):
    """code generators that run a second child on the intercepted return path: [(module, qualname, owner, fn (helpers inlined), details)]"""
    def build():
        ix = ctx.index
        out = []
        for ms in GEN_MODULES:
            try:
                m = ix.mod(ms)
            except AnalysisError:
                continue
            for qn, owner, fn0 in ix.functions_of(m):
                src_has = False
                for n in walk_no_nested(fn0):
                    if isinstance(n, ast.Call) and isinstance(n.func, ast.Attribute) and n.func.attr == 'all_new_labels':
                        src_has = True
                    elif isinstance(n, ast.Assign) and any(isinstance(t, ast.Attribute) and t.attr == 'return_label' for t in n.targets):
                        src_has = True
                if not src_has or owner is None:
                    continue
                fn = inline_self_helpers(ctx, owner, fn0, ('put_trace_return', 'funcstate', 'put_goto', 'generate_execution_code'))
                lin = _linear(fn)
                pos = {id(n): i for i, n in enumerate(lin)}
                par = _parents(fn)
                allsaved, retsaved = _saved_labels(fn)
                redirects = [n for n in lin if isinstance(n, ast.Call) and isinstance(n.func, ast.Attribute) and n.func.attr == 'all_new_labels']
                redirects += [n for n in lin if isinstance(n, ast.Assign) and any(isinstance(t, ast.Attribute) and t.attr == 'return_label' for t in n.targets)
                              and not (isinstance(n.value, ast.Name) and n.value.id in retsaved)]
                restores = [n for n in lin if isinstance(n, ast.Call) and isinstance(n.func, ast.Attribute) and n.func.attr == 'set_all_labels']
                restores += [n for n in lin if isinstance(n, ast.Assign) and any(isinstance(t, ast.Attribute) and t.attr == 'return_label' for t in n.targets)
                             and isinstance(n.value, ast.Name) and n.value.id in retsaved]
                if not redirects or not restores:
                    continue
                first_redirect = min(pos[id(n)] for n in redirects)
                first_restore = min((pos[id(n)] for n in restores if pos[id(n)] > first_redirect), default=None)
                if first_restore is None:
                    continue
                children = [n for n in lin if _is_child_codegen(n)]
                body_children = [c for c in children if first_redirect < pos[id(c)] < first_restore]
                if not body_children:
                    continue
                finals = []          # (second child call, goto call or None, statement list of the intercept block)
                for g in lin:
                    if not (isinstance(g, ast.Call) and isinstance(g.func, ast.Attribute) and g.func.attr == 'put_goto' and g.args and
                            isinstance(g.args[0], ast.Name) and g.args[0].id in (allsaved | retsaved)):
                        continue
                    gs = _stmt_of(g, par)
                    for lst, member in _if_chain_lists(gs, par):
                        gi = next(i for i, x in enumerate(lst) if x is member)
                        for c in children:
                            if pos[id(c)] <= first_restore:
                                continue
                            cs = _stmt_of(c, par)
                            for lst2, member2 in _if_chain_lists(cs, par):
                                if lst2 is lst:
                                    ci = next(i for i, x in enumerate(lst) if x is member2)
                                    if ci < gi or (ci == gi and pos[id(c)] < pos[id(g)]):
                                        finals.append((c, g, lst))
                for n in lin:
                    if isinstance(n, ast.For) and isinstance(n.iter, ast.Call) and isinstance(n.iter.func, ast.Attribute) and n.iter.func.attr == 'label_interceptor':
                        for c in children:
                            if any(x is c for b in n.body for x in ast.walk(b)):
                                finals.append((c, None, n.body))
                if finals:
                    out.append((m, qn, owner, fn, dict(lin=lin, pos=pos, par=par, allsaved=allsaved, retsaved=retsaved, body_child=body_children[0],
                                                       first_redirect=first_redirect, first_restore=first_restore, finals=finals)))
        return out
    return ctx.memo('dD3.interceptors', build)


def _return_emitters(ctx):
    """nodes that report the return event themselves and then jump to the return label (ReturnStatNode)"""
    out = []
    for m, qn, owner, fn in trace_sites(ctx):
        calls = [c for c in walk_no_nested(fn) if isinstance(c, ast.Call) and isinstance(c.func, ast.Attribute)]
        if any(c.func.attr == 'put_trace_start' for c in calls) or not any(sC45._is_event(c) for c in calls) or not any(sC45._is_goto_return(c) for c in calls):
            continue
        out.append((m, qn, owner, fn))
    return out


def _funcstate_writes(fn, env=None):
    """[(statement, attr, op, value)] of the writes to function-state attributes in fn"""
    env = env if env is not None else local_assigns(fn)
    out = []
    for s in walk_no_nested(fn):
        w = _const_of_write(s) if isinstance(s, (ast.Assign, ast.AugAssign)) else None
        if w:
            a = _funcstate_attr(w[0], env)
            if a:
                out.append((s, a, w[1], w[2]))
    return out


def defer_problems(ctx, m, qn, owner, fn, d, emitters):
    """-> (attr or None, [(key suffix, line, message)])"""
    ix = ctx.index
    env = local_assigns(fn)
    pos, lin = d['pos'], d['lin']
    c1 = d['body_child']
    p1 = pos[id(c1)]
    second = min(pos[id(c)] for c, g, lst in d['finals'])
    writes = [(s, a, op, v) for s, a, op, v in _funcstate_writes(fn, env) if id(s) in pos]
    before = [w for w in writes if d['first_redirect'] < pos[id(w[0])] < p1 or (pos[id(w[0])] < p1 and pos[id(w[0])] > d['first_redirect'] - 1)]
    after = [w for w in writes if p1 < pos[id(w[0])] < second]
    attrs = [a for a in {w[1] for w in before} if any(w[1] == a for w in after)]
    what = '%s.%s' % (m.short, qn)
    probs = []
    if not attrs:
        names = ', '.join('%s.%s' % (em.short, eq) for em, eq, _, _ in emitters)
        probs.append(('return-event-not-deferred', c1.lineno,
                      '%s redirects the return label while it generates `%s`, and on the intercepted return path generates `%s` before it jumps on to the saved label '
                      '(user code runs between the `return` statement and the function exit), but it does not mark the function state while the first child is generated: '
                      '%s reports the return event before that code runs - the value is reported too early, and when the second child returns or raises itself the '
                      'activation is closed twice (two return events, or a return event followed by an unwind)' % (
                          what, node_src(c1.func.value, 40), node_src(d['finals'][0][0].func.value, 40), names or 'the return statement node')))
        return None, probs
    if len(attrs) > 1:
        raise AnalysisError('%s brackets its body with several function-state attributes %s; protocol attribute ambiguous' % (what, sorted(attrs)))
    A = attrs[0]
    # ---- bracket shape: set before, undone after, same self-guards, nestable
    def self_guards(node):
        facts = sC45.dominating_facts(fn, node, env) or set()
        return {(t, v) for t, v in facts if t.startswith('self.')}
    b = [w for w in before if w[1] == A]
    a_ = [w for w in after if w[1] == A]
    bs, bop, bv = b[-1][0], b[-1][2], b[-1][3]
    as_, aop, av = a_[0][0], a_[0][2], a_[0][3]
    ok_shape = False
    if bop == '+' and aop == '-' and ast.dump(bv) == ast.dump(av) and isinstance(bv, ast.Constant) and isinstance(bv.value, int) and bv.value > 0:
        ok_shape = True
    elif bop == '=' and aop == '=' and isinstance(av, ast.Name):
        src = deref(av, env)
        ok_shape = _funcstate_attr(src, env) == A and not (isinstance(bv, ast.Constant) and not bv.value)
    if not ok_shape:
        probs.append(('deferral-bracket-unbalanced', bs.lineno,
                      '%s sets function-state `%s` with `%s` before generating its body and resets it with `%s` afterwards: the two writes do not cancel (or do not nest), so '
                      'return statements behind / around this statement stay silent or report early' % (what, A, node_src(bs, 60), node_src(as_, 60))))
    if self_guards(bs) != self_guards(as_):
        probs.append(('deferral-bracket-unbalanced', bs.lineno,
                      '%s sets function-state `%s` under %s but resets it under %s' % (what, A, sorted(self_guards(bs)) or 'no condition', sorted(self_guards(as_)) or 'no condition')))
    # ---- the event after the second child, on the return path, only when A is clear again
    events = [n for n in lin if sC45._is_event(n) and pos[id(n)] > d['first_restore']]
    good = False
    for c2, g, lst in d['finals']:
        evs = [e for e in events if pos[id(e)] > pos[id(c2)] and (g is None or pos[id(e)] < pos[id(g)]) and any(x is e for s in lst for x in ast.walk(s))]
        early = [e for e in events if pos[id(e)] < pos[id(c2)] and any(x is e for s in lst for x in ast.walk(s))]
        if early:
            probs.append(('deferred-event-before-clause', early[0].lineno,
                          '%s reports the deferred return event before it generates `%s` on the intercepted return path: the event precedes the code that may still raise or '
                          'return' % (what, node_src(c2.func.value, 40))))
        for e in evs:
            facts = sC45.dominating_facts(fn, e, env) or set()
            sets = [_means_set(t, v, A, env) for t, v in facts]
            if True in sets:
                probs.append(('deferred-event-inverted', e.lineno, '%s reports the deferred return event only while `%s` is still set (an enclosing interceptor will report it '
                              'again) and never from the outermost one' % (what, A)))
            elif False not in sets:
                probs.append(('deferred-event-not-outermost', e.lineno, '%s reports the deferred return event without testing that `%s` is clear again: nested try-finally '
                              'statements report one return event each for a single `return`' % (what, A)))
            else:
                good = True
            if g is not None:
                on_ret = False
                for t, v in facts:
                    try:
                        ce = ast.parse(t, mode='eval').body
                    except SyntaxError:
                        continue
                    if v and isinstance(ce, ast.Compare) and len(ce.ops) == 1 and isinstance(ce.ops[0], (ast.Eq, ast.Is)):
                        sides = [ce.left, ce.comparators[0]]
                        def is_ret(x):
                            x = deref(x, env) if isinstance(x, ast.Name) else x
                            return isinstance(x, ast.Attribute) and x.attr == 'return_label'
                        def is_saved(x):
                            return isinstance(x, ast.Name) and x.id in (d['allsaved'] | d['retsaved'])
                        if (is_ret(sides[0]) and is_saved(sides[1])) or (is_ret(sides[1]) and is_saved(sides[0])):
                            on_ret = True
                if not on_ret and g.args[0].id not in d['retsaved']:
                    probs.append(('deferred-event-any-exit', e.lineno, '%s reports the deferred return event for every intercepted exit (break / continue as well), not only when '
                                  'the saved label is the return label' % what))
            eg = {(t, v) for t, v in facts if re.fullmatch(r'self\.\w+', t)}
            bg = {(t, v) for t, v in self_guards(bs) if re.fullmatch(r'self\.\w+', t)}
            if eg != bg:
                probs.append(('deferral-guards-differ', e.lineno, '%s marks the function state under %s but reports the deferred event under %s: for a (sub)class where the two '
                              'differ return statements are silenced and nobody reports the event, or it is reported twice' % (
                                  what, sorted(bg) or 'no condition', sorted(eg) or 'no condition')))
            for t, v in facts:
                if t.startswith('self.') and re.fullmatch(r'self\.\w+', t):
                    ca = ix.find_class_attr(owner, t[5:])
                    if ca is None:
                        continue
                    try:
                        val = ast.literal_eval(ca[1])
                    except Exception:
                        continue
                    if bool(val) != v:
                        probs.append(('deferral-disabled', e.lineno, '%s reports the deferred return event only when %s is %s, but the class attribute of %s is %r' % (
                            what, t, v, owner.name, val)))
    if not good and not any(k.startswith('deferred-event') for k, _, _ in probs):
        probs.append(('deferred-event-missing', d['finals'][0][0].lineno,
                      '%s tells return statements to stay silent (`%s`) but does not report the return event itself after `%s` on the intercepted return path: a `return` '
                      'inside the statement produces no return event at all' % (what, A, node_src(d['finals'][0][0].func.value, 40))))
    for t, v in self_guards(bs):
        if re.fullmatch(r'self\.\w+', t):
            ca = ix.find_class_attr(owner, t[5:])
            if ca is not None:
                try:
                    val = ast.literal_eval(ca[1])
                except Exception:
                    continue
                if bool(val) != v:
                    probs.append(('deferral-disabled', bs.lineno, '%s marks the function state only when %s is %s, but the class attribute of %s is %r: return statements in '
                                  'the body report their event before the intercepting code runs' % (what, t, v, owner.name, val)))
    return A, probs


def rule_defer(ctx):
    r = Rule('C45-DEFER', 'a code generator that runs a second child on the intercepted return path (try-finally) marks the function state while it generates its body, every node '
             'that reports the return event itself stays silent while the mark is set, and the generator reports the event after the second child, on the return path, '
             'when the mark is clear again; all writers of the mark are balanced', floor=1)
    ix = ctx.index
    found = interceptors(ctx)
    emitters = _return_emitters(ctx)
    if not emitters:
        raise AnalysisError('C45-DEFER: no return-statement node emitting put_trace_return found')
    if not found:
        raise AnalysisError('C45-DEFER: no code generator that intercepts the return label and runs a child on the intercepted path found (TryFinallyStatNode expected)')
    marks = set()
    for m, qn, owner, fn, d in found:
        key = '%s.%s' % (m.short, qn)
        A, probs = defer_problems(ctx, m, qn, owner, fn, d, emitters)
        r.inst(key + ':deferral', sample='%s intercepts `return` and then generates %s; mark: %s' % (key, node_src(d['finals'][0][0].func.value, 40), A))
        seen = set()
        for k, line, msg in probs:
            if k in seen:
                continue
            seen.add(k)
            r.violate('%s:%s' % (key, k), m.rel, line, msg)
        if A:
            marks.add(A)
    for A in sorted(marks):
        # every emitter is silent exactly when the mark is set
        for m, qn, owner, fn in emitters:
            key = '%s.%s:defers-on:%s' % (m.short, qn, A)
            env = local_assigns(fn)
            cubes = sC45.silent_return_conditions(fn)
            hit = [c for c, cfgs in cubes.items() if len(c) == 1 and _means_set(next(iter(c))[0], next(iter(c))[1], A, env) is True and len(cfgs) == len(sC45.CONFIGS)]
            r.inst(key, sample='%s is silent when %s' % (qn, sorted(sC45._cube_text(c) for c in cubes)))
            if not hit:
                mentions = [c for c in cubes if any(_means_set(t, v, A, env) is not None for t, v in c)]
                r.violate(key, m.rel, fn.lineno,
                          '%s reports the return event and jumps to the return label %s: inside a statement that runs user code on the intercepted return path the event is '
                          'reported before that code (and once more by the interceptor, or again when the code returns / raises)' % (
                              qn, 'without looking at function-state `%s`' % A if not mentions else 'and is silent for `%s` only together with other conditions (%s)' % (
                                  A, '; '.join(sorted(sC45._cube_text(c) for c in mentions)))))
        # all writers of the mark: balanced per class, initialised by FunctionState
        per_class = {}
        for ms in GEN_MODULES:
            try:
                mm = ix.mod(ms)
            except AnalysisError:
                continue
            for qn, owner, fn in ix.functions_of(mm):
                for s, a, op, v in _funcstate_writes(fn):
                    if a == A:
                        per_class.setdefault((mm, owner.name if owner else qn), []).append((op, qn, s))
        for (mm, cname), ws in sorted(per_class.items(), key=lambda kv: (kv[0][0].short, kv[0][1])):
            key = '%s.%s:writes:%s' % (mm.short, cname, A)
            ops = [op for op, _, _ in ws]
            r.inst(key, sample='%s writes %s: %s' % (cname, A, ops))
            if ops.count('+') != ops.count('-'):
                r.violate(key, mm.rel, ws[0][2].lineno,
                          '%s increments function-state `%s` %d time(s) and decrements it %d time(s) (%s): after this statement every return statement of the function '
                          '%s' % (cname, A, ops.count('+'), ops.count('-'), ', '.join(sorted({q for _, q, _ in ws})),
                                  'stays silent (no return event)' if ops.count('+') > ops.count('-') else 'reports early again inside enclosing try-finally statements'))
        fs = ix.cls('Code', 'FunctionState')
        init = fs.methods.get('__init__') if fs else None
        ok = False
        if init is not None:
            for n in walk_no_nested(init):
                if isinstance(n, ast.Assign) and any(is_self_attr(t) and t.attr == A for t in n.targets) and isinstance(n.value, ast.Constant) and not n.value.value:
                    ok = True
        key = 'Code.FunctionState:init:%s' % A
        r.inst(key, sample='FunctionState.__init__ clears %s: %s' % (A, ok))
        if not ok:
            r.violate(key, 'Cython/Compiler/Code.py', init.lineno if init is not None else 1,
                      'FunctionState.__init__ does not initialise `%s` to a false value: every function starts with the deferral mark undefined / set' % A)
    # embedded example: a try-finally generator without the protocol
    pcs = ("class T:\n    def generate_execution_code(self, code):\n        old_labels = code.all_new_labels()\n        new_labels = code.get_all_labels()\n"
           "        self.body.generate_execution_code(code)\n        code.set_all_labels(old_labels)\n        for new_label, old_label in zip(new_labels, old_labels):\n"
           "            code.putln('%s:' % new_label)\n            self.finally_clause.generate_execution_code(code)\n            code.put_goto(old_label)\n")
    pfn = ast.parse(pcs).body[0].body[0]
    lin = _linear(pfn)
    allsaved, retsaved = _saved_labels(pfn)
    r.positive_control('old_label' in allsaved and 'new_label' not in allsaved and sum(1 for n in lin if _is_child_codegen(n)) == 2 and not _funcstate_writes(pfn),
                       'try-finally generator that runs the finally clause on the return path without marking the function state')
    return r


# ====================================================================================================================== C45-SKIPSTART
START_DELIVERY = re.compile(r'^(PyMonitoring_FirePyStartEvent|c_profilefunc|c_tracefunc)$')


def _helper_funcs(ctx):
    out = {}
    for name, d in sC45.profile_decls(ctx, 'func'):
        if d.body and d.params:
            out.setdefault(name, []).append(d)
    return out


def suppressing_params(d):
    """indices of the parameters of a Profile.c helper function that switch its start event off when non-zero"""
    body = strip_c_comments(d.body)
    pn = [_pname(p) for p in d.params]
    sites = []
    for c, off in sC45.c_callees(body):
        if not START_DELIVERY.match(c):
            continue
        end = match_paren(body, body.find('(', off))
        if c != 'PyMonitoring_FirePyStartEvent' and 'PyTrace_CALL' not in body[off:end if end > 0 else off + 200]:
            continue
        sites.append(off)
    out = []
    for i, p in enumerate(pn):
        if p and sites and all(sC45.reach(body, off, {p: 1}) is False for off in sites) and any(sC45.reach(body, off, {p: 0}) is not False for off in sites):
            out.append(i)
    return out


def skip_slots(ctx, starts):
    """{(macro name, config key): {macro parameter index}} - the parameters of the start macros that can suppress the start event"""
    helpers = _helper_funcs(ctx)
    out = {}
    for name in sorted(starts):
        for cfg, d in _macro_defs(ctx, name):
            body = strip_c_comments(d.body or '')
            params = [_pname(p) for p in d.params]
            for callee, off in sC45.c_callees(body):
                if callee not in helpers:
                    continue
                lp = body.find('(', off)
                rp = match_paren(body, lp)
                if rp < 0:
                    continue
                args = [a.strip() for a in split_args(body[lp + 1:rp])]
                for hd in helpers[callee]:
                    for i in suppressing_params(hd):
                        if i < len(args) and args[i] in params:
                            out.setdefault((name, cfg), set()).add(params.index(args[i]))
            # a macro may also test the parameter itself
            for i, p in enumerate(params):
                sites = [off for c, off in sC45.c_callees(body) if sC45.DELIVER.match(c)]
                if p and sites and re.search(r'\b%s\b' % re.escape(p), ' '.join(c for c, _ in _if_conditions(body))) and \
                        all(sC45.reach(body, off, {p: 1}) is False for off in sites) and any(sC45.reach(body, off, {p: 0}) is not False for off in sites):
                    if not gil_flag_params(params, body) or p not in gil_flag_params(params, body):
                        out.setdefault((name, cfg), set()).add(i)
    return out


def _alternatives(e, env):
    """[(value node, [(test node, truth)])] a placeholder expression can evaluate to"""
    e = deref(e, env) if isinstance(e, ast.Name) else e
    if isinstance(e, ast.IfExp):
        return [(v, [(e.test, True)] + c) for v, c in _alternatives(e.body, env)] + [(v, [(e.test, False)] + c) for v, c in _alternatives(e.orelse, env)]
    return [(e, [])]


def _truthy_const(e):
    return isinstance(e, ast.Constant) and bool(e.value)


def rule_skipstart(ctx):
    r = Rule('C45-SKIPSTART', 'the start event of a generated function is never suppressed by a run-time flag that does not also reach its return / unwind events; a function node '
             'whose body is compiled under a directives override that switches profile / linetrace off is not traced by its function node either', floor=2)
    ix = ctx.index
    kinds, ems = _emitted_macros(ctx)
    starts = kinds.get('start', set())
    closes = kinds.get('ret', set()) | kinds.get('unwind', set())
    if not starts:
        raise AnalysisError('C45-SKIPSTART: no start macro emitted by CCodeWriter')
    slots = skip_slots(ctx, starts)
    if not slots:
        r.info('no parameter of a start macro can suppress the start event')
    method_of = {v: k for k, v in EVENT_METHODS.items()}
    reported = set()
    # ---- (A) what the compiler writes into the suppressing slots
    for ccw, fn, n, macro, args, exprs, env, params in ems:
        if macro not in starts:
            continue
        idx = set()
        for (name, cfg), s in slots.items():
            if name == macro:
                idx |= s
        for j in sorted(idx):
            if j >= len(args):
                continue
            key = 'Code.CCodeWriter.%s:%s:skip-arg%d' % (fn.name, macro, j)
            if exprs[j] is None:
                lit = args[j].strip()
                r.inst(key, sample='%s writes the literal %s into the suppressing parameter of %s' % (fn.name, lit, macro))
                if lit not in ('0', '(0)'):
                    r.violate(key, 'Cython/Compiler/Code.py', n.lineno,
                              '%s writes `%s` into the parameter of %s that suppresses the start event: the function reports return / unwind events for an activation that was '
                              'never opened' % (fn.name, lit, macro))
                continue
            alts = _alternatives(exprs[j], env)
            runtime = [(v, conds) for v, conds in alts if not (isinstance(v, ast.Constant) and str(v.value) in ('0', 'False'))]
            r.inst(key, sample='%s writes %s into the suppressing parameter of %s' % (fn.name, [node_src(v, 40) for v, _ in alts], macro))
            if not runtime:
                continue
            # which call sites select the run-time alternative?
            sel = set()
            for v, conds in runtime:
                for t, truth in conds:
                    for x in ast.walk(t):
                        if isinstance(x, ast.Name) and x.id in params:
                            sel.add(x.id)
            users = []
            for m, qn, owner, gfn in trace_sites(ctx):
                for c in walk_no_nested(gfn):
                    if isinstance(c, ast.Call) and isinstance(c.func, ast.Attribute) and c.func.attr == fn.name:
                        for k in c.keywords:
                            if k.arg in sel and not (isinstance(k.value, ast.Constant) and not k.value.value):
                                users.append((m, qn, c, k))
            if not users and sel:
                continue
            # do the closing events of the same writer method family receive the same flag?
            flag_texts = {node_src(v, 60) for v, _ in runtime}
            closing_with_flag = set()
            for ccw2, fn2, n2, macro2, args2, exprs2, env2, params2 in ems:
                if macro2 in closes:
                    for e2 in exprs2:
                        if e2 is not None and any(node_src(v2, 60) in flag_texts for v2, _ in _alternatives(e2, env2)):
                            closing_with_flag.add(macro2)
            missing = sorted(closes - closing_with_flag)
            site = users[0] if users else None
            vkey = '%s:start-skipped-by:%s' % (('%s.%s' % (site[0].short, site[1])) if site else 'Code.CCodeWriter.%s' % fn.name, '|'.join(sorted(flag_texts)))
            if missing and vkey not in reported:
                reported.add(vkey)
                r.violate(vkey,
                          site[0].rel if site else 'Cython/Compiler/Code.py', site[2].lineno if site else n.lineno,
                          '%s hands the run-time flag %s to the parameter of %s that suppresses the start event (selected by %s at %s), but the closing events %s of the same '
                          'function are reported regardless of the flag: a call with the flag set reports a return without a call, on a frame that never received its call '
                          'event (sys.settrace: the next line event calls the frame\'s trace function None -> TypeError), and whoever sets the flag has to report an unbalanced '
                          'start itself - it does so on its error path too, so a raising call is closed twice' % (
                              fn.name, ' / '.join(sorted(flag_texts)), macro, sorted(sel) or 'always',
                              ', '.join('%s.%s' % (u[0].short, u[1]) for u in users) or '-', missing))
    # ---- (B) function nodes with a marker: traced by the function node  <=>  body compiled with tracing on
    n_over = 0
    for ms in GEN_MODULES:
        try:
            m = ix.mod(ms)
        except AnalysisError:
            continue
        for qn, owner, fn in ix.functions_of(m):
            ctor_calls = [c for c in walk_no_nested(fn) if isinstance(c, ast.Call) and isinstance(c.func, (ast.Name, ast.Attribute)) and
                          any(k.arg == 'body' for k in c.keywords)]
            if not ctor_calls:
                continue
            off_names = {}          # local name -> directives switched off for the node it holds
            for s_ in walk_no_nested(fn):
                if isinstance(s_, ast.Assign) and len(s_.targets) == 1 and isinstance(s_.targets[0], ast.Name) and isinstance(s_.value, ast.Call) and \
                        isinstance(s_.value.func, ast.Attribute) and s_.value.func.attr == 'for_directives':
                    off = sorted(k.arg for k in s_.value.keywords if k.arg in ('profile', 'linetrace') and isinstance(k.value, ast.Constant) and not k.value.value)
                    unknown = [k.arg for k in s_.value.keywords if k.arg in ('profile', 'linetrace') and not isinstance(k.value, ast.Constant)] + \
                              [k for k in s_.value.keywords if k.arg is None]
                    if unknown:
                        r.info('%s.%s: for_directives(...) with a computed profile / linetrace value; not modelled' % (m.short, qn))
                        continue
                    off_names[s_.targets[0].id] = off
            for c in ctor_calls:
                cname = c.func.id if isinstance(c.func, ast.Name) else c.func.attr
                cands = ix.classes_by_name.get(cname, [])
                if len(cands) != 1:
                    continue
                K = cands[0]
                gens = [(gm, gq, go, gf) for gm, gq, go, gf in trace_sites(ctx)
                        if go is not None and go in ix.mro(K) and any(isinstance(x, ast.Call) and isinstance(x.func, ast.Attribute) and x.func.attr == method_of['start']
                                                                      for x in walk_no_nested(gf))]
                if not gens:
                    continue        # not a function node
                markers = []
                for k in c.keywords:
                    if k.arg and k.arg != 'body' and _truthy_const(k.value):
                        ca = ix.find_class_attr(K, k.arg)
                        if ca is not None and isinstance(ca[1], ast.Constant) and not ca[1].value:
                            markers.append(k.arg)
                body_kw = next(k for k in c.keywords if k.arg == 'body')
                off = set()
                for x in ast.walk(body_kw.value):
                    if isinstance(x, ast.Name) and x.id in off_names:
                        off |= set(off_names[x.id])
                if not markers and not off:
                    continue
                n_over += 1
                key = '%s.%s:untraced-body:%s(%s)' % (m.short, qn, cname, ','.join(markers))
                starts_ = [(gm, gq, gf, x) for gm, gq, go, gf in gens for x in walk_no_nested(gf)
                           if isinstance(x, ast.Call) and isinstance(x.func, ast.Attribute) and x.func.attr == method_of['start']]
                dead = bool(markers) and all(_dead_for_markers(gf, x, markers, local_assigns(gf)) for gm, gq, gf, x in starts_)
                if dead:
                    for gm, gq, go, gf in gens:
                        for x in walk_no_nested(gf):
                            if isinstance(x, ast.Call) and isinstance(x.func, ast.Attribute) and x.func.attr in EVENT_METHODS and x.func.attr != method_of['start'] \
                                    and not _dead_for_markers(gf, x, markers, local_assigns(gf)):
                                r.violate('%s.%s:%s:without-start:%s' % (gm.short, gq, x.func.attr, ','.join(markers)), gm.rel, x.lineno,
                                          '%s.%s never reports the start event for a node with %s, but %s is still emitted for it: a closing event for an activation that was '
                                          'never opened' % (gm.short, gq, ' / '.join('self.' + k for k in markers), x.func.attr))
                                break
                r.inst(key, sample='%s.%s builds %s(%s) around a body compiled with %s switched off; scope opened by %s: %s' % (
                    m.short, qn, cname, ', '.join(markers), sorted(off) or 'nothing', ['%s.%s' % (g[0].short, g[1]) for g in gens],
                    'never for this marker' if dead else 'also for such nodes'))
                if off and not dead:
                    gm, gq, gf, x = next((g for g in starts_ if not _dead_for_markers(g[2], g[3], markers, local_assigns(g[2]))), starts_[0])
                    r.violate(key, gm.rel, x.lineno,
                              '%s.%s wraps the body of the %s it builds (%s) in a directives node that switches %s off, so the return statement in that body reports no '
                              'return event; %s.%s nevertheless opens a trace scope for such a node (the start event is not excluded for %s): the function reports a start '
                              'event without a return event on its success path and relies on its callee to close it, while its own error path closes it as well' % (
                                  m.short, qn, cname, ', '.join('%s=1' % k for k in markers) or 'no marker', ' and '.join(sorted(off)),
                                  gm.short, gq, ' / '.join('self.' + k for k in markers) or 'any marker'))
                elif dead and off != {'profile', 'linetrace'}:
                    r.violate('%s.%s:traced-body:%s(%s)' % (m.short, qn, cname, ','.join(markers)), m.rel, c.lineno,
                              '%s.%s builds a %s with %s, for which %s never opens a trace scope, but compiles its body with %s: the return statement in that body reports '
                              'a return event (under %s) for an activation that was never opened' % (
                                  m.short, qn, cname, ', '.join('%s=1' % k for k in markers), ' / '.join('%s.%s' % (g[0].short, g[1]) for g in gens),
                                  'only %s switched off' % ' and '.join(sorted(off)) if off else 'the directives of the surrounding code',
                                  ' / '.join(sorted({'profile', 'linetrace'} - off))))
    r.inst('overrides', sample='%d function nodes built around a body with tracing switched off' % n_over, nontrivial=bool(n_over))
    # embedded examples
    pch = type('D', (), {})()
    pch.body = 'int ret; ret = PyMonitoring_EnterScope(a, b, c, d); if (unlikely(ret == -1)) return -1; return skip_event ? 0 : PyMonitoring_FirePyStartEvent(&s[0], code_obj, offset);'
    pch.params = ['PyMonitoringState *state_array', 'PyObject *code_obj', 'int offset', 'int skip_event']
    pg = ast.parse("def g(self, code):\n    if self.is_generator:\n        tracing = False\n    else:\n        tracing = code.is_tracing()\n    if tracing:\n"
                   "        code.put_trace_start(n, self.pos)\n").body[0]
    pcall = [x for x in ast.walk(pg) if isinstance(x, ast.Call) and isinstance(x.func, ast.Attribute) and x.func.attr == 'put_trace_start'][0]
    r.positive_control(suppressing_params(pch) == [3] and not _dead_for_markers(pg, pcall, ['is_wrapper'], local_assigns(pg)) and
                       _dead_for_markers(pg, pcall, ['is_generator'], local_assigns(pg)),
                       'helper whose last parameter suppresses the start event; scope opened for a marked node')
    return r


def _dead_for_markers(fn, call, markers, env):
    """is `call` unreachable whenever one of self.<marker> is true?  (guard dominance; one level of guard variables assigned in branches)"""
    facts = sC45.dominating_facts(fn, call, env) or set()

    def excludes(fs):
        return any((('self.' + k), False) in fs for k in markers)
    if excludes(facts):
        return True
    for t, v in facts:
        if not v or not re.fullmatch(r'[A-Za-z_]\w*', t):
            continue
        assigns = [s for s in walk_no_nested(fn) if isinstance(s, ast.Assign) and any(isinstance(x, ast.Name) and x.id == t for x in s.targets)]
        if not assigns:
            continue
        live = [s for s in assigns if not (isinstance(s.value, ast.Constant) and not s.value.value)]
        if live and all(excludes(sC45.dominating_facts(fn, s, env) or set()) for s in live):
            return True
        # `x = A and not self.marker`
        if live and all(any((('self.' + k), False) in sC45._literals(s.value, True, env) for k in markers) for s in live):
            return True
    return False
