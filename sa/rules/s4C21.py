"""C21, fifth round (session H3): the lowering of `except E as NAME` and the try/finally variant that skips its clause on the exception exit.

C21-EXCAS    PostParse.visit_ExceptClauseNode is interpreted (sC21.MiniPy; nothing of the repository is imported or run) on an abstract `except E as x` clause
             whose suite is a marker.  The tree it returns is lifted to a small statement language (statement list, try/finally with its handle_error_case flag as
             the interpreter reads it -- instance attribute or class default --, `del x` strict / tolerant, the suite) and, for every member of a family of
             suites (every way a suite can end x what it did to x), the collecting semantics of the lifted tree is compared with the language reference:
             x is unbound again on EVERY exit of the clause (normal, exception, break, continue, return) and the implicit `del` adds no exception of its own.
             The meaning of handle_error_case = False ("the finally clause is not run when the body raises") is the code generator's; C21-FINERR checks that
             the generator really implements the flag in that polarity.
C21-FINERR   writer/reader agreement on TryFinallyStatNode.handle_error_case.  The flow analysis (visit_TryFinallyStatNode) analyses the finally clause as executed
             on the exception exit and never looks at the flag; the generator (generate_execution_code) redirects the error label past the clause when the flag is
             false.  Hence (a) every construction site whose effective flag is false must build a finally clause that provably (un)binds no name -- the node
             classes it constructs dispatch to no ControlFlowAnalysis handler that calls mark_assignment / mark_deletion / mark_argument --, (b) the class
             default, which the parser's try/finally statements get, is true, (c) with the flag true the generator does not assign code.error_label between
             taking the new labels and generating the body.
"""
import ast

from ..core import Rule, AnalysisError
from ..engine.pyindex import walk_no_nested
from . import sC21 as S

U, A = S.U, S.A


# ================================================================================================================ C21-EXCAS
def _lower_marker_clause(w):
    body = w.node('Nodes', 'StatListNode', stats=[w.node('Nodes', 'PassStatNode', **{'$tag': 'SUITE'})])
    target = w.node('ExprNodes', 'NameNode', name='x')
    clause = w.node('Nodes', 'ExceptClauseNode', pattern=[w.node('ExprNodes', 'NullNode')], target=target, body=body, exc_value=None, is_except_as=True)
    it = w.it
    res = it.call(it.getattr(w.post_parse(), 'visit_ExceptClauseNode'), [clause], {})
    if not isinstance(res, S.Obj) or 'ExceptClauseNode' not in it.mro_names(res.cls):
        raise S.Unmodelled('PostParse.visit_ExceptClauseNode returned %r' % (res,))
    return res


def lift(w, o, suite, ids):
    """lowered clause body (interpreter objects) -> scenario statements; the marker is replaced by `suite`"""
    it = w.it
    if o is None:
        return []
    if isinstance(o, list):
        out = []
        for x in o:
            out += lift(w, x, suite, ids)
        return out
    if not isinstance(o, S.Obj):
        raise S.Unmodelled('%r in the lowered except clause' % (o,))
    names = it.mro_names(o.cls)
    if o.attrs.get('$tag') == 'SUITE':
        return list(suite)
    if 'StatListNode' in names:
        return lift(w, it.getattr(o, 'stats'), suite, ids)
    if 'PassStatNode' in names:
        return [('pass',)]
    if 'TryFinallyStatNode' in names:
        flag = it.getattr(o, 'handle_error_case')
        if flag not in (True, False, 0, 1):
            raise S.Unmodelled('TryFinallyStatNode.handle_error_case is %r' % (flag,))
        return [('tryfinally', lift(w, it.getattr(o, 'body'), suite, ids), lift(w, it.getattr(o, 'finally_clause'), suite, ids), bool(flag))]
    if 'DelStatNode' in names:
        out = []
        tolerant = bool(it.truth(it.getattr(o, 'ignore_nonexisting')))
        for arg in it.getattr(o, 'args'):
            if not (isinstance(arg, S.Obj) and 'NameNode' in it.mro_names(arg.cls)):
                raise S.Unmodelled('del of %r in the lowered except clause' % (arg,))
            nm = it.getattr(arg, 'name')
            if nm != 'x':
                out.append(('pass',))          # another name: no effect on x
                ids.setdefault('other-names', []).append(nm)
            else:
                out.append(('Dq', 'x') if tolerant else ('D', 'x', next(ids['count'])))
        return out
    raise S.Unmodelled('node class %s in the lowered except clause' % o.cls.name)


def excas_suites():
    """(label, suite) -- how a clause suite can end x what it did to x before (x is bound when the suite starts)"""
    a, d, r, c = ('A', 'x', 9001), ('D', 'x', 9002), ('R', 'x', 9003), ('C',)
    ends = (('falls through', []), ('raises', [('raise',)]), ('may raise', [c]), ('break', [('break',)]), ('continue', [('continue',)]), ('return', [('return',)]))
    pres = (('', []), ('rebinds x, ', [a]), ('unbinds x, ', [d]), ('may unbind x, ', [('if', [[d]], None)]))
    out = []
    for pl, p in pres:
        for el, e in ends:
            out.append((pl + el, p + e))
    return out


def excas_problems(lowered):
    """lowered: suite -> statements.  -> [(exit kind, code, suite label)]"""
    bad = []
    for label, suite in excas_suites():
        ref = S.RefSem().block(suite, {(('x', A),)})
        got = S.RefSem().block(lowered(suite), {(('x', A),)})
        for kind in sorted(set(ref) | set(got)):
            rs, gs = ref.get(kind, set()), got.get(kind, set())
            if rs and not gs:
                bad.append((kind, 'exit-lost', label))
            elif gs and not rs:
                bad.append((kind, 'spurious-' + kind, label))
            elif any(dict(st)['x'] != U for st in gs):
                bad.append((kind, 'stays-bound', label))
    return bad


EXIT_TEXT = {'normal': 'falls off its end', 'raise': 'is left by an exception', 'break': 'is left by `break`', 'continue': 'is left by `continue`', 'return': 'is left by `return`'}


def rule_excas(ctx, floor=20):
    import itertools
    ix = ctx.index
    r = Rule('C21-EXCAS', 'PostParse.visit_ExceptClauseNode lowers `except E as x: SUITE` to a tree that unbinds x on every exit of the clause (normal, exception, break, continue, '
             'return) without adding an exception of its own, for every way SUITE can end and whatever it did to x', floor)
    c = ix.cls('ParseTreeTransforms', 'PostParse')
    owner_fn = ix.find_method(c, 'visit_ExceptClauseNode') if c else None
    if not owner_fn:
        raise AnalysisError('ParseTreeTransforms.PostParse.visit_ExceptClauseNode not found')
    fn = owner_fn[1]
    w = S.CfgWorld(ix)
    try:
        tree = _lower_marker_clause(w)
        ids = {'count': itertools.count(9100)}
        probe = lift(w, w.it.getattr(tree, 'body'), [('SUITE',)], ids)
    except S.Unmodelled as e:
        raise AnalysisError('C21-EXCAS: the lowered `except E as x` clause is outside the modelled statement language: %s' % e)
    except S.PyRaise as e:
        raise AnalysisError('C21-EXCAS: PostParse.visit_ExceptClauseNode raises %r on an abstract `except E as x` clause' % (e.value,))
    if sum(1 for _ in _walk_stmts(probe, 'SUITE')) != 1:
        raise AnalysisError('C21-EXCAS: the clause suite occurs %d times in the lowered tree' % sum(1 for _ in _walk_stmts(probe, 'SUITE')))

    def lowered(suite):
        return lift(w, w.it.getattr(tree, 'body'), suite, {'count': itertools.count(9100)})
    shape = ' | '.join(S.show_prog(_subst(probe))).replace('    ', '>')
    base = 'ParseTreeTransforms.PostParse.visit_ExceptClauseNode'
    for label, suite in excas_suites():
        r.inst('%s:%s' % (base, label), sample='suite %s -> [%s]' % (label, shape))
    worst = {}
    for kind, code, label in excas_problems(lowered):
        worst.setdefault((kind, code), []).append(label)
    for (kind, code), labels in sorted(worst.items()):
        if code == 'stays-bound':
            what = 'x is still bound after the clause %s (CPython has unbound it: a later read must raise UnboundLocalError, a later `del x` too)' % EXIT_TEXT[kind]
        elif code == 'exit-lost':
            what = 'the clause can no longer be left the way the suite leaves it (%s)' % EXIT_TEXT[kind]
        else:
            what = 'the lowered clause %s although the suite does not (the implicit `del x` must tolerate a suite that has unbound x itself)' % EXIT_TEXT[kind]
        r.violate('%s:%s:%s' % (base, kind, code), c.module.rel, fn.lineno,
                  '`except E as x: SUITE` is lowered to [%s]: %s; suites: %s' % (shape, what, '; '.join(labels[:6]) + (' ...' if len(labels) > 6 else '')))
    # positive control: a lowering that skips the clause on the exception exit / a strict del must be rejected, the reference lowering accepted
    good = lambda suite: [('tryfinally', list(suite), [('Dq', 'x')], True)]
    skip = lambda suite: [('tryfinally', list(suite), [('Dq', 'x')], False)]
    strict = lambda suite: [('tryfinally', list(suite), [('D', 'x', 9100)], True)]
    r.positive_control(not excas_problems(good) and any(k == 'raise' and cd == 'stays-bound' for k, cd, _ in excas_problems(skip))
                       and any(cd == 'spurious-raise' for _, cd, _ in excas_problems(strict)), 'finally clause skipped on the exception exit / strict implicit del rejected')
    return r


def _walk_stmts(block, kind):
    for s in block or ():
        if s[0] == kind:
            yield s
        elif s[0] == 'tryfinally':
            yield from _walk_stmts(s[1], kind)
            yield from _walk_stmts(s[2], kind)


def _subst(block):
    out = []
    for s in block:
        if s[0] == 'SUITE':
            out.append(('C',))
        elif s[0] == 'tryfinally':
            out.append(('tryfinally', _subst(s[1]), _subst(s[2])) + tuple(s[3:]))
        else:
            out.append(s)
    return out


# ================================================================================================================ C21-FINERR
FLAG = 'handle_error_case'
MARKERS = ('mark_assignment', 'mark_deletion', 'mark_argument')


def binding_handlers(ix):
    """names X such that ControlFlowAnalysis.visit_X (transitively through self.<helper>() calls) records a binding / unbinding of a name"""
    cfa = ix.cls('FlowControl', 'ControlFlowAnalysis')
    if cfa is None:
        raise AnalysisError('FlowControl.ControlFlowAnalysis not found')
    direct = {}
    calls = {}
    for k in ix.mro(cfa):
        for name, fn in k.methods.items():
            if name in direct:
                continue
            direct[name] = False
            calls[name] = set()
            for n in walk_no_nested(fn):
                if isinstance(n, ast.Call) and isinstance(n.func, ast.Attribute):
                    if n.func.attr in MARKERS:
                        direct[name] = True
                    elif isinstance(n.func.value, ast.Name) and n.func.value.id == 'self':
                        calls[name].add(n.func.attr)
    changed = True
    while changed:
        changed = False
        for name in direct:
            if not direct[name] and any(direct.get(cn) for cn in calls[name] if not cn.startswith('visit') and cn not in ('_visit', 'visitchildren')):
                direct[name] = changed = True
    out = {n[len('visit_'):] for n, v in direct.items() if v and n.startswith('visit_')}
    if 'DelStatNode' not in out or 'SingleAssignmentNode' not in out:
        raise AnalysisError('C21-FINERR: the binding handlers of ControlFlowAnalysis were not recognised (%s)' % sorted(out))
    return out


def _dispatch_name(ix, cfa, c):
    """the class name whose visit_ handler ControlFlowAnalysis uses for an instance of c"""
    for k in ix.mro(c):
        if ix.find_method(cfa, 'visit_' + k.name):
            return k.name
    return None


def _const(e):
    return e.value if isinstance(e, ast.Constant) else Ellipsis


def _local_defs(fn):
    d = {}
    for n in walk_no_nested(fn):
        if isinstance(n, ast.Assign) and len(n.targets) == 1 and isinstance(n.targets[0], ast.Name):
            d.setdefault(n.targets[0].id, []).append(n.value)
    return d


def _node_class(ix, m, func):
    r = ix.resolve_expr(m, func) if isinstance(func, (ast.Name, ast.Attribute)) else None
    if r and r[0] == 'class' and any(k.name == 'Node' for k in ix.mro(r[1])):
        return r[1]
    return None


def _children(ix, c):
    out = set()
    for a in ('child_attrs', 'subexprs'):
        for k in ix.mro(c):
            v = k.attrs.get(a)
            if isinstance(v, (ast.List, ast.Tuple)) and all(isinstance(e, ast.Constant) for e in v.elts):
                out.update(e.value for e in v.elts)
    return out


def clause_classes(ix, m, fn, expr, depth=0):
    """node classes constructed in the closure of `expr` as (transitive) children, and the sub-expressions that denote a subtree the site did not build:
    -> (set of ClassInfo, [opaque expression text])"""
    classes, opaque = set(), []
    defs = _local_defs(fn) if fn is not None else {}
    params = {a.arg for a in (fn.args.args + fn.args.kwonlyargs)} if fn is not None else set()
    params |= {n.id for n in walk_no_nested(fn) if isinstance(n, ast.Name) and isinstance(n.ctx, ast.Store)} if fn is not None else set()

    def root_name(e):
        while isinstance(e, (ast.Attribute, ast.Subscript)):
            e = e.value
        return e.id if isinstance(e, ast.Name) else None

    def visit(e, seen):
        if e is None or (isinstance(e, ast.Constant) and e.value is None):
            return
        if isinstance(e, (ast.List, ast.Tuple)):
            for x in e.elts:
                visit(x, seen)
            return
        if isinstance(e, ast.ListComp):
            visit(e.elt, seen)
            return
        if isinstance(e, ast.IfExp):
            visit(e.body, seen)
            visit(e.orelse, seen)
            return
        if isinstance(e, ast.BinOp) and isinstance(e.op, ast.Add):      # list concatenation
            visit(e.left, seen)
            visit(e.right, seen)
            return
        if isinstance(e, ast.Name) and e.id in defs and e.id not in seen:
            for v in defs[e.id]:
                visit(v, seen | {e.id})
            return
        if isinstance(e, ast.Call):
            c = _node_class(ix, m, e.func)
            if c is not None:
                classes.add(c)
                kids = _children(ix, c)
                for kw in e.keywords:
                    if kw.arg is None:
                        opaque.append(ast.unparse(kw.value))
                    elif kw.arg in kids:
                        visit(kw.value, seen)
                return
            raise AnalysisError('C21-FINERR: the finally clause of a try/finally built with %s=False is produced by the call `%s` (not followed)' % (FLAG, ast.unparse(e)[:80]))
        rn = root_name(e)
        if rn is not None and (rn in params or rn in defs):
            opaque.append(ast.unparse(e))
            return
        raise AnalysisError('C21-FINERR: cannot classify the finally clause expression `%s`' % ast.unparse(e)[:80])
    visit(expr, frozenset())
    return classes, opaque


def _flag_paths(fn, stop):
    """statements of fn in execution order up to (excluding) the first statement for which stop(stmt) holds, partially evaluated with self.<FLAG> = True:
    yields the simple statements that can execute"""
    def ev(t):
        if isinstance(t, ast.Attribute) and t.attr == FLAG:
            return True
        if isinstance(t, ast.UnaryOp) and isinstance(t.op, ast.Not):
            v = ev(t.operand)
            return None if v is None else (not v)
        if isinstance(t, ast.BoolOp):
            vs = [ev(x) for x in t.values]
            if isinstance(t.op, ast.And):
                return False if any(v is False for v in vs) else (True if all(v is True for v in vs) else None)
            return True if any(v is True for v in vs) else (False if all(v is False for v in vs) else None)
        if isinstance(t, ast.Compare) and len(t.ops) == 1 and isinstance(t.ops[0], (ast.Is, ast.Eq, ast.IsNot, ast.NotEq)) and isinstance(t.comparators[0], ast.Constant):
            v = ev(t.left)
            if v is None or not isinstance(t.comparators[0].value, bool):
                return None
            same = (v == t.comparators[0].value)
            return same if isinstance(t.ops[0], (ast.Is, ast.Eq)) else not same
        return None

    done = [False]

    def walk(stmts):
        for st in stmts:
            if done[0]:
                return
            if stop(st):
                done[0] = True
                return
            if isinstance(st, ast.If):
                v = ev(st.test)
                if v is not False:
                    yield from walk(st.body)
                if v is not True and not done[0]:
                    yield from walk(st.orelse)
            elif isinstance(st, (ast.For, ast.While, ast.With, ast.Try)):
                for fld in ('body', 'orelse', 'finalbody'):
                    yield from walk(getattr(st, fld, []) or [])
                for h in getattr(st, 'handlers', []) or []:
                    yield from walk(h.body)
            else:
                yield st
    yield from walk(fn.body)


def rule_finerr(ctx, floor=5):
    ix = ctx.index
    r = Rule('C21-FINERR', 'TryFinallyStatNode.handle_error_case: the flow analysis treats every finally clause as run on the exception exit, so a try/finally built with the flag off '
             'must have a clause that (un)binds no name, the class default (the parser\'s try/finally statements) is on, and the generator skips the clause only with the flag off', floor)
    tf = ix.cls('Nodes', 'TryFinallyStatNode')
    cfa = ix.cls('FlowControl', 'ControlFlowAnalysis')
    if tf is None or cfa is None:
        raise AnalysisError('Nodes.TryFinallyStatNode / FlowControl.ControlFlowAnalysis not found')
    family = [tf] + [k for k in ix.subclasses(tf)]
    # ---- does the flow analysis model the flag?  (then the obligations below are not necessary conditions any more)
    vfn = ix.find_method(cfa, 'visit_TryFinallyStatNode')
    if not vfn:
        raise AnalysisError('ControlFlowAnalysis.visit_TryFinallyStatNode not found')
    cfa_reads_flag = any(isinstance(n, ast.Attribute) and n.attr == FLAG for n in ast.walk(vfn[1]))
    if cfa_reads_flag:
        r.info('ControlFlowAnalysis.visit_TryFinallyStatNode consults %s: the agreement between its model and the generator is not decided by this rule' % FLAG)
    binders = binding_handlers(ix)

    # ---- (b) class defaults
    for k in family:
        d = ix.find_class_attr(k, FLAG)
        val = _const(d[1]) if d else Ellipsis
        key = '%s.%s' % (k.qual, FLAG)
        r.inst(key, sample='%s = %r' % (key, val))
        if val is Ellipsis:
            raise AnalysisError('C21-FINERR: class default of %s is not a constant' % key)
        if not val and not cfa_reads_flag:
            r.violate(key, k.module.rel, (d[1].lineno if d else k.node.lineno),
                      '%s defaults to %r: try/finally statements written by the user (Parsing.py passes no flag) do not run their finally clause when the body raises, while the flow '
                      'analysis assumes they do -- `try: f() finally: del x` leaves x bound / `finally: x = 1` leaves x unbound on the exception path without a run-time check' % (key, val))

    # ---- (a) construction sites and attribute stores
    fam_names = {k.name for k in family}
    mods = [m for name, m in sorted(ix.modules.items()) if name.startswith('Cython.Compiler.')]
    if len(mods) < 20:
        raise AnalysisError('C21-FINERR: only %d modules of Cython.Compiler indexed' % len(mods))
    for m in mods:
        if FLAG not in m.src and not any(nm in m.src for nm in fam_names):
            continue
        for qual, owner, fn in ix.functions_of(m):
            if not any((isinstance(x, ast.Attribute) and (x.attr in fam_names or x.attr == FLAG)) or (isinstance(x, ast.Name) and x.id in fam_names) for x in ast.walk(fn)):
                continue
            local_sites = {}
            for n in walk_no_nested(fn):
                if isinstance(n, ast.Call):
                    c = _node_class(ix, m, n.func)
                    if c is None or c.name not in fam_names:
                        continue
                    kws = {kw.arg: kw.value for kw in n.keywords if kw.arg}
                    if any(kw.arg is None for kw in n.keywords):
                        raise AnalysisError('C21-FINERR: %s(**kwargs) in %s.%s' % (c.name, m.short, qual))
                    if FLAG in kws:
                        val = _const(kws[FLAG])
                        if val is Ellipsis:
                            raise AnalysisError('C21-FINERR: %s(%s=%s) in %s.%s is not a constant' % (c.name, FLAG, ast.unparse(kws[FLAG]), m.short, qual))
                        explicit = True
                    else:
                        d = ix.find_class_attr(c, FLAG)
                        val = _const(d[1]) if d else True
                        explicit = False
                    local_sites[id(n)] = [n, c, kws, bool(val), explicit]
            # attribute stores  <local>.handle_error_case = <const>  on a node built in this function
            defs = _local_defs(fn)
            for n in walk_no_nested(fn):
                if isinstance(n, ast.Assign):
                    for t in n.targets:
                        if isinstance(t, ast.Attribute) and t.attr == FLAG:
                            val = _const(n.value)
                            tgt = None
                            if isinstance(t.value, ast.Name):
                                for v in defs.get(t.value.id, []):
                                    if id(v) in local_sites:
                                        tgt = local_sites[id(v)]
                            if val is Ellipsis or tgt is None:
                                if isinstance(t.value, ast.Name) and t.value.id == 'self' and owner is not None and owner.name in fam_names and val is not Ellipsis and val:
                                    continue
                                raise AnalysisError('C21-FINERR: store `%s` in %s.%s cannot be attributed to a construction site' % (ast.unparse(n), m.short, qual))
                            tgt[3] = bool(val)
                            tgt[4] = True
            for n, c, kws, flag, explicit in local_sites.values():
                key = '%s.%s:%s(%s)' % (m.short, qual, c.name, 'clause runs on error' if flag else 'clause skipped on error')
                r.inst(key, sample=key)
                if flag or cfa_reads_flag or not explicit:
                    continue            # (a site that relies on a class default that is off is covered by the class-default obligation)
                if 'finally_clause' not in kws:
                    raise AnalysisError('C21-FINERR: %s built without a finally_clause keyword in %s.%s' % (c.name, m.short, qual))
                classes, opaque = clause_classes(ix, m, fn, kws['finally_clause'])
                bad = sorted(k.name for k in classes if _dispatch_name(ix, cfa, k) in binders)
                if bad or opaque:
                    why = []
                    if bad:
                        why.append('it contains %s, which the flow analysis records as (un)binding a name' % ', '.join(bad))
                    if opaque:
                        why.append('it contains the subtree(s) %s that the site did not build (arbitrary statements)' % ', '.join('`%s`' % o for o in opaque))
                    r.violate('%s.%s:%s:%s-off' % (m.short, qual, c.name, FLAG), m.rel, n.lineno,
                              '%s.%s builds a %s with %s=False: the generated code does not run the finally clause when the body raises, but %s, and '
                              'ControlFlowAnalysis.visit_TryFinallyStatNode analyses the clause as executed on the exception path too -- after an exception the name keeps its old '
                              'binding state while references are compiled for the state after the clause (a stale value is read where CPython raises UnboundLocalError, or the '
                              'reverse)' % (m.short, qual, c.name, FLAG, ' and '.join(why)))

    # ---- (c) the generator: with the flag on, the error label is not redirected before the body is generated
    gfn = tf.methods.get('generate_execution_code')
    if gfn is None:
        raise AnalysisError('TryFinallyStatNode.generate_execution_code not found')
    key = '%s.generate_execution_code:%s-on' % (tf.qual, FLAG)
    reads = any(isinstance(n, ast.Attribute) and n.attr == FLAG for n in ast.walk(gfn))
    r.inst(key, sample='%s (flag %s)' % (key, 'read' if reads else 'never read'))

    def is_body_gen(st):
        return any(isinstance(x, ast.Call) and isinstance(x.func, ast.Attribute) and x.func.attr == 'generate_execution_code' and isinstance(x.func.value, ast.Attribute)
                   and x.func.value.attr == 'body' for x in ast.walk(st)) and not isinstance(st, (ast.If, ast.For, ast.While, ast.With, ast.Try))
    if not any(is_body_gen(st) for st in ast.walk(gfn) if isinstance(st, ast.stmt)):
        raise AnalysisError('TryFinallyStatNode.generate_execution_code: generation of self.body not found')

    def label_stores(stmts):
        new_labels = False
        for st in stmts:
            if any(isinstance(x, ast.Call) and isinstance(x.func, ast.Attribute) and x.func.attr in ('all_new_labels', 'new_error_label') for x in ast.walk(st)):
                new_labels = True
                continue
            if new_labels and isinstance(st, ast.Assign) and any(isinstance(t, ast.Attribute) and t.attr == 'error_label' for t in st.targets):
                yield st
    for st in label_stores(_flag_paths(gfn, is_body_gen)):
        r.violate(key, tf.module.rel, st.lineno, 'TryFinallyStatNode.generate_execution_code executes `%s` before generating the body although %s is set: errors in the body jump '
                  'past the finally clause, so `finally: del x` / `finally: x = ...` does not run on the exception path the flow analysis assumes it runs on' % (ast.unparse(st), FLAG))
    # positive control
    pc = ast.parse('def generate_execution_code(self, code):\n    old = code.error_label\n    labels = code.all_new_labels()\n    if self.handle_error_case:\n        code.error_label = old\n'
                   '    self.body.generate_execution_code(code)\n').body[0]
    pc2 = ast.parse('def generate_execution_code(self, code):\n    old = code.error_label\n    labels = code.all_new_labels()\n    if not self.handle_error_case:\n        code.error_label = old\n'
                    '    self.body.generate_execution_code(code)\n').body[0]
    r.positive_control(bool(list(label_stores(_flag_paths(pc, is_body_gen)))) and not list(label_stores(_flag_paths(pc2, is_body_gen))), 'error label redirected with the flag on is recognised')
    return r
