"""C21-JUMP: the control-flow-graph builder routes jump statements to the right successor block.

  break    -> the block after the loop  (loop.next_block), possibly through the enclosing finally clause
  continue -> the loop head             (loop.loop_block), possibly through the enclosing finally clause
and every jump statement (break, continue, return, raise, re-raise) leaves no current block behind (self.flow.block = None on every
path that jumped) — otherwise definedness of names after the jump is computed over an edge that does not exist at run time."""
import ast

from ..core import Rule, AnalysisError
from ..engine import pyflow
from ..engine.pyindex import walk_no_nested

TARGET = {'visit_BreakStatNode': 'next_block', 'visit_ContinueStatNode': 'loop_block'}
JUMPS = ('visit_BreakStatNode', 'visit_ContinueStatNode', 'visit_ReturnStatNode', 'visit_RaiseStatNode', 'visit_ReraiseStatNode')


def jump_targets(fn):
    """attribute names of `loop` handed to add_child() in a handler: [(attr, lineno)]"""
    loops = set()
    for n in walk_no_nested(fn):
        if isinstance(n, ast.Assign) and isinstance(n.value, ast.Subscript) and isinstance(n.value.value, ast.Attribute) and n.value.value.attr == 'loops':
            for t in n.targets:
                if isinstance(t, ast.Name):
                    loops.add(t.id)
    out = []
    for n in walk_no_nested(fn):
        if isinstance(n, ast.Call) and isinstance(n.func, ast.Attribute) and n.func.attr == 'add_child' and n.args:
            a = n.args[0]
            if isinstance(a, ast.Attribute) and isinstance(a.value, ast.Name) and a.value.id in loops:
                out.append((a.attr, n.lineno))
    return out


def block_left_open(fn):
    """Line numbers of normal exits of the handler that added an edge (add_child) but did not reset self.flow.block to None."""
    bad = []

    def is_flow_block(t):
        return isinstance(t, ast.Attribute) and t.attr == 'block' and isinstance(t.value, ast.Attribute) and t.value.attr == 'flow'

    def tr(n, state):
        s = set(state)
        for c in pyflow.calls_in(n):
            if isinstance(c.func, ast.Attribute) and c.func.attr == 'add_child':
                s.add('edge')
                s.discard('closed')
        if isinstance(n, ast.Assign) and any(is_flow_block(t) for t in n.targets):
            if isinstance(n.value, ast.Constant) and n.value.value is None:
                s.add('closed')
            else:
                s.discard('closed')
        return frozenset(s)
    out = pyflow.Flow(tr).run(fn)
    for st in set(out.normal) | set(out.returns):
        facts = {f for f in st if isinstance(f, str)}
        if 'edge' in facts and 'closed' not in facts:
            bad.append(fn.lineno)
    return bad


def rule_jump(ctx, floor=7):
    ix = ctx.index
    r = Rule('C21-JUMP', 'CFG construction: break jumps to loop.next_block and continue to loop.loop_block on every route (also through finally), '
             'and every jump statement handler leaves self.flow.block = None after adding its edge', floor)
    cfa = ix.cls('FlowControl', 'ControlFlowAnalysis')
    if cfa is None:
        raise AnalysisError('FlowControl.ControlFlowAnalysis not found')
    for name, want in TARGET.items():
        fn = cfa.methods.get(name)
        if fn is None:
            raise AnalysisError('ControlFlowAnalysis.%s vanished' % name)
        tg = jump_targets(fn)
        if not tg:
            raise AnalysisError('%s adds no edge to a loop block' % name)
        for i, (attr, line) in enumerate(tg):
            key = 'FlowControl.ControlFlowAnalysis.%s:edge%d' % (name, i)
            r.inst(key, sample='%s -> loop.%s' % (key, attr))
            if attr != want:
                r.violate(key, cfa.module.rel, line, '%s adds a CFG edge to loop.%s; a %s must continue at loop.%s (definedness after the loop / at the loop head is computed over a wrong edge)' % (
                    name, attr, 'break' if 'Break' in name else 'continue', want))
    for name in JUMPS:
        fn = cfa.methods.get(name)
        if fn is None:
            raise AnalysisError('ControlFlowAnalysis.%s vanished' % name)
        key = 'FlowControl.ControlFlowAnalysis.%s:closes-block' % name
        has_close = any(isinstance(n, ast.Assign) and isinstance(n.value, ast.Constant) and n.value.value is None and
                        any(isinstance(t, ast.Attribute) and t.attr == 'block' for t in n.targets) for n in walk_no_nested(fn))
        r.inst(key, sample=key)
        if not has_close:
            r.violate(key, cfa.module.rel, fn.lineno, '%s never resets self.flow.block to None: statements after the jump are treated as reachable from it' % name)
            continue
        for line in block_left_open(fn):
            r.violate(key, cfa.module.rel, line, '%s has a path that adds a CFG edge but leaves self.flow.block open' % name)
    pc = ast.parse("def visit_ContinueStatNode(self, node):\n    loop = self.flow.loops[-1]\n    self.flow.block.add_child(loop.next_block)\n").body[0]
    r.positive_control(jump_targets(pc) == [('next_block', 3)] and bool(block_left_open(pc)), 'continue -> next_block / block left open recognised')
    return r
