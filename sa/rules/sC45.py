"""C45-RETCOND: under which conditions does a `return` statement node leave the function without its return event?

A node that jumps to the function's return label and reports the return event itself (ReturnStatNode) is the only
place where that activation can be closed for the profiler: the default return event of the function body is emitted
before the return label.  The existing rule C45-RET reports "some path is silent" under ONE construct key; a second,
different suppressing condition is therefore indistinguishable from the first.  This rule computes the *decision
function* "return label reached without a return event" over the non-tracing tests of the method:

 * every `if` whose subtree emits the return event or jumps to the return label is normalised into nested atomic tests
   (a and b, a or b, not a, locals with a single definition substituted), so nested ifs / and / De Morgan / early exits
   give the same atoms;
 * the tracing tests are fixed by one of the three enabled configurations (profile, linetrace, both);
 * the remaining atoms are tracked path-sensitively (pyflow) and the silent paths are summarised by their prime
   implicants (minimal sets of atom values that force a silent return).

Every prime implicant is one construct `<Module.Class.method>:no-event-when:<literals>` (the configurations in which it
holds are named in the message, not in the key).  Nothing is executed; the atoms
stay symbolic and the enumeration is over the complete set of truth assignments of the atoms found.
"""
import ast, itertools

from ..core import Rule, AnalysisError, node_src
from ..engine import pyflow
from ..engine.pyindex import walk_no_nested
from .pC37 import local_assigns, label_kind
from .pC45 import Tests, trace_sites

CONFIGS = (('profile', {'profile': True, 'linetrace': False}),
           ('linetrace', {'profile': False, 'linetrace': True}),
           ('both', {'profile': True, 'linetrace': True}))
MAX_ATOMS = 8


def _is_event(c):
    return isinstance(c, ast.Call) and isinstance(c.func, ast.Attribute) and c.func.attr == 'put_trace_return'


def _is_goto_return(c):
    return isinstance(c, ast.Call) and isinstance(c.func, ast.Attribute) and c.func.attr == 'put_goto' and c.args and label_kind(c.args[0]) == 'return'


def _relevant(s):
    return any(_is_event(n) or _is_goto_return(n) for n in ast.walk(s))


def _attr_chain(e):
    while isinstance(e, ast.Attribute):
        e = e.value
    return isinstance(e, ast.Name)


def _subst(e, env, depth=0):
    """replace locals that are assigned exactly once by a side-effect free test expression / attribute chain with that
    expression, so that `par = self.in_parallel; if par:` and `if self.in_parallel:` give the same atom"""
    if depth > 4:
        return e
    if isinstance(e, ast.Name) and len(env.get(e.id, ())) == 1:
        d = env[e.id][0]
        if isinstance(d, (ast.BoolOp, ast.UnaryOp, ast.Compare)) or (isinstance(d, ast.Attribute) and _attr_chain(d)) or \
                (isinstance(d, ast.Call) and isinstance(d.func, ast.Attribute) and d.func.attr == 'is_tracing') or Tests.directive(d):
            return _subst(d, env, depth + 1)
        return e
    if isinstance(e, ast.BoolOp):
        return ast.BoolOp(op=e.op, values=[_subst(v, env, depth) for v in e.values])
    if isinstance(e, ast.UnaryOp) and isinstance(e.op, ast.Not):
        return ast.UnaryOp(op=e.op, operand=_subst(e.operand, env, depth))
    if isinstance(e, ast.Compare):
        return ast.Compare(left=_subst(e.left, env, depth), ops=e.ops, comparators=[_subst(c, env, depth) for c in e.comparators])
    return e


def _split(stmts, env):
    """relevant `if` statements -> nested ifs with atomic tests"""
    out = []
    for s in stmts:
        if isinstance(s, ast.If) and _relevant(s):
            out.append(_split_if(_subst(s.test, env), _split(s.body, env), _split(s.orelse, env), s))
        elif isinstance(s, (ast.For, ast.While, ast.With, ast.Try)) and _relevant(s):
            c = type(s)(**{f: getattr(s, f) for f in s._fields})
            for f in ('body', 'orelse', 'finalbody'):
                if getattr(c, f, None):
                    setattr(c, f, _split(getattr(c, f), env))
            ast.copy_location(c, s)
            out.append(c)
        else:
            out.append(s)
    return out


def _split_if(test, body, orelse, at):
    if isinstance(test, ast.UnaryOp) and isinstance(test.op, ast.Not):
        return _split_if(test.operand, orelse or [ast.copy_location(ast.Pass(), at)], body, at)
    if isinstance(test, ast.BoolOp) and len(test.values) >= 2:
        first, rest = test.values[0], test.values[1:]
        rest = rest[0] if len(rest) == 1 else ast.BoolOp(op=test.op, values=rest)
        if isinstance(test.op, ast.And):
            return _split_if(first, [_split_if(rest, body, orelse, at)], orelse, at)
        return _split_if(first, body, [_split_if(rest, body, orelse, at)], at)
    n = ast.If(test=test, body=body or [ast.copy_location(ast.Pass(), at)], orelse=orelse)
    n._atomic = True
    return ast.fix_missing_locations(ast.copy_location(n, at))


def silent_return_conditions(fn):
    """-> {frozenset of (atom text, truth): set of configuration names} — the prime implicants of
    "the return label is reached without a return event", per tracing configuration."""
    env = local_assigns(fn)
    tests = Tests(fn)
    fn2 = ast.FunctionDef(name=fn.name, args=fn.args, body=_split(fn.body, env), decorator_list=[], returns=None, type_comments=None)
    ast.copy_location(fn2, fn)
    ast.fix_missing_locations(fn2)
    result = {}
    for cname, cfg in CONFIGS:
        def trace_value(e):
            """truth of a pure tracing test under the configuration, else None"""
            d = tests.directive(e)
            if d:
                return cfg[d]
            if isinstance(e, ast.Call) and isinstance(e.func, ast.Attribute) and e.func.attr == 'is_tracing' and not e.args:
                return True
            if isinstance(e, ast.Name) and len(env.get(e.id, ())) == 1:
                return trace_value(env[e.id][0])
            if isinstance(e, ast.UnaryOp) and isinstance(e.op, ast.Not):
                v = trace_value(e.operand)
                return None if v is None else not v
            if isinstance(e, ast.BoolOp):
                vs = [trace_value(v) for v in e.values]
                if any(v is None for v in vs):
                    return None
                return all(vs) if isinstance(e.op, ast.And) else any(vs)
            return None

        atoms = set()
        silent = []

        def refine(test, truth, state):
            tv = trace_value(test)
            if tv is not None:
                return state if tv == truth else None
            if isinstance(test, ast.Constant):
                return state
            txt = ' '.join(ast.unparse(test).split())
            if ('C', txt, not truth) in state:
                return None
            atoms.add(txt)
            return state | {('C', txt, truth)}

        def tr(node, state):
            s = set(state)
            if isinstance(node, ast.stmt):
                assigned = pyflow._assigned_names(node)
                if assigned:
                    for f in list(s):
                        if isinstance(f, tuple) and f[0] == 'C':
                            names = pyflow._names_in(ast.parse(f[1], mode='eval').body)
                            if any(a in names or any(x.startswith(a + '.') for x in names) for a in assigned):
                                s.discard(f)
            for c in pyflow.calls_in(node):
                if _is_event(c):
                    s.add('RET')
                elif _is_goto_return(c) and 'RET' not in s:
                    silent.append(frozenset((f[1], f[2]) for f in s if isinstance(f, tuple) and f[0] == 'C'))
            return frozenset(s)

        # refine only on the atomic tests produced by _split (the tests of relevant ifs)
        atomic_tests = {id(n.test) for n in ast.walk(fn2) if isinstance(n, ast.If) and getattr(n, '_atomic', False)}
        flow = pyflow.Flow(tr, refine=lambda test, truth, state: refine(test, truth, state) if id(test) in atomic_tests else state, correlate=False)
        try:
            flow.run(fn2)
        except pyflow.TooManyStates:
            raise AnalysisError('%s: too many paths for the return-event decision table' % fn.name)
        atoms = sorted(atoms)
        if len(atoms) > MAX_ATOMS:
            raise AnalysisError('%s: %d decision atoms guard the return event (limit %d)' % (fn.name, len(atoms), MAX_ATOMS))
        # the decision function over total assignments; prime implicants by increasing cube size
        def bad(assign):
            return any(all(assign[a] == t for a, t in p) for p in silent)
        primes = []
        for k in range(len(atoms) + 1):
            for names in itertools.combinations(atoms, k):
                for vals in itertools.product((True, False), repeat=k):
                    cube = dict(zip(names, vals))
                    if any(all(cube.get(a) == t for a, t in p) for p in primes):
                        continue
                    free = [a for a in atoms if a not in cube]
                    if all(bad(dict(cube, **dict(zip(free, fv)))) for fv in itertools.product((True, False), repeat=len(free))):
                        primes.append(frozenset(cube.items()))
        for p in primes:
            result.setdefault(p, set()).add(cname)
    return result


def _cube_text(cube):
    return ' & '.join(sorted((a if t else 'not (%s)' % a) for a, t in cube)) or 'always'


def rule_return_conditions(ctx):
    r = Rule('C45-RETCOND', 'each condition under which a return-statement node jumps to the return label without emitting the return event while tracing is enabled '
             '(prime implicants of the decision function over the non-tracing tests, for profile / linetrace / both)', floor=3)
    n = 0
    for m, qn, owner, fn in trace_sites(ctx):
        calls = [c for c in walk_no_nested(fn) if isinstance(c, ast.Call) and isinstance(c.func, ast.Attribute)]
        if any(c.func.attr == 'put_trace_start' for c in calls) or not any(_is_event(c) for c in calls) or not any(_is_goto_return(c) for c in calls):
            continue
        n += 1
        key = '%s.%s' % (m.short, qn)
        conds = silent_return_conditions(fn)
        for cname, _ in CONFIGS:
            r.inst('%s@%s' % (key, cname), sample='%s with %s enabled: silent-return conditions %s' % (
                key, cname, sorted(_cube_text(c) for c, cs in conds.items() if cname in cs) or 'none'))
        for cube, cfgs in sorted(conds.items(), key=lambda kv: _cube_text(kv[0])):
            suffix = '' if len(cfgs) == len(CONFIGS) else '@' + '+'.join(sorted(cfgs))
            r.violate('%s:no-event-when:%s' % (key, _cube_text(cube)), m.rel, fn.lineno,
                      '%s reaches the return label without put_trace_return when [%s]%s although tracing is enabled: the activation gets its start/resume event but no '
                      'return event, so the caller\'s events no longer nest (the default return event of the function body lies before the return label and is skipped '
                      'by the jump)' % (qn, _cube_text(cube), '' if not suffix else ' (configurations: %s)' % ', '.join(sorted(cfgs))))
    if n < 1:
        raise AnalysisError('no return-statement node emitting put_trace_return found')
    pc = ast.parse("def g(self, code):\n    v = self.value\n    if self.in_gen and v is None:\n        pass\n    elif not self.in_par and code.is_tracing():\n"
                   "        code.put_trace_return('r', self.pos)\n    code.put_goto(code.return_label)\n").body[0]
    got = {_cube_text(c) for c in silent_return_conditions(pc)}
    r.positive_control(got == {'self.in_par', 'self.in_gen & self.value is None'}, 'two independent suppressing conditions are told apart: %s' % sorted(got))
    return r


# ======================================================================================================================
#  fourth round
# ======================================================================================================================
#  C45-ARGS    every argument of an emitted trace macro call reaches a macro parameter of its own kind.  Kinds on the Python side:
#              result of pos_to_offset (instruction offset), pos[LINE] (line number), result of error_goto (error exit), a flag derived
#              from `nogil` / `gil_owned`.  Roles of the macro parameters are derived from USE in every configuration's definition:
#              the parameter tested by `if (nogil)`-style conditions, the one executed as the statement `goto_error;`, the one handed
#              to the offset slot of PyMonitoring_Fire*Event / to PyCode_NewEmpty's firstlineno (through the helper functions).
#  C45-NOGIL   every value bound to a `nogil` flag of the trace API is the NEGATION of a gil_owned value.
#  C45-WINDOW  line events stay inside [start event, return event]: __Pyx_TraceLine is emitted only under funcstate.can_trace and only
#              for markers recorded with trace=True; in every function that emits the start event no tracing marker / body code is
#              emitted while the window is open before the start event or after the final return event; the start event of a generator
#              body lies behind the resume dispatch.
#  C45-BRANCH  macros of Profile.c: the nogil branch and the GIL branch deliver the same calls; legacy macros deliver exactly when
#              __Pyx_use_tracing is set; the start event is delivered for skip_event == 0; both callbacks of a helper get the same event kind.
#  C45-COUNT   the sys.monitoring state arrays: events used by non-generator macros lie below CyFunc_count, every EnterScope passes the
#              count that belongs to its array.
import re

from ..engine import cguard, cexpr
from ..engine.cutil import strip_c_comments, match_paren, split_args
from ..engine.pyindex import is_self_attr
from .pC37 import Res, deref, emit_call
from .pC45 import GEN_MODULES, cond_active, CONFIG_VARS, IDX
from . import sC44

PHX = '\xa7'
GIL_CALL = re.compile(r'GILState|ThreadState_GET|^unlikely$|^likely$|^CYTHON_UNUSED_VAR$')      # acquiring the GIL / fetching the thread state differs between the branches by design
C_KEYWORDS = {'if', 'else', 'while', 'for', 'switch', 'return', 'sizeof', 'do', 'goto', 'int', 'defined'}


def profile_decls(ctx, kind=None):
    out = []
    for name, ds in ctx.cat.decls.items():
        for d in ds:
            if d.file == 'Profile.c' and (kind is None or d.kind == kind):
                out.append((name, d))
    return out


def c_callees(text):
    out = []
    for m in re.finditer(r'(\$?[A-Za-z_]\w*)\s*\(', text):
        if m.group(1) not in C_KEYWORDS:
            out.append((m.group(1), m.start()))
    return out


def _stmt_tokens(body):
    return [t.strip() for t in re.split(r'[;{}]', body)]


# ---------------------------------------------------------------------------------------------------------------- parameter roles by use
OFFSET_ARG_OF_FIRE = 2         # PyMonitoring_Fire<X>Event(state, codelike, offset, ...): CPython's C API (cpython/monitoring.h)


def direct_roles(pnames, body):
    """roles of the parameters of one macro / function body by use -> ({index: roles}, note(arg text, role), [(callee, [arg texts])])"""
    roles = {i: set() for i in range(len(pnames))}

    def note(arg, role):
        a = re.sub(r'^\(\s*[\w\s\*]+\)\s*', '', arg).strip()
        a = re.sub(r'^\*', '', a).strip()
        if a in pnames:
            roles[pnames.index(a)].add(role)
    # a parameter that alone decides an `if` is a flag; the flag that selects the GIL handling is recognised by what its branch does
    for m in re.finditer(r'\bif\s*\(', body):
        lp = m.end() - 1
        rp = match_paren(body, lp)
        if rp < 0:
            continue
        cond = body[lp + 1:rp]
        ids = set(re.findall(r'[A-Za-z_]\w*', cond)) - {'likely', 'unlikely'}
        rest = body[rp + 1:]
        mo = re.match(r'\s*\{', rest)
        branch = ''
        if mo:
            b1 = _match_brace(body, rp + 1 + mo.end() - 1)
            branch = body[rp + 1:b1] if b1 > 0 else ''
        for i, p in enumerate(pnames):
            if p in ids and len(ids & set(pnames)) == 1 and 'GILState_Ensure' in branch:
                roles[i].add('nogil')
    for tok in _stmt_tokens(body):
        t = re.sub(r'^(else\s+)+', '', tok).strip()
        mt = re.match(r'^if\s*\(', t)
        if mt:
            rp = match_paren(t, mt.end() - 1)
            t = t[rp + 1:].strip() if rp > 0 else t
        t = re.sub(r'^(else\s+)+', '', t).strip()
        if t in pnames:
            roles[pnames.index(t)].add('goto_error')
    calls = []
    for callee, off in c_callees(body):
        lp = body.index('(', off)
        rp = match_paren(body, lp)
        if rp < 0:
            continue
        args = [a.strip() for a in split_args(body[lp + 1:rp])]
        if re.fullmatch(r'PyMonitoring_Fire\w+Event', callee) and len(args) > OFFSET_ARG_OF_FIRE:
            note(args[OFFSET_ARG_OF_FIRE], 'offset')
            if len(args) > OFFSET_ARG_OF_FIRE + 1:
                # the 4th argument is the reported object for return / yield / stop-iteration events and the line number for the line event
                note(args[OFFSET_ARG_OF_FIRE + 1], 'line' if callee == 'PyMonitoring_FireLineEvent' else 'value')
        if callee == 'PyCode_NewEmpty' and len(args) == 3:
            note(args[0], 'srcfile')
            note(args[1], 'funcname')
            note(args[2], 'line')
        if callee == '__Pyx_PyFrame_SetLineNumber' and len(args) == 2:
            note(args[1], 'line')
        calls.append((callee, args))
    return roles, note, calls


def profile_param_roles(ctx):
    """{(name, decl id): {param index: set of roles}} for the macros and helper functions of Profile.c"""
    def build():
        decls = profile_decls(ctx)
        funcs = {}
        for name, d in decls:
            if d.kind in ('func', 'macro') and d.params:
                funcs.setdefault(name, []).append(d)
        memo = {}

        def pname(p):
            ids = re.findall(r'[A-Za-z_]\w*', p)
            return ids[-1] if ids else ''

        def roles_of(name, d, depth=0):
            key = (name, id(d))
            if key in memo:
                return memo[key]
            memo[key] = {}
            body = strip_c_comments(d.body or '')
            pnames = [pname(p) for p in d.params]
            roles, note, calls = direct_roles(pnames, body)
            for callee, args in calls:
                if callee in funcs and callee != name and depth < 4:
                    for d2 in funcs[callee]:
                        if d2.kind == 'macro' and not _compatible(d.conds, d2.conds):
                            continue
                        sub = roles_of(callee, d2, depth + 1)
                        for i, rs in sub.items():
                            if i < len(args):
                                for role in rs:
                                    note(args[i], role)
            memo[key] = roles
            return roles

        out = {}
        for name, ds in funcs.items():
            for d in ds:
                out[(name, id(d))] = (d, roles_of(name, d))
        return out, funcs
    return ctx.memo('sC45.param_roles', build)


def _compatible(c1, c2):
    """can two preprocessor condition chains hold together (over the three configuration variables)?"""
    import itertools
    for bits in itertools.product((0, 1), repeat=len(CONFIG_VARS)):
        env = dict(zip(CONFIG_VARS, bits))
        try:
            if cond_active(tuple(c for c in c1 if _cfg_only(c)), env) and cond_active(tuple(c for c in c2 if _cfg_only(c)), env):
                return True
        except AnalysisError:
            return True
    return False


def _cfg_only(chain):
    ids = set(re.findall(r'[A-Za-z_]\w*', chain)) - {'if', 'elif', 'else', 'defined'}
    return ids <= set(CONFIG_VARS)


def python_arg_kind(e, env, LINE_I, fn_params):
    """kind of a value the compiler puts into an emitted trace macro call"""
    e = deref(e, env)
    if isinstance(e, ast.Call) and isinstance(e.func, ast.Attribute) and e.func.attr == 'pos_to_offset':
        return 'offset'
    if isinstance(e, ast.Call) and isinstance(e.func, ast.Attribute) and e.func.attr == 'error_goto':
        return 'goto_error'
    if isinstance(e, ast.Subscript) and isinstance(e.slice, ast.Constant) and e.slice.value == LINE_I and 'pos' in node_src(e.value):
        return 'line'
    ids = {x.id for x in ast.walk(e) if isinstance(x, ast.Name)} | {x.attr for x in ast.walk(e) if isinstance(x, ast.Attribute)}
    if 'gil_owned' in ids or ('nogil' in ids and 'nogil' in fn_params):
        return 'nogil'
    return None


def _macro_calls_in(text, ph):
    """[(macro name, [arg text], [arg expr or None])] of the trace macro calls in an emitted text"""
    out = []
    for m in re.finditer(r'(__Pyx_Trace\w+|__Pyx_PyMonitoring_\w+)\s*\(', text):
        lp = m.end() - 1
        rp = match_paren(text, lp)
        if rp < 0:
            continue
        args = [a.strip() for a in split_args(text[lp + 1:rp])]
        k = text[:lp].count(PHX)
        exprs = []
        for a in args:
            if a == PHX:
                exprs.append(ph[k])
            else:
                exprs.append(None)
            k += a.count(PHX)
        out.append((m.group(1), args, exprs))
    return out


def trace_emissions(ctx):
    """[(class, method, node, macro name prefix text, arg texts, arg exprs, env, params)] for the CCodeWriter methods that emit trace macros"""
    ix = ctx.index
    ccw = ix.cls('Code', 'CCodeWriter')
    out = []
    for name, fn in ccw.methods.items():
        if not any(isinstance(k, ast.Constant) and isinstance(k.value, str) and '__Pyx_Trace' in k.value or
                   isinstance(k, ast.Constant) and isinstance(k.value, str) and '__Pyx_PyMonitoring_' in k.value for k in ast.walk(fn)):
            continue
        env = sC44._unpack_env(fn)
        params = [a.arg for a in fn.args.args] + [a.arg for a in fn.args.kwonlyargs]
        # a local bound to an IfExp / alternatives of macro names: expand the name placeholder
        for n, text, ph in sC44.emitted_texts(ctx, ccw, fn):
            texts = [(text, ph)]
            if text.startswith(PHX + '(') and ph:
                alts = _name_alternatives(ph[0], env)
                texts = [(a + text[1:], ph[1:]) for a in alts]
            for t, p in texts:
                for macro, args, exprs in _macro_calls_in(t, p):
                    out.append((ccw, fn, n, macro, args, exprs, env, params))
    return out


def _name_alternatives(e, env):
    e0 = e
    vals = []
    if isinstance(e, ast.Name):
        vals = env.get(e.id, [])
    else:
        vals = [e]
    out = []
    for v in vals:
        for x in ([v.body, v.orelse] if isinstance(v, ast.IfExp) else [v]):
            if isinstance(x, ast.Constant) and isinstance(x.value, str):
                out.append(x.value)
    return out


def rule_args(ctx):
    r = Rule('C45-ARGS', 'every argument of an emitted trace macro call (instruction offset, line number, nogil flag, error exit) sits in a macro parameter that the definition - in '
             'every configuration, helper functions followed - uses for that purpose', floor=20)
    FILE_I, LINE_I = sC44.scanner_pos_indices(ctx)
    roles, funcs = profile_param_roles(ctx)
    ems = trace_emissions(ctx)
    if len(ems) < 8:
        raise AnalysisError('only %d trace macro emissions found in CCodeWriter' % len(ems))
    pcr = direct_roles(['result', 'offset', 'nogil', 'goto_error'],
                       'if (!on); else { int ret = 0; if (nogil) { s = PyGILState_Ensure(); ret = PyMonitoring_FirePyReturnEvent(&st[1], code, offset, result); PyGILState_Release(s); } '
                       'else { ret = PyMonitoring_FirePyReturnEvent(&st[1], code, offset, result); } if (unlikely(ret == -1)) goto_error; }')[0]
    pck = python_arg_kind(ast.parse('bool(nogil)').body[0].value, {}, LINE_I, ['self', 'nogil'])
    r.positive_control(pcr == {0: {'value'}, 1: {'offset'}, 2: {'nogil'}, 3: {'goto_error'}} and pck == 'nogil' and pck not in pcr[1], 'nogil flag in the offset slot of a return macro')
    seen = set()
    for ccw, fn, n, macro, args, exprs, env, params in ems:
        defs = []
        todo = [macro]
        for nm in todo:
            for d in ctx.cat.decls.get(nm, []):
                if d.file != 'Profile.c' or d.kind != 'macro':
                    continue
                if d.params is None:
                    tgt = (d.body or '').strip()
                    if re.fullmatch(r'[A-Za-z_]\w*', tgt) and tgt not in todo:
                        todo.append(tgt)
                else:
                    defs.append((nm, d))
        for i, e in enumerate(exprs):
            if e is None:
                continue
            kind = python_arg_kind(e, env, LINE_I, params)
            if kind is None:
                continue
            key = 'Code.CCodeWriter.%s:%s:arg%d:%s' % (fn.name, macro, i, kind)
            if key in seen:
                continue
            seen.add(key)
            verdicts = []
            for nm, d in defs:
                j = i
                if len(d.params) != len(args):
                    # an argument made of several placeholders (e.g. value + optional converter) expands to an unknown number of macro arguments:
                    # arguments behind it are aligned from the right, those in front from the left
                    multi = [k for k, a in enumerate(args) if a.count(PHX) > 1]
                    if not multi:
                        continue            # arity is C45-M2's business
                    if i > multi[-1]:
                        j = i + len(d.params) - len(args)
                    elif i >= multi[0]:
                        continue
                if not 0 <= j < len(d.params):
                    continue
                rs = roles.get((nm, id(d)), (d, {}))[1].get(j, set())
                known = {x for x in rs if x in ('offset', 'line', 'nogil', 'goto_error', 'srcfile', 'funcname', 'value')}
                verdicts.append((d, known, j))
            r.inst(key, sample='%s passes a %s value as argument %d of %s; parameter roles by configuration: %s' % (fn.name, kind, i, macro, [sorted(k) for _, k, _ in verdicts]))
            for d, known, j in verdicts:
                if known and kind not in known:
                    cfg = d.conds[-1] if d.conds else ''
                    r.violate(key, 'Cython/Compiler/Code.py', n.lineno,
                              'CCodeWriter.%s puts %s (a %s value) into argument %d of %s, but the definition of the macro (Profile.c:%d, `%s`) uses its parameter `%s` as the %s: '
                              'the %s' % (fn.name, node_src(e, 50), {'offset': 'instruction offset', 'line': 'line number', 'nogil': 'nogil flag', 'goto_error': 'error exit'}[kind],
                                          i, macro, d.line, cfg.strip(), d.params[j].strip(), '/'.join(sorted(known)),
                                          {'nogil': 'instruction offset decides whether the GIL is taken and events of GIL-holding functions are dropped', 'offset': 'event carries the flag as its location', 'value': 'event reports a small integer as the returned / yielded object (invalid pointer)',
                                           'line': 'frame/code object gets the offset as its line number', 'goto_error': 'C code does not compile'}.get(sorted(known)[0], 'event is reported with wrong data')))
                    break
    return r


# ---------------------------------------------------------------------------------------------------------------- NOGIL polarity
def _gil_polarity(e, env, depth=0):
    """number of negations above each `gil_owned` reference in e -> set of parities (0 = plain, 1 = negated); locals followed"""
    out = set()

    def rec(x, neg, d):
        if d > 6:
            return
        if isinstance(x, ast.UnaryOp) and isinstance(x.op, ast.Not):
            rec(x.operand, neg ^ 1, d)
        elif isinstance(x, ast.Name) and len(env.get(x.id, ())) == 1:
            rec(env[x.id][0], neg, d + 1)
        elif isinstance(x, ast.Attribute) and x.attr == 'gil_owned':
            out.add(neg)
        elif isinstance(x, ast.Subscript) and isinstance(x.value, ast.Name) and 'gil_owned' in x.value.id:
            out.add(neg)
        elif isinstance(x, ast.Call) and isinstance(x.func, ast.Name) and x.func.id in ('bool', 'int') and len(x.args) == 1:
            rec(x.args[0], neg, d)
        elif isinstance(x, ast.BoolOp):
            for v in x.values:
                rec(v, neg, d)
        elif isinstance(x, ast.Compare) and len(x.ops) == 1 and isinstance(x.ops[0], (ast.Is, ast.Eq, ast.IsNot, ast.NotEq)) and isinstance(x.comparators[0], ast.Constant) \
                and isinstance(x.comparators[0].value, bool):
            flip = (not x.comparators[0].value) ^ isinstance(x.ops[0], (ast.IsNot, ast.NotEq))
            rec(x.left, neg ^ int(flip), d)
    rec(e, 0, depth)
    return out


def rule_nogil(ctx):
    r = Rule('C45-NOGIL', 'every nogil flag handed to the trace API (keyword nogil= of put_trace_*, the flag written into __Pyx_TraceLine) that is computed from a gil_owned value is '
             'its negation', floor=5)
    ix = ctx.index
    n = 0
    from .pC45 import trace_sites
    sites = []
    for m, qn, owner, fn in trace_sites(ctx):
        env = sC44._unpack_env(fn)
        for c in walk_no_nested(fn):
            if isinstance(c, ast.Call) and isinstance(c.func, ast.Attribute) and c.func.attr.startswith('put_trace_'):
                for k in c.keywords:
                    if k.arg == 'nogil':
                        sites.append((m.rel, '%s.%s' % (m.short, qn), c.func.attr, k.value, env, c.lineno))
    for ccw, fn, node, macro, args, exprs, env, params in trace_emissions(ctx):
        for i, e in enumerate(exprs):
            if e is not None and 'gil_owned' in node_src(deref(e, env), 200):
                sites.append(('Cython/Compiler/Code.py', 'Code.CCodeWriter.%s' % fn.name, macro, e, env, node.lineno))
    counts = {}
    for rel, where, what, e, env, line in sites:
        pol = _gil_polarity(e, env)
        if not pol:
            continue
        k = counts[(where, what)] = counts.get((where, what), 0) + 1
        key = '%s:%s%s:nogil-polarity' % (where, what, '' if k == 1 else '#%d' % k)
        r.inst(key, sample='%s: nogil = %s' % (where, node_src(e, 60)))
        if pol != {1}:
            r.violate(key, rel, line,
                      '%s passes `%s` as the nogil flag of %s: the flag must be the negation of gil_owned.  With the polarity flipped the macro takes the GIL (and, unless '
                      'CYTHON_TRACE_NOGIL is set, drops the event) in functions that hold it, and calls the profiler without the GIL in nogil functions' % (where, node_src(e, 60), what))
    pc = ast.parse('f(nogil=code.funcstate.gil_owned)').body[0].value.keywords[0].value
    r.positive_control(_gil_polarity(pc, {}) == {0} and _gil_polarity(ast.parse('not (x.gil_owned is True)').body[0].value, {}) == {1}, 'un-negated gil_owned')
    return r


# ---------------------------------------------------------------------------------------------------------------- WINDOW
def _literals(test, positive=True, env=None, depth=0):
    """facts known when `test` evaluated to `positive`: set of (source text, truth) for the atoms that are forced"""
    env = env or {}
    if isinstance(test, ast.UnaryOp) and isinstance(test.op, ast.Not):
        return _literals(test.operand, not positive, env, depth)
    if isinstance(test, ast.BoolOp):
        if isinstance(test.op, ast.And) == positive:
            out = set()
            for v in test.values:
                out |= _literals(v, positive, env, depth)
            return out
        return set()
    if isinstance(test, ast.Name) and len(env.get(test.id, ())) == 1 and depth < 4:
        return _literals(env[test.id][0], positive, env, depth + 1) | {(test.id, positive)}
    return {(node_src(test, 120), positive)}


def _always_leaves(stmts):
    return bool(stmts) and isinstance(stmts[-1], (ast.Return, ast.Raise, ast.Continue, ast.Break))


def dominating_facts(fn, target, env=None):
    """atoms known to hold whenever control reaches the statement containing `target` (if-nesting and early exits), or None when not found"""
    def rec(stmts, facts):
        facts = set(facts)
        for s in stmts:
            if any(x is target for x in ast.walk(s)):
                if isinstance(s, ast.If):
                    if any(x is target for b in s.body for x in ast.walk(b)):
                        return rec(s.body, facts | _literals(s.test, True, env))
                    if any(x is target for b in s.orelse for x in ast.walk(b)):
                        return rec(s.orelse, facts | _literals(s.test, False, env))
                    return facts
                for fld in ('body', 'orelse', 'finalbody'):
                    sub = getattr(s, fld, None)
                    if isinstance(sub, list) and any(x is target for b in sub if isinstance(b, ast.AST) for x in ast.walk(b)):
                        return rec(sub, facts)
                return facts
            if isinstance(s, ast.If):
                if _always_leaves(s.body) and not s.orelse:
                    facts |= _literals(s.test, False, env)
                elif s.orelse and _always_leaves(s.orelse) and not _always_leaves(s.body):
                    facts |= _literals(s.test, True, env)
        return None
    return rec(fn.body, set())


def window_flow(fn, q):
    """typestate of the line-trace window along every path of a function that emits the start event -> (problems, dispatch writers)"""
    starts = [c for c in walk_no_nested(fn) if isinstance(c, ast.Call) and isinstance(c.func, ast.Attribute) and c.func.attr == 'put_trace_start']
    env = sC44._unpack_env(fn)
    dispatch_writers = set()
    for a in walk_no_nested(fn):
        if isinstance(a, ast.Assign) and isinstance(a.value, ast.Call) and isinstance(a.value.func, ast.Attribute) and a.value.func.attr == 'insertion_point' \
                and isinstance(a.targets[0], ast.Name):
            w = a.targets[0].id
            if any(isinstance(c, ast.Call) and isinstance(c.func, ast.Attribute) and isinstance(c.func.value, ast.Name) and c.func.value.id == w and c.func.attr == 'putln'
                   and c.args and isinstance(c.args[0], (ast.Constant, ast.BinOp, ast.JoinedStr)) and 'switch' in node_src(c.args[0]) for c in walk_no_nested(fn)):
                dispatch_writers.add(w)
    main_writer = None
    for c in starts:
        if isinstance(c.func.value, ast.Name) and c.func.value.id not in dispatch_writers:
            main_writer = c.func.value.id
    problems = {}

    def is_writer(c, name):
        return isinstance(c.func, ast.Attribute) and isinstance(c.func.value, ast.Name) and c.func.value.id == name

    def tr(node, state):
        s = set(state)
        for c in pyflow.calls_in(node):
            if not isinstance(c.func, ast.Attribute):
                continue
            a = c.func.attr
            if a == 'insertion_point' and isinstance(node, ast.Assign) and isinstance(node.targets[0], ast.Name) and node.targets[0].id in dispatch_writers:
                s.add('DISPATCH')
            if a == 'put_trace_start' and main_writer and is_writer(c, main_writer):
                s.add('STARTED')
                if dispatch_writers and 'DISPATCH' not in s:
                    problems.setdefault('start-before-resume-dispatch', (c.lineno,
                        '%s emits the start event before it takes the insertion point of the resume `switch`: the code in front of the dispatch runs on EVERY resume of the '
                        'generator, so each resume reports a start event in addition to its resume event' % q))
            if a in ('put_trace_return', 'put_trace_exit') and main_writer and is_writer(c, main_writer):
                s.add('RETURNED')
            marker = a == 'mark_pos' and c.args and not (isinstance(c.args[0], ast.Constant) and c.args[0].value is None) and \
                not any(k.arg == 'trace' and isinstance(k.value, ast.Constant) and k.value.value is False for k in c.keywords) and \
                not (len(c.args) > 1 and isinstance(c.args[1], ast.Constant) and c.args[1].value is False)
            body = a in ('generate_function_body', 'generate_execution_code') and 'body' in node_src(c.func, 80) + a
            if (marker or body) and 'OPEN' in s:
                what = 'generates the function body' if body else 'sets a tracing marker (%s)' % node_src(c, 50)
                if 'STARTED' not in s:
                    problems.setdefault('line-event-before-start', (c.lineno, '%s %s while funcstate.can_trace is already set but the start event has not been emitted: '
                                                                    'the tracer receives a line event for an activation it has not seen a call event for' % (q, what)))
                if 'RETURNED' in s:
                    problems.setdefault('line-event-after-return', (c.lineno, '%s %s after the final return event while funcstate.can_trace is still set: the tracer receives a '
                                                                    'line event of an activation that has already returned' % (q, what)))
        if isinstance(node, ast.Assign) and any(isinstance(t, ast.Attribute) and t.attr == 'can_trace' for t in node.targets) and isinstance(node.value, ast.Constant):
            s.discard('OPEN')
            if node.value.value:
                s.add('OPEN')
        return frozenset(s)
    pyflow.Flow(tr, correlate=True).run(fn)
    return problems, dispatch_writers


def rule_window(ctx):
    r = Rule('C45-WINDOW', 'line events stay inside the activation: __Pyx_TraceLine is emitted only under funcstate.can_trace and only for markers recorded with their trace flag; '
             'in every function that emits the start event no body code or tracing marker is emitted while the window is open before the start event or after the final return '
             'event, and the start event of a generator body is emitted behind the resume dispatch', floor=8)
    ix = ctx.index
    ccw = ix.cls('Code', 'CCodeWriter')
    rel = 'Cython/Compiler/Code.py'
    # (a) the emitter of __Pyx_TraceLine
    emitters = [(nm, fn) for nm, fn in ccw.methods.items() if any(isinstance(k, ast.Constant) and isinstance(k.value, str) and '__Pyx_TraceLine(' in k.value for k in ast.walk(fn))]
    if not emitters:
        raise AnalysisError('CCodeWriter: the method that emits __Pyx_TraceLine was not found')
    for nm, fn in emitters:
        env = sC44._unpack_env(fn)
        for n in walk_no_nested(fn):
            if isinstance(n, ast.Constant) and isinstance(n.value, str) and '__Pyx_TraceLine(' in n.value:
                facts = dominating_facts(fn, n, env) or set()
                key = 'Code.CCodeWriter.%s:TraceLine:can_trace' % nm
                r.inst(key, sample='%s emits __Pyx_TraceLine under %s' % (nm, sorted(f for f, t in facts if t)))
                if not any(t and f.endswith('can_trace') for f, t in facts):
                    r.violate(key, rel, n.lineno,
                              'CCodeWriter.%s emits __Pyx_TraceLine without testing funcstate.can_trace: line events are produced before the start event and after the return event '
                              'of an activation (argument parsing, exit code), i.e. outside the call/return pair the profiler sees' % nm)
    # (b) the marker's trace flag
    tl_names = {nm for nm, _ in emitters}
    for nm, fn in ccw.methods.items():
        calls = [c for c in walk_no_nested(fn) if isinstance(c, ast.Call) and is_self_attr(c.func) and c.func.attr in tl_names]
        if not calls or nm in tl_names:
            continue
        env = sC44._unpack_env(fn)
        flag = None
        for a in walk_no_nested(fn):
            if isinstance(a, ast.Assign) and isinstance(a.targets[0], ast.Tuple) and len(a.targets[0].elts) == 2 and is_self_attr(a.value) and isinstance(a.targets[0].elts[1], ast.Name):
                flag, store_attr = a.targets[0].elts[1].id, a.value.attr
        key = 'Code.CCodeWriter.%s:trace-flag' % nm
        for c in calls:
            facts = dominating_facts(fn, c, env) or set()
            r.inst(key, sample='%s calls %s under %s' % (nm, c.func.attr, sorted(f for f, t in facts if t)))
            if flag is None or (flag, True) not in facts:
                r.violate(key, rel, c.lineno,
                          'CCodeWriter.%s emits the line event of a marker without testing the trace flag recorded with it by mark_pos(pos, trace): markers set with trace=False '
                          '(function exit code, the `break` of a switch, except-clause bookkeeping) produce line events, e.g. a second event for the `def` line after the body ran' % nm)
        # the flag stored by mark_pos is its own parameter
        if flag is not None:
            for nm2, fn2 in ccw.methods.items():
                for a in walk_no_nested(fn2):
                    if isinstance(a, ast.Assign) and any(is_self_attr(t) and t.attr == store_attr for t in a.targets) and isinstance(a.value, ast.Tuple) and len(a.value.elts) == 2:
                        k2 = 'Code.CCodeWriter.%s:stores-trace-flag' % nm2
                        p2 = [x.arg for x in fn2.args.args]
                        r.inst(k2, sample='%s stores %s' % (nm2, node_src(a.value)))
                        if not (isinstance(a.value.elts[1], ast.Name) and a.value.elts[1].id in p2):
                            r.violate(k2, rel, a.lineno, 'CCodeWriter.%s records %s as the trace flag of the marker instead of its own parameter' % (nm2, node_src(a.value.elts[1])))
    # (c) the window in the functions that emit the start event
    from .pC45 import trace_sites
    nfun = 0
    for m, qn, owner, fn in trace_sites(ctx):
        starts = [c for c in walk_no_nested(fn) if isinstance(c, ast.Call) and isinstance(c.func, ast.Attribute) and c.func.attr == 'put_trace_start']
        if not starts:
            continue
        nfun += 1
        q = '%s.%s' % (m.short, qn)
        problems, dispatch_writers = window_flow(fn, q)
        for k in ('line-event-before-start', 'line-event-after-return') + (('start-before-resume-dispatch',) if dispatch_writers else ()):
            r.inst('%s:%s' % (q, k), sample='%s: %s' % (q, k))
        for k, (line, msg) in sorted(problems.items()):
            r.violate('%s:%s' % (q, k), m.rel, line, msg)
    if nfun < 3:
        raise AnalysisError('only %d functions emitting put_trace_start found' % nfun)
    pc = ast.parse("def gen(self, env, code):\n    tracing = code.is_tracing()\n    if tracing:\n        code.funcstate.can_trace = True\n        code.put_trace_start(n, self.pos)\n"
                   "    self.generate_function_body(env, code)\n    if tracing:\n        code.put_trace_return('Py_None', pos=self.pos)\n    code.mark_pos(self.pos)\n    code.putln('')\n").body[0]
    p2, _ = window_flow(pc, 'pc')
    r.positive_control(sorted(p2) == ['line-event-after-return'], 'tracing marker after the return event while can_trace is still set')
    return r


# ---------------------------------------------------------------------------------------------------------------- BRANCH
def _branches_of_nogil(body):
    """[(then text, else text)] for every `if (<cond mentioning only nogil/config>) {...} else {...}` of a macro/function body whose condition mentions nogil"""
    out = []
    for m in re.finditer(r'\bif\s*\(', body):
        lp = m.end() - 1
        rp = match_paren(body, lp)
        if rp < 0:
            continue
        cond = body[lp + 1:rp]
        if not re.search(r'\bnogil\b', cond):
            continue
        rest = body[rp + 1:]
        mo = re.match(r'\s*\{', rest)
        if not mo:
            continue
        b0 = rp + 1 + mo.end() - 1
        b1 = _match_brace(body, b0)
        if b1 < 0:
            continue
        me = re.match(r'\s*else\s*\{', body[b1 + 1:])
        if not me:
            out.append((cond, body[b0 + 1:b1], None))
            continue
        e0 = b1 + 1 + me.end() - 1
        e1 = _match_brace(body, e0)
        out.append((cond, body[b0 + 1:b1], body[e0 + 1:e1] if e1 > 0 else None))
    return out


def _match_brace(s, i):
    depth = 0
    for j in range(i, len(s)):
        if s[j] == '{':
            depth += 1
        elif s[j] == '}':
            depth -= 1
            if depth == 0:
                return j
    return -1


def _tri(ast_, env):
    """three-valued evaluation of a parsed C condition: True / False / None"""
    k = ast_[0]
    if k == 'num':
        return bool(ast_[1])
    if k == 'id':
        return None if ast_[1] not in env else bool(env[ast_[1]])
    if k == 'un' and ast_[1] == '!':
        v = _tri(ast_[2], env)
        return None if v is None else not v
    if k == 'bin' and ast_[1] in ('&&', '||'):
        a, b = _tri(ast_[2], env), _tri(ast_[3], env)
        if ast_[1] == '&&':
            return False if a is False or b is False else (True if a and b else None)
        return True if a is True or b is True else (False if a is False and b is False else None)
    if k == 'bin' and ast_[1] in ('==', '!=') and ast_[2][0] == 'id' and ast_[3][0] == 'num' and ast_[2][1] in env:
        v = env[ast_[2][1]] == ast_[3][1]
        return v if ast_[1] == '==' else not v
    if k == 'call' and ast_[1] in ('likely', 'unlikely') and len(ast_[2]) == 1:
        return _tri(ast_[2][0], env)
    return None


def reach(body, pos, env):
    """is offset pos of a C body reachable under the partial assignment env?  False = provably not; True/None = possibly"""
    res = True
    for cond, pol in cguard.guards(body, pos):
        try:
            v = _tri(cexpr.parse(cond), env)
        except Exception:
            v = None
        if v is None:
            res = None if res is not False else res
            continue
        if v != pol:
            return False
    # conditional expression: `c ? a : b` in the statement that contains pos
    start = max(body.rfind(';', 0, pos), body.rfind('{', 0, pos), body.rfind('}', 0, pos)) + 1
    end = body.find(';', pos)
    stmt = body[start:end if end >= 0 else len(body)]
    q = stmt.find('?')
    if q >= 0:
        depth, colon = 0, -1
        for j in range(q + 1, len(stmt)):
            if stmt[j] in '([':
                depth += 1
            elif stmt[j] in ')]':
                depth -= 1
            elif stmt[j] == ':' and depth == 0:
                colon = j
                break
        if colon > 0:
            cond = re.sub(r'^\s*(return|[\w\.\->\[\]\*]+\s*=)\s*', '', stmt[:q])
            try:
                v = _tri(cexpr.parse(cond), env)
            except Exception:
                v = None
            rel = pos - start
            if v is not None:
                if q < rel < colon and not v:
                    return False
                if rel > colon and v:
                    return False
    return res


DELIVER = re.compile(r'^(PyMonitoring_Fire\w+Event|__Pyx_call_return_trace_func|__Pyx_call_line_trace_func|__Pyx__Trace\w+|__Pyx_TraceSetupAndCall)$')


def rule_branch(ctx):
    r = Rule('C45-BRANCH', 'Profile.c: in every trace macro the nogil branch and the GIL branch make the same calls apart from acquiring the GIL; the legacy macros deliver their event '
             'exactly when __Pyx_use_tracing is set; the start event is delivered when the skip flag is 0 (what the compiler emits for every function that is not a cpdef '
             'dispatch); the trace and the profile callback of one helper receive the same event kind', floor=20)
    rel = 'Cython/Utility/Profile.c'
    decls = profile_decls(ctx)
    nb = 0
    for name, d in sorted(decls, key=lambda x: (x[0], x[1].line)):
        if d.kind not in ('macro', 'func') or not d.body:
            continue
        body = strip_c_comments(d.body)
        cfg = (d.conds[-1].split(';')[-1].strip() or 'else') if d.conds else 'default'
        # (1) branch symmetry
        for cond, then, other in _branches_of_nogil(body):
            if other is None:
                continue
            nb += 1
            t = {c for c, _ in c_callees(then) if not GIL_CALL.search(c)}
            e = {c for c, _ in c_callees(other) if not GIL_CALL.search(c)}
            key = 'Profile.%s:%s:nogil-branches' % (name, cfg)
            r.inst(key, sample='%s [%s]: nogil branch calls %s, GIL branch calls %s' % (name, cfg, sorted(t), sorted(e)))
            if t != e:
                r.violate(key, rel, d.line,
                          '%s (`%s`): the branch for `%s` calls %s but the other branch calls %s: %s event is delivered for functions %s' % (
                              name, cfg, cond.strip(), sorted(t) or 'nothing', sorted(e) or 'nothing',
                              'no' if not (t and e) else 'a different', 'that hold the GIL' if not e or (t - e) else 'without the GIL'))
        # (2) legacy guard polarity
        if '__Pyx_use_tracing' in body and d.kind == 'macro':
            for callee, off in c_callees(body):
                if not DELIVER.match(callee):
                    continue
                g = [c for c, _ in cguard.guards(body, off)]
                if not any('__Pyx_use_tracing' in c for c in g):
                    continue
                on, off_ = reach(body, off, {'__Pyx_use_tracing': 1}), reach(body, off, {'__Pyx_use_tracing': 0})
                key = 'Profile.%s:%s:use_tracing-guard' % (name, cfg)
                r.inst(key, sample='%s: %s reachable with __Pyx_use_tracing=1: %s, =0: %s' % (name, callee, on, off_))
                if on is False or off_ is not False:
                    r.violate(key, rel, d.line,
                              '%s (`%s`) reaches %s %s: the event is %s' % (
                                  name, cfg, callee, 'only when __Pyx_use_tracing is 0' if on is False else 'also when __Pyx_use_tracing is 0',
                                  'never delivered to an installed profiler' if on is False else 'delivered through a frame that was never set up'))
                break
        # (3) skip flag: the literal 0 the compiler emits must deliver the start event
        if d.kind == 'func' or d.kind == 'macro':
            pn = [re.findall(r'[A-Za-z_]\w*', p)[-1] if re.findall(r'[A-Za-z_]\w*', p) else '' for p in (d.params or [])]
            skip = [p for p in pn if p in SKIP_PARAMS(ctx)]
            if d.kind == 'func' and skip:
                for callee, off in c_callees(body):
                    is_start = re.fullmatch(r'PyMonitoring_FirePyStartEvent', callee) or (callee in ('c_profilefunc', 'c_tracefunc') and 'PyTrace_CALL' in body[off:body.find(';', off)])
                    if not (is_start or re.search(r'->c_(profile|trace)func$', body[max(0, off - 20):off + len(callee)]) and 'PyTrace_CALL' in body[off:body.find(';', off)]):
                        continue
                    v0, v1 = reach(body, off, {skip[0]: 0}), reach(body, off, {skip[0]: 1})
                    key = 'Profile.%s:%s:skip-flag' % (name, cfg)
                    r.inst(key, sample='%s: start event reachable with %s=0: %s, =1: %s' % (name, skip[0], v0, v1))
                    if v0 is False:
                        r.violate(key, rel, d.line,
                                  '%s delivers the start event only when `%s` is non-zero; the compiler passes the literal 0 for every function that is not a cpdef dispatch: '
                                  'ordinary calls get no start event (and a later return event has no matching call)' % (name, skip[0]))
                    break
    # (4) one event kind per helper function (all function definitions of the file, also those nested in the macro block)
    nk = 0
    for sname, types in (ctx.cat.files.get('Profile.c') or {}).items():
        for tname, sec in types.items():
            text = strip_c_comments(sec.text)
            for m in re.finditer(r'\bstatic\s+[\w\s\*]+?\b(\w+)\s*\(([^;{}()]*(?:\([^()]*\))?[^;{}()]*)\)\s*\{', text):
                b0 = m.end() - 1
                b1 = _match_brace(text, b0)
                if b1 < 0:
                    continue
                fbody = text[b0:b1]
                kinds = re.findall(r'c_(?:trace|profile)func\s*\([^;]*?(PyTrace_[A-Z_]+)', fbody)
                if not kinds:
                    continue
                nk += 1
                key = 'Profile.%s:event-kind' % m.group(1)
                r.inst(key, sample='%s reports %s' % (m.group(1), kinds))
                if len(set(kinds)) > 1:
                    r.violate(key, rel, sec.line + text[:m.start()].count('\n'),
                              '%s reports %s to the trace function and the profile function for the same event: one of the two tools sees a different event (a return '
                              'reported as a call opens a frame that is never closed)' % (m.group(1), ' and '.join(sorted(set(kinds)))))
    if nk < 2:
        raise AnalysisError('only %d helper functions calling c_tracefunc / c_profilefunc found in Profile.c' % nk)
    if nb < 8:
        raise AnalysisError('only %d nogil/GIL branch pairs found in the trace macros of Profile.c' % nb)
    pcb = 'if (nogil) { if (CYTHON_TRACE_NOGIL) { s = PyGILState_Ensure(); fire(a); PyGILState_Release(s); } } else { }'
    b = _branches_of_nogil(pcb)
    r.positive_control(len(b) == 1 and {c for c, _ in c_callees(b[0][1]) if not GIL_CALL.search(c)} == {'fire'} and not c_callees(b[0][2]) and
                       reach('if (likely(__Pyx_use_tracing)); else { f(x); }', 40, {'__Pyx_use_tracing': 1}) is False, 'GIL branch that delivers nothing / inverted guard')
    return r


def SKIP_PARAMS(ctx):
    """names of the C parameters that receive the `skip` argument the compiler emits as the literal "0" / the dispatch flag in put_trace_start"""
    def build():
        out = set()
        for ccw, fn, n, macro, args, exprs, env, params in trace_emissions(ctx):
            if fn.name != 'put_trace_start':
                continue
            for i, e in enumerate(exprs):
                if isinstance(e, ast.IfExp) and any(isinstance(x, ast.Constant) and x.value == '0' for x in (e.body, e.orelse)):
                    roles, funcs = profile_param_roles(ctx)
                    for nm in (macro,):
                        for d in ctx.cat.decls.get(nm, []):
                            if d.kind == 'macro' and d.params and i < len(d.params):
                                out.add(d.params[i].strip())
        return out or {'skip_event'}
    return ctx.memo('sC45.skip', build)


# ---------------------------------------------------------------------------------------------------------------- COUNT
def rule_count(ctx):
    r = Rule('C45-COUNT', 'sys.monitoring state arrays: every event index used by a macro/helper that plain functions execute lies below __Pyx_MonitoringEventTypes_CyFunc_count, '
             'the generator count covers the whole table, the state array of a plain function is declared with the function count, and every PyMonitoring_EnterScope passes the '
             'count of the array it fills (generator helpers the generator count)', floor=8)
    rel = 'Cython/Utility/Profile.c'
    secs = ctx.cat.files.get('Profile.c')
    cfg = secs.get('Profile_config', {}).get('proto') if secs else None
    if cfg is None:
        raise AnalysisError('Profile.c::Profile_config.proto vanished')
    text = strip_c_comments(cfg.text)
    m = re.search(r'typedef\s+enum\s*\{([^}]*)\}\s*__Pyx_Monitoring_Event_Index', text)
    t = re.search(r'__Pyx_MonitoringEventTypes\s*\[\s*\]\s*=\s*\{([^}]*)\}', text)
    if not m or not t:
        raise AnalysisError('Profile_config: event index enum / event type table not found')
    enum = [IDX.match(x.strip().split('=')[0].strip()).group(1) for x in m.group(1).split(',') if x.strip()]
    n_table = len([x for x in t.group(1).split(',') if x.strip()])
    counts = {}
    for nm in ('CyFunc', 'CyGen'):
        mm = re.search(r'#define\s+__Pyx_MonitoringEventTypes_%s_count\s+(.+)' % nm, text)
        if not mm:
            raise AnalysisError('__Pyx_MonitoringEventTypes_%s_count not defined' % nm)
        expr = mm.group(1).strip()
        expr = re.sub(r'sizeof\s*\(\s*__Pyx_MonitoringEventTypes\s*\)', str(n_table), expr)
        try:
            counts[nm] = cexpr.evaluate(cexpr.parse(expr), {})
        except Exception as e:
            raise AnalysisError('cannot evaluate __Pyx_MonitoringEventTypes_%s_count = %s (%s)' % (nm, mm.group(1), e))
    r.inst('count:CyGen', sample='CyGen_count = %d, table has %d entries' % (counts['CyGen'], n_table))
    r.positive_control(cexpr.evaluate(cexpr.parse('(10 - 4)'), {}) == 6 and enum.index(enum[-1]) >= 6, 'count expression evaluation (a count of 6 leaves the last events outside the array)')
    if counts['CyGen'] != n_table:
        r.violate('Profile.__Pyx_MonitoringEventTypes_CyGen_count', rel, cfg.line, 'the generator event count is %d but the event table has %d entries' % (counts['CyGen'], n_table))
    # which macros are generator-only: those the compiler emits only from the yield/resume API and the generator arm of put_trace_start
    gen_only, func_level = set(), set()
    for ccw, fn, n, macro, args, exprs, env, params in trace_emissions(ctx):
        if fn.name in ('put_trace_yield', 'put_trace_resume') or macro.endswith('Gen'):
            gen_only.add(macro)
        else:
            func_level.add(macro)
    gen_only -= func_level
    if not gen_only or not func_level:
        raise AnalysisError('could not separate generator-only trace macros from function-level ones')
    roles, funcs = profile_param_roles(ctx)

    def closure(names):
        seen, todo = set(), list(names)
        while todo:
            nm = todo.pop()
            if nm in seen:
                continue
            seen.add(nm)
            for d in ctx.cat.decls.get(nm, []):
                if d.file != 'Profile.c' or not d.body:
                    continue
                if not any('CYTHON_USE_SYS_MONITORING' in c and not c.strip().endswith('else') for c in d.conds) and d.kind == 'macro':
                    continue
                for callee, _ in c_callees(strip_c_comments(d.body)):
                    if callee in funcs:
                        todo.append(callee)
                tgt = (d.body or '').strip()
                if d.params is None and re.fullmatch(r'[A-Za-z_]\w*', tgt):
                    todo.append(tgt)
        return seen

    def used_indices(names):
        out = {}
        for nm in names:
            for d in ctx.cat.decls.get(nm, []):
                if d.file != 'Profile.c' or not d.body:
                    continue
                if d.kind == 'macro' and not any('CYTHON_USE_SYS_MONITORING' in c and not c.strip().endswith('else') for c in d.conds):
                    continue
                for ev in IDX.findall(strip_c_comments(d.body)):
                    if ev in enum:
                        out.setdefault(ev, nm)
        return out
    f_clo, g_clo = closure(func_level), closure(gen_only)
    f_used = used_indices(f_clo)
    for ev, nm in sorted(f_used.items()):
        i = enum.index(ev)
        key = 'Profile.CyFunc_count:covers:%s' % ev
        r.inst(key, sample='%s (index %d) is used by %s; CyFunc_count = %d' % (ev, i, nm, counts['CyFunc']))
        if i >= counts['CyFunc']:
            r.violate(key, rel, cfg.line,
                      'the event %s has index %d and is used by %s, which plain functions execute, but their state array has only __Pyx_MonitoringEventTypes_CyFunc_count = %d '
                      'slots: the macro reads a monitoring state outside the array and the event is never entered' % (ev, i, nm, counts['CyFunc']))
    # declared array of plain functions
    for d in ctx.cat.decls.get('__Pyx_TraceDeclarationsFunc', []):
        if d.file == 'Profile.c' and d.body and 'PyMonitoringState' in d.body:
            mm = re.search(r'PyMonitoringState\s+\S+\s*\[\s*([^\]]+)\]', d.body)
            r.inst('Profile.__Pyx_TraceDeclarationsFunc:array-size', sample=mm.group(1) if mm else None)
            if not mm or 'CyFunc_count' not in mm.group(1):
                r.violate('Profile.__Pyx_TraceDeclarationsFunc:array-size', rel, d.line, 'the monitoring state array of a plain function is declared with %s instead of the function event count' % (mm.group(1) if mm else '?'))
    # EnterScope counts
    for nm in sorted(f_clo | g_clo):
        for d in ctx.cat.decls.get(nm, []):
            if d.file != 'Profile.c' or d.kind != 'func' or not d.body:
                continue
            body = strip_c_comments(d.body)
            for callee, off in c_callees(body):
                if callee != 'PyMonitoring_EnterScope':
                    continue
                lp = body.index('(', off)
                args = [a.strip() for a in split_args(body[lp + 1:match_paren(body, lp)])]
                want = 'CyGen' if (nm in g_clo and nm not in f_clo) else 'CyFunc' if (nm in f_clo and nm not in g_clo) else None
                key = 'Profile.%s:EnterScope-count' % nm
                r.inst(key, sample='%s enters the scope with %s' % (nm, args[-1] if args else None))
                if want and (not args or ('%s_count' % want) not in args[-1]):
                    r.violate(key, rel, d.line,
                              '%s, reached only from %s macros, enters the monitoring scope with the count `%s` instead of __Pyx_MonitoringEventTypes_%s_count: %s' % (
                                  nm, 'generator' if want == 'CyGen' else 'plain function', args[-1] if args else '?', want,
                                  'the generator-only states (resume, yield) are not refreshed when the tool configuration changes between two resumes, their events are lost' if want == 'CyGen'
                                  else 'CPython writes more states than the function\'s array holds'))
    return r
