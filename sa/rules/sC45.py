"""C45-RETCOND: under which conditions does a `return` statement node leave the function without its return event?

A node that jumps to the function's return label and reports the return event itself (ReturnStatNode) is the only
place where that activation can be closed for the profiler: the default return event of the function body is emitted
before the return label.  The existing rule C45-RET reports "some path is silent" under ONE construct key; a second,
different suppressing condition is therefore indistinguishable from the first.  This rule computes the *decision
function* "return label reached without a return event" over the non-tracing tests of the method:

 * every `if` whose subtree emits the return event or jumps to the return label is normalised into nested atomic tests
   (a and b, a or b, not a, locals with a single definition substituted), so nested ifs / and / De Morgan / early exits
   give the same atoms;
 * the tracing tests are fixed by one of the three enabled configurations (profile, linetrace, both);
 * the remaining atoms are tracked path-sensitively (pyflow) and the silent paths are summarised by their prime
   implicants (minimal sets of atom values that force a silent return).

Every prime implicant is one construct `<Module.Class.method>:no-event-when:<literals>` (the configurations in which it
holds are named in the message, not in the key).  Nothing is executed; the atoms
stay symbolic and the enumeration is over the complete set of truth assignments of the atoms found.
"""
import ast, itertools

from ..core import Rule, AnalysisError, node_src
from ..engine import pyflow
from ..engine.pyindex import walk_no_nested
from .pC37 import local_assigns, label_kind
from .pC45 import Tests, trace_sites

CONFIGS = (('profile', {'profile': True, 'linetrace': False}),
           ('linetrace', {'profile': False, 'linetrace': True}),
           ('both', {'profile': True, 'linetrace': True}))
MAX_ATOMS = 8


def _is_event(c):
    return isinstance(c, ast.Call) and isinstance(c.func, ast.Attribute) and c.func.attr == 'put_trace_return'


def _is_goto_return(c):
    return isinstance(c, ast.Call) and isinstance(c.func, ast.Attribute) and c.func.attr == 'put_goto' and c.args and label_kind(c.args[0]) == 'return'


def _relevant(s):
    return any(_is_event(n) or _is_goto_return(n) for n in ast.walk(s))


def _attr_chain(e):
    while isinstance(e, ast.Attribute):
        e = e.value
    return isinstance(e, ast.Name)


def _subst(e, env, depth=0):
    """replace locals that are assigned exactly once by a side-effect free test expression / attribute chain with that
    expression, so that `par = self.in_parallel; if par:` and `if self.in_parallel:` give the same atom"""
    if depth > 4:
        return e
    if isinstance(e, ast.Name) and len(env.get(e.id, ())) == 1:
        d = env[e.id][0]
        if isinstance(d, (ast.BoolOp, ast.UnaryOp, ast.Compare)) or (isinstance(d, ast.Attribute) and _attr_chain(d)) or \
                (isinstance(d, ast.Call) and isinstance(d.func, ast.Attribute) and d.func.attr == 'is_tracing') or Tests.directive(d):
            return _subst(d, env, depth + 1)
        return e
    if isinstance(e, ast.BoolOp):
        return ast.BoolOp(op=e.op, values=[_subst(v, env, depth) for v in e.values])
    if isinstance(e, ast.UnaryOp) and isinstance(e.op, ast.Not):
        return ast.UnaryOp(op=e.op, operand=_subst(e.operand, env, depth))
    if isinstance(e, ast.Compare):
        return ast.Compare(left=_subst(e.left, env, depth), ops=e.ops, comparators=[_subst(c, env, depth) for c in e.comparators])
    return e


def _split(stmts, env):
    """relevant `if` statements -> nested ifs with atomic tests"""
    out = []
    for s in stmts:
        if isinstance(s, ast.If) and _relevant(s):
            out.append(_split_if(_subst(s.test, env), _split(s.body, env), _split(s.orelse, env), s))
        elif isinstance(s, (ast.For, ast.While, ast.With, ast.Try)) and _relevant(s):
            c = type(s)(**{f: getattr(s, f) for f in s._fields})
            for f in ('body', 'orelse', 'finalbody'):
                if getattr(c, f, None):
                    setattr(c, f, _split(getattr(c, f), env))
            ast.copy_location(c, s)
            out.append(c)
        else:
            out.append(s)
    return out


def _split_if(test, body, orelse, at):
    if isinstance(test, ast.UnaryOp) and isinstance(test.op, ast.Not):
        return _split_if(test.operand, orelse or [ast.copy_location(ast.Pass(), at)], body, at)
    if isinstance(test, ast.BoolOp) and len(test.values) >= 2:
        first, rest = test.values[0], test.values[1:]
        rest = rest[0] if len(rest) == 1 else ast.BoolOp(op=test.op, values=rest)
        if isinstance(test.op, ast.And):
            return _split_if(first, [_split_if(rest, body, orelse, at)], orelse, at)
        return _split_if(first, body, [_split_if(rest, body, orelse, at)], at)
    n = ast.If(test=test, body=body or [ast.copy_location(ast.Pass(), at)], orelse=orelse)
    n._atomic = True
    return ast.fix_missing_locations(ast.copy_location(n, at))


def silent_return_conditions(fn):
    """-> {frozenset of (atom text, truth): set of configuration names} — the prime implicants of
    "the return label is reached without a return event", per tracing configuration."""
    env = local_assigns(fn)
    tests = Tests(fn)
    fn2 = ast.FunctionDef(name=fn.name, args=fn.args, body=_split(fn.body, env), decorator_list=[], returns=None, type_comments=None)
    ast.copy_location(fn2, fn)
    ast.fix_missing_locations(fn2)
    result = {}
    for cname, cfg in CONFIGS:
        def trace_value(e):
            """truth of a pure tracing test under the configuration, else None"""
            d = tests.directive(e)
            if d:
                return cfg[d]
            if isinstance(e, ast.Call) and isinstance(e.func, ast.Attribute) and e.func.attr == 'is_tracing' and not e.args:
                return True
            if isinstance(e, ast.Name) and len(env.get(e.id, ())) == 1:
                return trace_value(env[e.id][0])
            if isinstance(e, ast.UnaryOp) and isinstance(e.op, ast.Not):
                v = trace_value(e.operand)
                return None if v is None else not v
            if isinstance(e, ast.BoolOp):
                vs = [trace_value(v) for v in e.values]
                if any(v is None for v in vs):
                    return None
                return all(vs) if isinstance(e.op, ast.And) else any(vs)
            return None

        atoms = set()
        silent = []

        def refine(test, truth, state):
            tv = trace_value(test)
            if tv is not None:
                return state if tv == truth else None
            if isinstance(test, ast.Constant):
                return state
            txt = ' '.join(ast.unparse(test).split())
            if ('C', txt, not truth) in state:
                return None
            atoms.add(txt)
            return state | {('C', txt, truth)}

        def tr(node, state):
            s = set(state)
            if isinstance(node, ast.stmt):
                assigned = pyflow._assigned_names(node)
                if assigned:
                    for f in list(s):
                        if isinstance(f, tuple) and f[0] == 'C':
                            names = pyflow._names_in(ast.parse(f[1], mode='eval').body)
                            if any(a in names or any(x.startswith(a + '.') for x in names) for a in assigned):
                                s.discard(f)
            for c in pyflow.calls_in(node):
                if _is_event(c):
                    s.add('RET')
                elif _is_goto_return(c) and 'RET' not in s:
                    silent.append(frozenset((f[1], f[2]) for f in s if isinstance(f, tuple) and f[0] == 'C'))
            return frozenset(s)

        # refine only on the atomic tests produced by _split (the tests of relevant ifs)
        atomic_tests = {id(n.test) for n in ast.walk(fn2) if isinstance(n, ast.If) and getattr(n, '_atomic', False)}
        flow = pyflow.Flow(tr, refine=lambda test, truth, state: refine(test, truth, state) if id(test) in atomic_tests else state, correlate=False)
        try:
            flow.run(fn2)
        except pyflow.TooManyStates:
            raise AnalysisError('%s: too many paths for the return-event decision table' % fn.name)
        atoms = sorted(atoms)
        if len(atoms) > MAX_ATOMS:
            raise AnalysisError('%s: %d decision atoms guard the return event (limit %d)' % (fn.name, len(atoms), MAX_ATOMS))
        # the decision function over total assignments; prime implicants by increasing cube size
        def bad(assign):
            return any(all(assign[a] == t for a, t in p) for p in silent)
        primes = []
        for k in range(len(atoms) + 1):
            for names in itertools.combinations(atoms, k):
                for vals in itertools.product((True, False), repeat=k):
                    cube = dict(zip(names, vals))
                    if any(all(cube.get(a) == t for a, t in p) for p in primes):
                        continue
                    free = [a for a in atoms if a not in cube]
                    if all(bad(dict(cube, **dict(zip(free, fv)))) for fv in itertools.product((True, False), repeat=len(free))):
                        primes.append(frozenset(cube.items()))
        for p in primes:
            result.setdefault(p, set()).add(cname)
    return result


def _cube_text(cube):
    return ' & '.join(sorted((a if t else 'not (%s)' % a) for a, t in cube)) or 'always'


def rule_return_conditions(ctx):
    r = Rule('C45-RETCOND', 'each condition under which a return-statement node jumps to the return label without emitting the return event while tracing is enabled '
             '(prime implicants of the decision function over the non-tracing tests, for profile / linetrace / both)', floor=3)
    n = 0
    for m, qn, owner, fn in trace_sites(ctx):
        calls = [c for c in walk_no_nested(fn) if isinstance(c, ast.Call) and isinstance(c.func, ast.Attribute)]
        if any(c.func.attr == 'put_trace_start' for c in calls) or not any(_is_event(c) for c in calls) or not any(_is_goto_return(c) for c in calls):
            continue
        n += 1
        key = '%s.%s' % (m.short, qn)
        conds = silent_return_conditions(fn)
        for cname, _ in CONFIGS:
            r.inst('%s@%s' % (key, cname), sample='%s with %s enabled: silent-return conditions %s' % (
                key, cname, sorted(_cube_text(c) for c, cs in conds.items() if cname in cs) or 'none'))
        for cube, cfgs in sorted(conds.items(), key=lambda kv: _cube_text(kv[0])):
            suffix = '' if len(cfgs) == len(CONFIGS) else '@' + '+'.join(sorted(cfgs))
            r.violate('%s:no-event-when:%s' % (key, _cube_text(cube)), m.rel, fn.lineno,
                      '%s reaches the return label without put_trace_return when [%s]%s although tracing is enabled: the activation gets its start/resume event but no '
                      'return event, so the caller\'s events no longer nest (the default return event of the function body lies before the return label and is skipped '
                      'by the jump)' % (qn, _cube_text(cube), '' if not suffix else ' (configurations: %s)' % ', '.join(sorted(cfgs))))
    if n < 1:
        raise AnalysisError('no return-statement node emitting put_trace_return found')
    pc = ast.parse("def g(self, code):\n    v = self.value\n    if self.in_gen and v is None:\n        pass\n    elif not self.in_par and code.is_tracing():\n"
                   "        code.put_trace_return('r', self.pos)\n    code.put_goto(code.return_label)\n").body[0]
    got = {_cube_text(c) for c in silent_return_conditions(pc)}
    r.positive_control(got == {'self.in_par', 'self.in_gen & self.value is None'}, 'two independent suppressing conditions are told apart: %s' % sorted(got))
    return r
