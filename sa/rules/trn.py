"""TRN rule family: translation obligations (parameter roles of optimised builtin methods; %-format -> f-string)."""
import ast, re

from ..core import Rule, AnalysisError, node_src
from ..engine.pyindex import walk_no_nested
from ..engine import tables

# Source: Python library reference, "Text Sequence Type - str" / "Bytes and Bytearray Operations".
#   slice bounds (start, end): None means "use the default", out-of-range values are clamped like slice indices
#   counts (replace count, split/rsplit maxsplit): must be an integer; None raises TypeError
PARAM_ROLES = {
    # handler suffix (TYPE_METHOD as the dispatcher spells it) -> {argument index in the handler's args list: role}
    'unicode_find': {2: 'bound', 3: 'bound'},
    'unicode_rfind': {2: 'bound', 3: 'bound'},
    'unicode_count': {2: 'bound', 3: 'bound'},
    'unicode_startswith': {2: 'bound', 3: 'bound'},
    'unicode_endswith': {2: 'bound', 3: 'bound'},
    'bytes_startswith': {2: 'bound', 3: 'bound'},
    'bytes_endswith': {2: 'bound', 3: 'bound'},
    'unicode_replace': {3: 'count'},
    'unicode_split': {2: 'count'},
    'unicode_rsplit': {2: 'count'},
    'unicode_splitlines': {},
}


def _entails_true(expr, truth, name):
    """Does `expr evaluated to truth` force the plain name to be truthy?"""
    if isinstance(expr, ast.Name):
        return truth and expr.id == name
    if isinstance(expr, ast.UnaryOp) and isinstance(expr.op, ast.Not):
        return _entails_true(expr.operand, not truth, name)
    if isinstance(expr, ast.BoolOp):
        if isinstance(expr.op, ast.And) and truth:
            return any(_entails_true(v, True, name) for v in expr.values)
        if isinstance(expr.op, ast.Or) and not truth:
            return any(_entails_true(v, False, name) for v in expr.values)
    return False


def _params_true_on_all_paths(helper, stmt, params):
    """Parameters that are known truthy (from branch facts) on every path that reaches `stmt`."""
    from ..engine import pyflow
    reached = []

    def tr(n, state):
        if n is stmt or (isinstance(stmt, ast.If) and n is stmt.test):
            reached.append(state)
        return state
    try:
        pyflow.Flow(tr).run(helper)
    except pyflow.TooManyStates:
        return set()
    if not reached:
        return set()
    out = None
    for st in reached:
        known = set()
        for f in st:
            if isinstance(f, tuple) and f and f[0] == '?':
                try:
                    e = ast.parse(f[1], mode='eval').body
                except SyntaxError:
                    continue
                for p in params:
                    if _entails_true(e, f[2], p):
                        known.add(p)
        out = known if out is None else (out & known)
    return out or set()


def none_mapping_flag(helper):
    """Analyse an argument-injection helper: does it map a None argument to the default, and which parameter
    (if any) switches that off?  -> (maps_none: bool, flag parameter name or None)"""
    params = [a.arg for a in helper.args.args]
    maps = False
    flags = None
    for n in walk_no_nested(helper):
        guard_names = None
        if isinstance(n, ast.If):
            has_none = any(isinstance(x, ast.Attribute) and x.attr == 'is_none' for x in ast.walk(n.test))
            sets_special = any(isinstance(x, ast.Attribute) and x.attr == 'special_none_cvalue' and isinstance(x.ctx, ast.Store) for s in n.body for x in ast.walk(s))
            if has_none or sets_special:
                maps = True
                # names conjoined with the None test / guarding the special_none assignment
                cand = set()
                for x in ast.walk(n.test):
                    if isinstance(x, ast.BoolOp) and isinstance(x.op, ast.And):
                        for v in x.values:
                            if isinstance(v, ast.Name) and v.id in params:
                                cand.add(v.id)
                # ... or tested earlier on every path that reaches this statement (`if not flag: return` before it,
                # an enclosing `if flag:`): path facts of the structured dataflow
                cand |= _params_true_on_all_paths(helper, n, params)
                guard_names = cand
        if guard_names is not None:
            flags = guard_names if flags is None else (flags & guard_names)
    if not maps:
        return False, None
    flag = sorted(flags)[0] if flags else None
    return True, flag


def rule_TRN2b(ctx, floor=2):
    """Argument-injection helpers (`_inject_*_default_argument(node, args, arg_index, ...)`) may only *append* when the
    argument is absent (len(args) == arg_index on that path); a present argument must be replaced in place."""
    from ..engine import pyflow
    ix = ctx.index
    r = Rule('TRN2b', 'argument-injection helpers append a default only on paths where the argument is absent (len(args) == arg_index); present arguments are replaced in place', floor)
    opt = ix.cls('Optimize', 'OptimizeBuiltinCalls')

    def check(fn):
        params = [a.arg for a in fn.args.args]
        if 'args' not in params or 'arg_index' not in params:
            return None
        bad = []

        def tr(n, state):
            for c in pyflow.calls_in(n):
                if isinstance(c.func, ast.Attribute) and c.func.attr in ('append', 'insert', 'extend') and isinstance(c.func.value, ast.Name) and c.func.value.id == 'args':
                    ok = any(isinstance(f, tuple) and f[0] == '?' and f[2] is True and re.sub(r'\s', '', f[1]) in ('len(args)==arg_index', 'arg_index==len(args)') for f in state)
                    if not ok:
                        bad.append(c.lineno)
            return state
        pyflow.Flow(tr).run(fn)
        return bad
    for k in ix.mro(opt):
        for name, fn in k.methods.items():
            if not (name.startswith('_inject_') and name.endswith('_default_argument')):
                continue
            res = check(fn)
            if res is None:
                continue
            key = '%s.%s' % (k.qual, name)
            r.inst(key, sample=key)
            for line in sorted(set(res)):
                r.violate(key + ':append', k.module.rel, line,
                          '%s appends to the argument list on a path where the argument may be present (e.g. a literal None): the call gets a surplus '
                          'argument and the original one stays in place — wrong value or C code that does not compile' % name)
    pc = ast.parse("def _inject_x_default_argument(self, node, args, arg_index, d):\n    if len(args) == arg_index or args[arg_index].is_none:\n        args.append(d)\n").body[0]
    r.positive_control(bool(check(pc)), 'append under `absent or is_none`')
    return r


def rule_TRN2(ctx, floor=8):
    """Parameter-role obligations for the integer parameters of optimised str/bytes methods."""
    ix = ctx.index
    r = Rule('TRN2', 'integer parameters of optimised str/bytes methods are injected according to their role: slice bounds accept None as default, counts (replace count, split maxsplit) must NOT map None to the default', floor)
    opt = ix.cls('Optimize', 'OptimizeBuiltinCalls')
    for suffix, roles in PARAM_ROLES.items():
        hname = '_handle_simple_method_' + suffix
        meth = ix.find_method(opt, hname)
        if meth is None:
            continue
        fn = meth[1]
        # one-level interprocedural: the handler may delegate to a shared self._inject_xxx(node, function, args, ...) worker
        bodies = [fn]
        argname = fn.args.args[3].arg if len(fn.args.args) > 3 else 'args'
        for n in walk_no_nested(fn):
            if isinstance(n, ast.Call) and isinstance(n.func, ast.Attribute) and isinstance(n.func.value, ast.Name) and n.func.value.id == 'self' \
                    and any(isinstance(a, ast.Name) and a.id == argname for a in n.args):
                w = ix.find_method(opt, n.func.attr)
                if w is not None and w[1] is not fn and not ('default' in n.func.attr):
                    bodies.append(w[1])
        for n in [x for b in bodies for x in walk_no_nested(b)]:
            if not (isinstance(n, ast.Call) and isinstance(n.func, ast.Attribute) and n.func.attr.startswith('_inject_') and 'default' in n.func.attr):
                continue
            if len(n.args) < 3:
                continue
            idx = tables.literal(n.args[2])
            role = roles.get(idx)
            key = 'Optimize.OptimizeBuiltinCalls.%s:arg%s' % (hname, idx)
            if role is None:
                continue
            helper = ix.find_method(opt, n.func.attr)
            if helper is None:
                raise AnalysisError('helper %s not found' % n.func.attr)
            maps, flag = none_mapping_flag(helper[1])
            r.inst(key, sample='%s: argument %s role=%s via %s (maps None: %s, flag: %s)' % (hname, idx, role, n.func.attr, maps, flag))
            if role == 'count' and maps:
                off = False
                if flag:
                    # keyword or positional constant False at the call site
                    hp = [a.arg for a in helper[1].args.args]
                    val = None
                    for k in n.keywords:
                        if k.arg == flag:
                            val = k.value
                    pi = hp.index(flag) - 1  # minus self
                    if val is None and len(n.args) > pi:
                        val = n.args[pi]
                    if val is None:
                        # default of the parameter
                        d = helper[1].args.defaults
                        off_i = hp.index(flag) - (len(hp) - len(d))
                        val = d[off_i] if 0 <= off_i < len(d) else None
                    off = isinstance(val, ast.Constant) and val.value is False
                # alternatively the handler refuses to optimise a literal None before injecting and the helper has a flag
                if not off:
                    r.violate(key, opt.module.rel, n.lineno,
                              '%s injects the %s argument (index %s) with %s, which maps None to the default value: '
                              'CPython raises TypeError for None here (only slice bounds accept None)' % (hname, role, idx, n.func.attr))
            if role == 'bound' and not maps:
                r.violate(key, opt.module.rel, n.lineno,
                          '%s: slice-bound argument %s must accept None as "use the default" but %s does not map None' % (hname, idx, n.func.attr))
            if role == 'bound' and maps and flag:
                # the flag must not be switched off for bounds
                for k in n.keywords:
                    if k.arg == flag and isinstance(k.value, ast.Constant) and k.value.value is False:
                        r.violate(key, opt.module.rel, n.lineno, '%s: None-mapping switched off for slice bound %s' % (hname, idx))
    return r
