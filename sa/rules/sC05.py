"""C05-NEG: in the from-Python integer converter every value that is delivered for an unsigned target has passed a negativity rejection.

`CIntFromPy` converts a PyLong to `{{TYPE}}`.  For an unsigned TYPE a negative value must raise OverflowError.  The template delivers
values at `__PYX_VERIFY_RETURN_INT[_EXC](TYPE, F, value)` sites and at `return (TYPE) <digits>` sites.  None of them can be trusted to
reject negative values by itself: the magnitude accessors (digits, CompactValueUnsigned) have lost the sign, and the range test inside
__PYX__VERIFY_RETURN_INT — including its `is_unsigned && value < 0` arm — only exists under `sizeof(TYPE) < sizeof(F)`, i.e. not for the
widest targets (this is *derived* from the macro body, see macro_rejects_negatives()).  Necessary condition decided here, per
preprocessor variant:

    every delivery site that can execute for an unsigned TYPE (function-level `const int is_unsigned = 1`, or not inside the
    `!is_unsigned` arm) is *sign-checked*: it lies in the else-arm of a negativity test of x, or behind a dominating
    `if (<negativity test>) goto/return ...`, or its function is only called from sign-checked / signed-only call sites (recursively).
    Exempt: a site whose value is `Api(x)` for a C-API converter that rejects negative ints itself (SELF_REJECTING_API), in _EXC form.

Negativity tests are recognised structurally on the parsed condition (__Pyx_PyLong_IsNeg(x), Py_SIZE(x) < 0, and the result variable of
PyObject_RichCompareBool(x, Py_False, Py_LT) compared with 1), through likely()/unlikely(), `!`, `&&` and `||`.
Technique: Tempita / preprocessor arms are resolved per variant (every assignment of the conditions that occur in the functions involved),
enclosing conditions and dominating statements come from engine/cguard, conditions are parsed by engine/cexpr.  Nothing is compiled or run."""
import itertools, re

from ..core import Rule, AnalysisError
from ..engine import cexpr
from ..engine.cutil import strip_c_comments, split_args, match_paren
from ..engine.cguard import guards, dominators, _stmt_end, _skip_ws
from . import pC04 as P4

RID = 'C05-NEG'
TC = 'TypeConversion.c'
REL = 'Cython/Utility/TypeConversion.c'
SECTION = 'CIntFromPy'
MACRO_SECTION = 'CIntFromPyVerify'
VERIFY = re.compile(r'\b(__PYX_VERIFY_RETURN_INT(?:_EXC)?)\s*\(')
TOKEN = re.compile(r'\{\{(.*?)\}\}', re.S)
MAX_ATOMS = 10
# C-API converters that reject negative ints themselves (frozen from https://docs.python.org/3/c-api/long.html: "Raise OverflowError if the
# value of pylong is out of range for a unsigned long / unsigned long long / size_t" — a negative int is out of range for all three).
# A delivery site fed by one of them needs no outer negativity test; the error is propagated by the _EXC form of the macro.
SELF_REJECTING_API = {'PyLong_AsUnsignedLong', 'PyLong_AsUnsignedLongLong', 'PyLong_AsSize_t'}


# ------------------------------------------------------------------------------------------------ text preparation
def detemplate(raw):
    """Comment-free text with the same line structure: {{expr}} -> identifier, {{for}}/{{endfor}}/{{py:}} blanked,
    {{if}}/{{elif}}/{{else}}/{{endif}} turned into pseudo preprocessor lines (they must stand alone on their line)."""
    text = strip_c_comments(raw)

    def rep(m):
        c = ' '.join(m.group(1).split())
        nl = '\n' * m.group(0).count('\n')
        if re.match(r'(for\b|endfor\b|py:|default\b)', c):
            return nl
        mm = re.match(r'(if|elif)\s+(.*)$', c)
        if mm:
            return '#tpl%s %s%s' % (mm.group(1), mm.group(2), nl)
        if c in ('else', 'endif'):
            return '#tpl%s%s' % (c, nl)
        return 'TPL_' + re.sub(r'\W+', '_', c).strip('_') + nl
    text = TOKEN.sub(rep, text)
    for line in text.split('\n'):
        if '#tpl' in line and not line.strip().startswith('#tpl'):
            raise AnalysisError('%s: a Tempita {{if}} token shares its line with C code, which the variant expansion does not model' % RID)
    return text


DIRECTIVE = re.compile(r'^\s*#\s*(tplif|tplelif|tplelse|tplendif|if|ifdef|ifndef|elif|else|endif)\b(.*)$')


def _cond(kind, rest):
    rest = ' '.join(rest.split())
    if kind == 'ifdef':
        return 'defined(%s)' % rest, True
    if kind == 'ifndef':
        return 'defined(%s)' % rest, False
    if kind.startswith('tpl'):
        return 'tempita:' + rest, True
    return rest, True


def atoms_of(text):
    out = []
    for line in text.split('\n'):
        m = DIRECTIVE.match(line)
        if m and m.group(1) in ('if', 'ifdef', 'ifndef', 'elif', 'tplif', 'tplelif'):
            c = _cond(m.group(1), m.group(2))[0]
            if c not in out:
                out.append(c)
    return out


def select(text, assign):
    """The text of one variant: lines of inactive arms and all directive lines are blanked (offsets of lines preserved)."""
    out, stack = [], []        # stack entries: [parent_active, taken_already, active_now]
    for line in text.split('\n'):
        m = DIRECTIVE.match(line)
        if m:
            kind = m.group(1)
            if kind in ('if', 'ifdef', 'ifndef', 'tplif'):
                c, pos = _cond(kind, m.group(2))
                parent = all(s[2] for s in stack)
                val = (assign.get(c, False) == pos)
                stack.append([parent, val, parent and val])
            elif kind in ('elif', 'tplelif'):
                if not stack:
                    raise AnalysisError('%s: unbalanced conditional directives' % RID)
                c, pos = _cond(kind, m.group(2))
                s = stack[-1]
                val = (not s[1]) and assign.get(c, False)
                s[2] = s[0] and val
                s[1] = s[1] or val
            elif kind in ('else', 'tplelse'):
                if not stack:
                    raise AnalysisError('%s: unbalanced conditional directives' % RID)
                s = stack[-1]
                s[2] = s[0] and not s[1]
                s[1] = True
            else:
                if not stack:
                    raise AnalysisError('%s: unbalanced conditional directives' % RID)
                stack.pop()
            out.append('')
            continue
        if line.lstrip().startswith('#') or not all(s[2] for s in stack):
            out.append('')
        else:
            out.append(line)
    if stack:
        raise AnalysisError('%s: unterminated conditional directive' % RID)
    return '\n'.join(out)


class Func:
    def __init__(self, name, start, b0, b1, text):
        self.name, self.start, self.b0, self.b1 = name, start, b0, b1
        self.body = text[b0:b1 + 1]
        self.atoms = atoms_of(self.body)


FUNC_HEAD = re.compile(r'^static\b[^;{}()]*?\b(\w+)\s*\([^;{}()]*\)\s*\{[ \t]*$', re.M)


def functions(text):
    out = {}
    for m in FUNC_HEAD.finditer(text):
        b0 = m.end() - 1
        while text[b0] != '{':
            b0 -= 1
        depth, j = 0, b0
        while j < len(text):
            if text[j] == '{':
                depth += 1
            elif text[j] == '}':
                depth -= 1
                if depth == 0:
                    break
            j += 1
        if depth != 0 or (j > 0 and text[j - 1] != '\n'):
            raise AnalysisError('%s: cannot delimit the body of %s (braces differ between preprocessor arms)' % (RID, m.group(1)))
        out[m.group(1)] = Func(m.group(1), m.start(), b0, j, text)
    return out


# ------------------------------------------------------------------------------------------------ conditions
def _unwrap(e):
    while e[0] == 'call' and e[1] in ('likely', 'unlikely') and len(e[2]) == 1:
        e = e[2][0]
    return e


def _parts(e, op):
    e = _unwrap(e)
    if e[0] == 'bin' and e[1] == op:
        return _parts(e[2], op) + _parts(e[3], op)
    return [e]


def _literals(cond, pol):
    """[(atom expression, truth)] known to hold when `cond` evaluated to `pol`."""
    try:
        e = cexpr.parse(cond)
    except cexpr.ParseError:
        return []
    out = []

    def lit(x, truth):
        x = _unwrap(x)
        while x[0] == 'un' and x[1] == '!':
            x, truth = _unwrap(x[2]), not truth
        if (x[0] == 'bin' and x[1] == '&&' and truth) or (x[0] == 'bin' and x[1] == '||' and not truth):
            for p in _parts(x, x[1]):
                lit(p, truth)
        else:
            out.append((x, truth))
    lit(e, pol)
    return out


def is_neg_test(e, negvars, arg='x'):
    e = _unwrap(e)
    if e[0] == 'call' and re.search(r'IsNeg(ative)?$', e[1]) and len(e[2]) == 1 and _unwrap(e[2][0]) == ('id', arg):
        return True
    if e[0] == 'bin' and e[1] == '<' and e[3] == ('num', 0):
        a = _unwrap(e[2])
        if a[0] == 'call' and a[1] in ('Py_SIZE', '_PyLong_Sign', '__Pyx_PyLong_Sign') and len(a[2]) == 1 and _unwrap(a[2][0]) == ('id', arg):
            return True
    if e[0] == 'bin' and ((e[1] == '==' and e[3] == ('num', 1)) or (e[1] == '>' and e[3] == ('num', 0))):
        a = _unwrap(e[2])
        if a[0] == 'id' and a[1] in negvars:
            return True
    return False


def neg_result_vars(body, arg='x'):
    """locals assigned from PyObject_RichCompareBool(x, Py_False, Py_LT): value 1 <=> x < 0"""
    out = set()
    for m in re.finditer(r'\b(\w+)\s*=\s*PyObject_RichCompareBool\s*\(', body):
        rp = match_paren(body, m.end() - 1)
        if rp < 0:
            continue
        args = [' '.join(a.split()) for a in split_args(body[m.end():rp])]
        if len(args) == 3 and args[0] == arg and args[1] in ('Py_False', 'zero', '__pyx_int_0') and args[2] == 'Py_LT':
            out.add(m.group(1))
    return out


LEAVE = re.compile(r'(?:goto\s+\w+|return\b[^;{}]*)\s*;\s*\}?\s*$')


def rejecting_statement(st, negvars):
    """`if (<...negativity test...>) { ...; goto/return ...; }` (an else part may follow): control passes it only for x >= 0"""
    st = st.strip()
    if st.startswith('{') and st.endswith('}'):
        # a plain block that precedes the site: each of its top-level statements has been executed
        inner, i = st[1:-1], 0
        while True:
            i = _skip_ws(inner, i)
            if i >= len(inner):
                return False
            e = max(_stmt_end(inner, i), i + 1)
            if rejecting_statement(inner[i:e], negvars):
                return True
            i = e
    m = re.match(r'\s*if\s*\(', st)
    if not m:
        return False
    rp = match_paren(st, m.end() - 1)
    if rp < 0:
        return False
    cond = ' '.join(st[m.end():rp].split())
    # the then-part: up to a following `else` at depth 0, or the end
    rest = st[rp + 1:]
    depth, i, then, orelse = 0, 0, rest, None
    while i < len(rest):
        c = rest[i]
        if c in '({':
            depth += 1
        elif c in ')}':
            depth -= 1
        elif depth == 0 and re.match(r'else\b', rest[i:]) and (i == 0 or not (rest[i - 1].isalnum() or rest[i - 1] == '_')):
            then, orelse = rest[:i], rest[i + 4:]
            break
        i += 1
    then = then.strip()
    if re.search(r'\b(if|for|while|switch)\b', then) or not LEAVE.search(then):
        return False
    # cond true => leave; so afterwards cond is false: every disjunct of cond is false
    if any((not truth) and is_neg_test(x, negvars) for x, truth in _literals(cond, False)):
        return True
    # this arm leaves, so control passes the chain only through the else part: whatever that guarantees
    return orelse is not None and rejecting_statement(orelse, negvars)


def sign_context(mode, gs):
    """'U' only unsigned, 'S' only signed, 'M' either"""
    if mode in ('U', 'S'):
        return mode
    for cond, pol in gs:
        for x, truth in _literals(cond, pol):
            if x == ('id', 'is_unsigned'):
                return 'U' if truth else 'S'
    return 'M'


def unsigned_mode(body):
    m = re.search(r'\bconst\s+int\s+is_unsigned\s*=\s*([^;]+);', body)
    if not m:
        return None
    v = ' '.join(m.group(1).split())
    return 'U' if v == '1' else 'S' if v == '0' else 'E'


# ------------------------------------------------------------------------------------------------ sites
class Site:
    def __init__(self, kind, pos, desc, callee=None, self_rejecting=False):
        self.kind, self.pos, self.desc, self.callee, self.self_rejecting = kind, pos, desc, callee, self_rejecting


def sites_of(body, fnames):
    out = []
    for m in VERIFY.finditer(body):
        rp = match_paren(body, m.end() - 1)
        if rp < 0:
            raise AnalysisError('%s: unbalanced %s(...)' % (RID, m.group(1)))
        args = [' '.join(a.split()) for a in split_args(body[m.end():rp])]
        if len(args) != 3:
            raise AnalysisError('%s: %s with %d arguments' % (RID, m.group(1), len(args)))
        head = re.match(r'[\s(-]*(?:\([^()]*\)\s*)?(\w+)', args[2])
        api = re.fullmatch(r'(\w+)\s*\(\s*x\s*\)', args[2])
        out.append(Site('verify', m.start(), '%s(%s, %s...)' % (m.group(1), args[1], head.group(1) if head else args[2][:20]),
                        self_rejecting=bool(api and api.group(1) in SELF_REJECTING_API and m.group(1).endswith('_EXC'))))
    for m in re.finditer(r'\breturn\s*\(\s*TPL_TYPE\s*\)\s*([^;]*);', body):
        expr = ' '.join(m.group(1).split())
        if re.fullmatch(r'[\s(]*-\s*1[\s)]*', expr):
            continue        # the error sentinel
        head = re.search(r'[A-Za-z_]\w*', expr)
        out.append(Site('return', m.start(), 'return (TYPE) %s...' % (head.group(0) if head else expr[:20])))
    for m in re.finditer(r'\b(\w+)\s*\(\s*(\w+)\s*\)', body):
        if m.group(1) in fnames and m.group(2) in ('x', 'tmp'):
            out.append(Site('call', m.start(), 'call of %s' % m.group(1), callee=m.group(1)))
    return out


def macro_rejects_negatives(macro_text):
    """True if __PYX__VERIFY_RETURN_INT jumps to raise_neg_overflow for every negative value, i.e. the jump is not nested in a
    condition on sizeof() (a compile-time property of the type pair) or on value != (cast) value (which a wide target passes)."""
    text = strip_c_comments(macro_text).replace('\\\n', ' \n')
    m = re.search(r'#define\s+__PYX__VERIFY_RETURN_INT\s*\([^)]*\)', text)
    if not m:
        raise AnalysisError('%s: __PYX__VERIFY_RETURN_INT vanished from %s' % (RID, MACRO_SECTION))
    body = text[m.end():]
    nxt = re.search(r'^\s*#define\b', body, re.M)
    if nxt:
        body = body[:nxt.start()]
    ok = False
    for g in re.finditer(r'goto\s+raise_neg_overflow\s*;', body):
        gs = guards(body, g.start())
        if gs and not any('sizeof' in c or '!=' in c for c, _p in gs):
            ok = True
    return ok


# ------------------------------------------------------------------------------------------------ the analysis
class Analysis:
    def __init__(self, raw, macro_raw):
        self.text = detemplate(raw)
        self.funcs = functions(self.text)
        if not self.funcs:
            raise AnalysisError('%s: no function definition found in %s' % (RID, SECTION))
        self.macro_ok = macro_rejects_negatives(macro_raw)
        self._var = {}

    def variant(self, f, assign):
        key = (f.name, tuple(sorted((a, assign.get(a, False)) for a in f.atoms)))
        if key not in self._var:
            body = select(f.body, assign)
            mode = unsigned_mode(body)
            self._var[key] = (body, mode, sites_of(body, set(self.funcs) - {f.name}), neg_result_vars(body))
        return self._var[key]

    def checked_here(self, f, assign, pos):
        body, mode, _s, negvars = self.variant(f, assign)
        for cond, pol in guards(body, pos):
            for x, truth in _literals(cond, pol):
                if not truth and is_neg_test(x, negvars):
                    return True
        return any(rejecting_statement(st, negvars) for st in dominators(body, pos))

    def context(self, f, assign, pos):
        body, mode, _s, _n = self.variant(f, assign)
        if mode is None:
            return 'M'
        return sign_context(mode, guards(body, pos))

    def callers(self, name, assign):
        out = []
        for g in self.funcs.values():
            if g.name == name:
                continue
            for s in self.variant(g, assign)[2]:
                if s.kind == 'call' and s.callee == name:
                    out.append((g, s))
        return out

    def checked(self, f, assign, pos, depth=0):
        """(True, None) or (False, explanation chain)"""
        if self.checked_here(f, assign, pos):
            return True, None
        if depth > 4:
            return False, 'call chain too deep'
        cs = self.callers(f.name, assign)
        if not cs:
            return False, 'no negativity rejection in %s' % f.name
        for g, s in cs:
            if self.context(g, assign, s.pos) == 'S':
                continue
            ok, why = self.checked(g, assign, s.pos, depth + 1)
            if not ok:
                return False, 'none in %s, and none before its call in %s%s' % (f.name, g.name, ' ...' if depth == 0 and 'none before' in (why or '') else '')
        return True, None

    def relevant_atoms(self):
        """conditions of the functions that hold delivery sites, and of their transitive callers"""
        names = {f.name for f in self.funcs.values() if VERIFY.search(f.body) or re.search(r'\breturn\s*\(\s*TPL_TYPE\s*\)\s*[^-\s(]', f.body)}
        changed = True
        while changed:
            changed = False
            for g in self.funcs.values():
                if g.name not in names and any(re.search(r'\b%s\s*\(' % re.escape(n), g.body) for n in names):
                    names.add(g.name)
                    changed = True
        atoms = []
        for n in sorted(names):
            for a in self.funcs[n].atoms:
                if a not in atoms:
                    atoms.append(a)
        if len(atoms) > MAX_ATOMS:
            raise AnalysisError('%s: %d independent preprocessor/Tempita conditions, too many to enumerate' % (RID, len(atoms)))
        return atoms

    def run(self):
        """{site key: (function, description, line offset, [violating variants (assign, why)], n variants evaluated)}"""
        atoms = self.relevant_atoms()
        res = {}
        for bits in itertools.product((False, True), repeat=len(atoms)):
            assign = dict(zip(atoms, bits))
            for f in self.funcs.values():
                body, mode, sites, _n = self.variant(f, assign)
                if mode is None:
                    continue
                for s in sites:
                    if s.kind == 'call':
                        continue
                    if self.context(f, assign, s.pos) == 'S':
                        continue
                    key = '%s:%s' % (f.name.replace('TPL_', ''), s.desc)
                    line = self.text.count('\n', 0, f.b0) + body.count('\n', 0, s.pos)
                    ent = res.setdefault(key, [f.name, s.desc, line, [], 0, s.self_rejecting])
                    ent[4] += 1
                    if s.self_rejecting:
                        continue
                    ok, why = self.checked(f, assign, s.pos)
                    if not ok:
                        ent[3].append((assign, why))
        return res


POSITIVE = '''
static CYTHON_INLINE {{TYPE}} __Pyx_PyULong_{{FROM_PY_FUNCTION}}(PyObject *x) {
    const int is_unsigned = 1;
    const digit* digits = __Pyx_PyLong_Digits(x);
    if (sizeof({{TYPE}}) <= sizeof(long)) {
        __PYX_VERIFY_RETURN_INT_EXC({{TYPE}}, long, PyLong_AsLong(x))
    }
    __PYX_VERIFY_RETURN_INT_EXC({{TYPE}}, unsigned long, PyLong_AsUnsignedLong(x))
raise_overflow:
    return __Pyx_raise_overflow_{{FROM_PY_FUNCTION}}();
raise_neg_overflow:
    return __Pyx_raise_neg_overflow_{{FROM_PY_FUNCTION}}();
}

static CYTHON_INLINE {{TYPE}} __Pyx_PyLong_{{FROM_PY_FUNCTION}}(PyObject *x) {
    const {{TYPE}} neg_one = ({{TYPE}}) -1, const_zero = ({{TYPE}}) 0;
    const int is_unsigned = neg_one > const_zero;
    if (is_unsigned) {
        #if CYTHON_USE_PYLONG_INTERNALS
        if (likely(__Pyx_PyLong_IsCompact(x))) {
            __PYX_VERIFY_RETURN_INT({{TYPE}}, __Pyx_compact_pylong, __Pyx_PyLong_CompactValue(x))
        } else if (unlikely(__Pyx_PyLong_IsNeg(x))) {
            goto raise_neg_overflow;
        } else
        #endif
        {
            return __Pyx_PyULong_{{FROM_PY_FUNCTION}}(x);
        }
    } else {
        #if CYTHON_USE_PYLONG_INTERNALS
        if (__Pyx_PyLong_IsCompact(x)) {
            __PYX_VERIFY_RETURN_INT({{TYPE}}, __Pyx_compact_pylong, __Pyx_PyLong_CompactValue(x))
        }
        #endif
    }
raise_neg_overflow:
    return __Pyx_raise_neg_overflow_{{FROM_PY_FUNCTION}}();
}
'''


def rule_neg(ctx, floor=4):
    r = Rule(RID, 'every value CIntFromPy delivers for an unsigned target type lies behind a negativity rejection of the PyLong (in the function or at all of its '
                  'call sites), in every preprocessor variant', floor)
    raw = P4.section_texts(ctx.cat, TC, SECTION).get('impl')
    mac = P4.section_texts(ctx.cat, TC, MACRO_SECTION).get('impl')
    if raw is None or mac is None:
        raise AnalysisError('%s: %s / %s have no implementation part' % (RID, SECTION, MACRO_SECTION))
    an = Analysis(raw.raw, mac.raw)
    if an.macro_ok:
        r.info('__PYX__VERIFY_RETURN_INT now rejects negative values unconditionally; sites with a signed func_type would not need an outer check any more '
               '(still demanded: the magnitude accessors lose the sign)')
    res = an.run()
    for key, (fname, desc, line, bad, n, selfrej) in sorted(res.items()):
        full = '%s:%s:%s' % (TC, SECTION, key)
        r.inst(full, sample='%s (%d variant(s)%s)' % (full, n, ', the C-API converter rejects negative ints itself' if selfrej else ''), nontrivial=not selfrej)
        if bad:
            assign, why = bad[0]
            on = [a for a, v in sorted(assign.items()) if v]
            r.violate(full, REL, raw.line + line,
                      '%s delivers a value for an unsigned {{TYPE}} without a preceding negativity rejection (%s; preprocessor variant: %s; %d of %d variants): '
                      'the range test inside __PYX__VERIFY_RETURN_INT only exists under sizeof({{TYPE}}) < sizeof(func_type) and the digit / compact '
                      'accessors carry no sign, so a negative Python int converts to 2**N + value (e.g. -1 -> 18446744073709551615 for size_t) instead of '
                      'raising OverflowError' % (key, why, ' && '.join(on) or 'all conditions false', len(bad), n))
    pa = Analysis(POSITIVE, mac.raw)
    pres = pa.run()
    fired = sorted(k for k, v in pres.items() if v[3])
    quiet = sorted(k for k, v in pres.items() if not v[3])
    r.positive_control(len(fired) == 2 and any('compact_pylong' in k for k in fired) and any('PyULong' in k and 'PyLong_AsLong' in k for k in fired)
                       and len(quiet) == 1 and 'PyLong_AsUnsignedLong' in quiet[0],
                       'compact fast path before the IsNeg test; signed C-API converter in the unsigned worker that is called from an unchecked site when PyLong '
                       'internals are off (the unsigned C-API converter next to it is accepted)')
    return r
