"""C05-NEG: in the from-Python integer converter every value that is delivered for an unsigned target has passed a negativity rejection.

`CIntFromPy` converts a PyLong to `{{TYPE}}`.  For an unsigned TYPE a negative value must raise OverflowError.  The template delivers
values at `__PYX_VERIFY_RETURN_INT[_EXC](TYPE, F, value)` sites and at `return (TYPE) <digits>` sites.  None of them can be trusted to
reject negative values by itself: the magnitude accessors (digits, CompactValueUnsigned) have lost the sign, and the range test inside
__PYX__VERIFY_RETURN_INT — including its `is_unsigned && value < 0` arm — only exists under `sizeof(TYPE) < sizeof(F)`, i.e. not for the
widest targets (this is *derived* from the macro body, see macro_rejects_negatives()).  Necessary condition decided here, per
preprocessor variant:

    every delivery site that can execute for an unsigned TYPE (function-level `const int is_unsigned = 1`, or not inside the
    `!is_unsigned` arm) is *sign-checked*: it lies in the else-arm of a negativity test of x, or behind a dominating
    `if (<negativity test>) goto/return ...`, or its function is only called from sign-checked / signed-only call sites (recursively).
    Exempt: a site whose value is `Api(x)` for a C-API converter that rejects negative ints itself (SELF_REJECTING_API), in _EXC form.

Negativity tests are recognised structurally on the parsed condition (__Pyx_PyLong_IsNeg(x), Py_SIZE(x) < 0, and the result variable of
PyObject_RichCompareBool(x, Py_False, Py_LT) compared with 1), through likely()/unlikely(), `!`, `&&` and `||`.
Technique: Tempita / preprocessor arms are resolved per variant (every assignment of the conditions that occur in the functions involved),
enclosing conditions and dominating statements come from engine/cguard, conditions are parsed by engine/cexpr.  Nothing is compiled or run."""
import itertools, re

from ..core import Rule, AnalysisError
from ..engine import cexpr
from ..engine.cutil import strip_c_comments, split_args, match_paren
from ..engine.cguard import guards, dominators, _stmt_end, _skip_ws
from . import pC04 as P4

RID = 'C05-NEG'
TC = 'TypeConversion.c'
REL = 'Cython/Utility/TypeConversion.c'
SECTION = 'CIntFromPy'
MACRO_SECTION = 'CIntFromPyVerify'
VERIFY = re.compile(r'\b(__PYX_VERIFY_RETURN_INT(?:_EXC)?)\s*\(')
TOKEN = re.compile(r'\{\{(.*?)\}\}', re.S)
MAX_ATOMS = 10
# C-API converters that reject negative ints themselves (frozen from https://docs.python.org/3/c-api/long.html: "Raise OverflowError if the
# value of pylong is out of range for a unsigned long / unsigned long long / size_t" — a negative int is out of range for all three).
# A delivery site fed by one of them needs no outer negativity test; the error is propagated by the _EXC form of the macro.
SELF_REJECTING_API = {'PyLong_AsUnsignedLong', 'PyLong_AsUnsignedLongLong', 'PyLong_AsSize_t'}


# ------------------------------------------------------------------------------------------------ text preparation
def detemplate(raw):
    """Comment-free text with the same line structure: {{expr}} -> identifier, {{for}}/{{endfor}}/{{py:}} blanked,
    {{if}}/{{elif}}/{{else}}/{{endif}} turned into pseudo preprocessor lines (they must stand alone on their line)."""
    text = strip_c_comments(raw)

    def rep(m):
        c = ' '.join(m.group(1).split())
        nl = '\n' * m.group(0).count('\n')
        if re.match(r'(for\b|endfor\b|py:|default\b)', c):
            return nl
        mm = re.match(r'(if|elif)\s+(.*)$', c)
        if mm:
            return '#tpl%s %s%s' % (mm.group(1), mm.group(2), nl)
        if c in ('else', 'endif'):
            return '#tpl%s%s' % (c, nl)
        return 'TPL_' + re.sub(r'\W+', '_', c).strip('_') + nl
    text = TOKEN.sub(rep, text)
    for line in text.split('\n'):
        if '#tpl' in line and not line.strip().startswith('#tpl'):
            raise AnalysisError('%s: a Tempita {{if}} token shares its line with C code, which the variant expansion does not model' % RID)
    return text


DIRECTIVE = re.compile(r'^\s*#\s*(tplif|tplelif|tplelse|tplendif|if|ifdef|ifndef|elif|else|endif)\b(.*)$')


def _cond(kind, rest):
    rest = ' '.join(rest.split())
    if kind == 'ifdef':
        return 'defined(%s)' % rest, True
    if kind == 'ifndef':
        return 'defined(%s)' % rest, False
    if kind.startswith('tpl'):
        return 'tempita:' + rest, True
    return rest, True


def atoms_of(text):
    out = []
    for line in text.split('\n'):
        m = DIRECTIVE.match(line)
        if m and m.group(1) in ('if', 'ifdef', 'ifndef', 'elif', 'tplif', 'tplelif'):
            c = _cond(m.group(1), m.group(2))[0]
            if c not in out:
                out.append(c)
    return out


def select(text, assign):
    """The text of one variant: lines of inactive arms and all directive lines are blanked (offsets of lines preserved)."""
    out, stack = [], []        # stack entries: [parent_active, taken_already, active_now]
    for line in text.split('\n'):
        m = DIRECTIVE.match(line)
        if m:
            kind = m.group(1)
            if kind in ('if', 'ifdef', 'ifndef', 'tplif'):
                c, pos = _cond(kind, m.group(2))
                parent = all(s[2] for s in stack)
                val = (assign.get(c, False) == pos)
                stack.append([parent, val, parent and val])
            elif kind in ('elif', 'tplelif'):
                if not stack:
                    raise AnalysisError('%s: unbalanced conditional directives' % RID)
                c, pos = _cond(kind, m.group(2))
                s = stack[-1]
                val = (not s[1]) and assign.get(c, False)
                s[2] = s[0] and val
                s[1] = s[1] or val
            elif kind in ('else', 'tplelse'):
                if not stack:
                    raise AnalysisError('%s: unbalanced conditional directives' % RID)
                s = stack[-1]
                s[2] = s[0] and not s[1]
                s[1] = True
            else:
                if not stack:
                    raise AnalysisError('%s: unbalanced conditional directives' % RID)
                stack.pop()
            out.append('')
            continue
        if line.lstrip().startswith('#') or not all(s[2] for s in stack):
            out.append('')
        else:
            out.append(line)
    if stack:
        raise AnalysisError('%s: unterminated conditional directive' % RID)
    return '\n'.join(out)


class Func:
    def __init__(self, name, start, b0, b1, text):
        self.name, self.start, self.b0, self.b1 = name, start, b0, b1
        self.body = text[b0:b1 + 1]
        self.atoms = atoms_of(self.body)


FUNC_HEAD = re.compile(r'^static\b[^;{}()]*?\b(\w+)\s*\([^;{}()]*\)\s*\{[ \t]*$', re.M)


def functions(text):
    out = {}
    for m in FUNC_HEAD.finditer(text):
        b0 = m.end() - 1
        while text[b0] != '{':
            b0 -= 1
        depth, j = 0, b0
        while j < len(text):
            if text[j] == '{':
                depth += 1
            elif text[j] == '}':
                depth -= 1
                if depth == 0:
                    break
            j += 1
        if depth != 0 or (j > 0 and text[j - 1] != '\n'):
            raise AnalysisError('%s: cannot delimit the body of %s (braces differ between preprocessor arms)' % (RID, m.group(1)))
        out[m.group(1)] = Func(m.group(1), m.start(), b0, j, text)
    return out


# ------------------------------------------------------------------------------------------------ conditions
def _unwrap(e):
    while e[0] == 'call' and e[1] in ('likely', 'unlikely') and len(e[2]) == 1:
        e = e[2][0]
    return e


def _parts(e, op):
    e = _unwrap(e)
    if e[0] == 'bin' and e[1] == op:
        return _parts(e[2], op) + _parts(e[3], op)
    return [e]


def _literals(cond, pol):
    """[(atom expression, truth)] known to hold when `cond` evaluated to `pol`."""
    try:
        e = cexpr.parse(cond)
    except cexpr.ParseError:
        return []
    out = []

    def lit(x, truth):
        x = _unwrap(x)
        while x[0] == 'un' and x[1] == '!':
            x, truth = _unwrap(x[2]), not truth
        if (x[0] == 'bin' and x[1] == '&&' and truth) or (x[0] == 'bin' and x[1] == '||' and not truth):
            for p in _parts(x, x[1]):
                lit(p, truth)
        else:
            out.append((x, truth))
    lit(e, pol)
    return out


def is_neg_test(e, negvars, arg='x'):
    e = _unwrap(e)
    if e[0] == 'call' and re.search(r'IsNeg(ative)?$', e[1]) and len(e[2]) == 1 and _unwrap(e[2][0]) == ('id', arg):
        return True
    if e[0] == 'bin' and e[1] == '<' and e[3] == ('num', 0):
        a = _unwrap(e[2])
        if a[0] == 'call' and a[1] in ('Py_SIZE', '_PyLong_Sign', '__Pyx_PyLong_Sign') and len(a[2]) == 1 and _unwrap(a[2][0]) == ('id', arg):
            return True
    if e[0] == 'bin' and ((e[1] == '==' and e[3] == ('num', 1)) or (e[1] == '>' and e[3] == ('num', 0))):
        a = _unwrap(e[2])
        if a[0] == 'id' and a[1] in negvars:
            return True
    return False


def neg_result_vars(body, arg='x'):
    """locals assigned from PyObject_RichCompareBool(x, Py_False, Py_LT): value 1 <=> x < 0"""
    out = set()
    for m in re.finditer(r'\b(\w+)\s*=\s*PyObject_RichCompareBool\s*\(', body):
        rp = match_paren(body, m.end() - 1)
        if rp < 0:
            continue
        args = [' '.join(a.split()) for a in split_args(body[m.end():rp])]
        if len(args) == 3 and args[0] == arg and args[1] in ('Py_False', 'zero', '__pyx_int_0') and args[2] == 'Py_LT':
            out.add(m.group(1))
    return out


LEAVE = re.compile(r'(?:goto\s+\w+|return\b[^;{}]*)\s*;\s*\}?\s*$')


def rejecting_statement(st, negvars):
    """`if (<...negativity test...>) { ...; goto/return ...; }` (an else part may follow): control passes it only for x >= 0"""
    st = st.strip()
    if st.startswith('{') and st.endswith('}'):
        # a plain block that precedes the site: each of its top-level statements has been executed
        inner, i = st[1:-1], 0
        while True:
            i = _skip_ws(inner, i)
            if i >= len(inner):
                return False
            e = max(_stmt_end(inner, i), i + 1)
            if rejecting_statement(inner[i:e], negvars):
                return True
            i = e
    m = re.match(r'\s*if\s*\(', st)
    if not m:
        return False
    rp = match_paren(st, m.end() - 1)
    if rp < 0:
        return False
    cond = ' '.join(st[m.end():rp].split())
    # the then-part: up to a following `else` at depth 0, or the end
    rest = st[rp + 1:]
    depth, i, then, orelse = 0, 0, rest, None
    while i < len(rest):
        c = rest[i]
        if c in '({':
            depth += 1
        elif c in ')}':
            depth -= 1
        elif depth == 0 and re.match(r'else\b', rest[i:]) and (i == 0 or not (rest[i - 1].isalnum() or rest[i - 1] == '_')):
            then, orelse = rest[:i], rest[i + 4:]
            break
        i += 1
    then = then.strip()
    if re.search(r'\b(if|for|while|switch)\b', then) or not LEAVE.search(then):
        return False
    # cond true => leave; so afterwards cond is false: every disjunct of cond is false
    if any((not truth) and is_neg_test(x, negvars) for x, truth in _literals(cond, False)):
        return True
    # this arm leaves, so control passes the chain only through the else part: whatever that guarantees
    return orelse is not None and rejecting_statement(orelse, negvars)


def sign_context(mode, gs):
    """'U' only unsigned, 'S' only signed, 'M' either"""
    if mode in ('U', 'S'):
        return mode
    for cond, pol in gs:
        for x, truth in _literals(cond, pol):
            if x == ('id', 'is_unsigned'):
                return 'U' if truth else 'S'
    return 'M'


def unsigned_mode(body):
    m = re.search(r'\bconst\s+int\s+is_unsigned\s*=\s*([^;]+);', body)
    if not m:
        return None
    v = ' '.join(m.group(1).split())
    return 'U' if v == '1' else 'S' if v == '0' else 'E'


# ------------------------------------------------------------------------------------------------ sites
class Site:
    def __init__(self, kind, pos, desc, callee=None, self_rejecting=False):
        self.kind, self.pos, self.desc, self.callee, self.self_rejecting = kind, pos, desc, callee, self_rejecting


def sites_of(body, fnames):
    out = []
    for m in VERIFY.finditer(body):
        rp = match_paren(body, m.end() - 1)
        if rp < 0:
            raise AnalysisError('%s: unbalanced %s(...)' % (RID, m.group(1)))
        args = [' '.join(a.split()) for a in split_args(body[m.end():rp])]
        if len(args) != 3:
            raise AnalysisError('%s: %s with %d arguments' % (RID, m.group(1), len(args)))
        head = re.match(r'[\s(-]*(?:\([^()]*\)\s*)?(\w+)', args[2])
        api = re.fullmatch(r'(\w+)\s*\(\s*x\s*\)', args[2])
        out.append(Site('verify', m.start(), '%s(%s, %s...)' % (m.group(1), args[1], head.group(1) if head else args[2][:20]),
                        self_rejecting=bool(api and api.group(1) in SELF_REJECTING_API and m.group(1).endswith('_EXC'))))
    for m in re.finditer(r'\breturn\s*\(\s*TPL_TYPE\s*\)\s*([^;]*);', body):
        expr = ' '.join(m.group(1).split())
        if re.fullmatch(r'[\s(]*-\s*1[\s)]*', expr):
            continue        # the error sentinel
        head = re.search(r'[A-Za-z_]\w*', expr)
        out.append(Site('return', m.start(), 'return (TYPE) %s...' % (head.group(0) if head else expr[:20])))
    for m in re.finditer(r'\b(\w+)\s*\(\s*(\w+)\s*\)', body):
        if m.group(1) in fnames and m.group(2) in ('x', 'tmp'):
            out.append(Site('call', m.start(), 'call of %s' % m.group(1), callee=m.group(1)))
    return out


def macro_rejects_negatives(macro_text):
    """True if __PYX__VERIFY_RETURN_INT jumps to raise_neg_overflow for every negative value, i.e. the jump is not nested in a
    condition on sizeof() (a compile-time property of the type pair) or on value != (cast) value (which a wide target passes)."""
    text = strip_c_comments(macro_text).replace('\\\n', ' \n')
    m = re.search(r'#define\s+__PYX__VERIFY_RETURN_INT\s*\([^)]*\)', text)
    if not m:
        raise AnalysisError('%s: __PYX__VERIFY_RETURN_INT vanished from %s' % (RID, MACRO_SECTION))
    body = text[m.end():]
    nxt = re.search(r'^\s*#define\b', body, re.M)
    if nxt:
        body = body[:nxt.start()]
    ok = False
    for g in re.finditer(r'goto\s+raise_neg_overflow\s*;', body):
        gs = guards(body, g.start())
        if gs and not any('sizeof' in c or '!=' in c for c, _p in gs):
            ok = True
    return ok


# ------------------------------------------------------------------------------------------------ the analysis
class Analysis:
    def __init__(self, raw, macro_raw):
        self.text = detemplate(raw)
        self.funcs = functions(self.text)
        if not self.funcs:
            raise AnalysisError('%s: no function definition found in %s' % (RID, SECTION))
        self.macro_ok = macro_rejects_negatives(macro_raw)
        self._var = {}

    def variant(self, f, assign):
        key = (f.name, tuple(sorted((a, assign.get(a, False)) for a in f.atoms)))
        if key not in self._var:
            body = select(f.body, assign)
            mode = unsigned_mode(body)
            self._var[key] = (body, mode, sites_of(body, set(self.funcs) - {f.name}), neg_result_vars(body))
        return self._var[key]

    def checked_here(self, f, assign, pos):
        body, mode, _s, negvars = self.variant(f, assign)
        for cond, pol in guards(body, pos):
            for x, truth in _literals(cond, pol):
                if not truth and is_neg_test(x, negvars):
                    return True
        return any(rejecting_statement(st, negvars) for st in dominators(body, pos))

    def context(self, f, assign, pos):
        body, mode, _s, _n = self.variant(f, assign)
        if mode is None:
            return 'M'
        return sign_context(mode, guards(body, pos))

    def callers(self, name, assign):
        out = []
        for g in self.funcs.values():
            if g.name == name:
                continue
            for s in self.variant(g, assign)[2]:
                if s.kind == 'call' and s.callee == name:
                    out.append((g, s))
        return out

    def checked(self, f, assign, pos, depth=0):
        """(True, None) or (False, explanation chain)"""
        if self.checked_here(f, assign, pos):
            return True, None
        if depth > 4:
            return False, 'call chain too deep'
        cs = self.callers(f.name, assign)
        if not cs:
            return False, 'no negativity rejection in %s' % f.name
        for g, s in cs:
            if self.context(g, assign, s.pos) == 'S':
                continue
            ok, why = self.checked(g, assign, s.pos, depth + 1)
            if not ok:
                return False, 'none in %s, and none before its call in %s%s' % (f.name, g.name, ' ...' if depth == 0 and 'none before' in (why or '') else '')
        return True, None

    def relevant_atoms(self):
        """conditions of the functions that hold delivery sites, and of their transitive callers"""
        names = {f.name for f in self.funcs.values() if VERIFY.search(f.body) or re.search(r'\breturn\s*\(\s*TPL_TYPE\s*\)\s*[^-\s(]', f.body)}
        changed = True
        while changed:
            changed = False
            for g in self.funcs.values():
                if g.name not in names and any(re.search(r'\b%s\s*\(' % re.escape(n), g.body) for n in names):
                    names.add(g.name)
                    changed = True
        atoms = []
        for n in sorted(names):
            for a in self.funcs[n].atoms:
                if a not in atoms:
                    atoms.append(a)
        if len(atoms) > MAX_ATOMS:
            raise AnalysisError('%s: %d independent preprocessor/Tempita conditions, too many to enumerate' % (RID, len(atoms)))
        return atoms

    def run(self):
        """{site key: (function, description, line offset, [violating variants (assign, why)], n variants evaluated)}"""
        atoms = self.relevant_atoms()
        res = {}
        for bits in itertools.product((False, True), repeat=len(atoms)):
            assign = dict(zip(atoms, bits))
            for f in self.funcs.values():
                body, mode, sites, _n = self.variant(f, assign)
                if mode is None:
                    continue
                for s in sites:
                    if s.kind == 'call':
                        continue
                    if self.context(f, assign, s.pos) == 'S':
                        continue
                    key = '%s:%s' % (f.name.replace('TPL_', ''), s.desc)
                    line = self.text.count('\n', 0, f.b0) + body.count('\n', 0, s.pos)
                    ent = res.setdefault(key, [f.name, s.desc, line, [], 0, s.self_rejecting])
                    ent[4] += 1
                    if s.self_rejecting:
                        continue
                    ok, why = self.checked(f, assign, s.pos)
                    if not ok:
                        ent[3].append((assign, why))
        return res


POSITIVE = '''
static CYTHON_INLINE {{TYPE}} __Pyx_PyULong_{{FROM_PY_FUNCTION}}(PyObject *x) {
    const int is_unsigned = 1;
    const digit* digits = __Pyx_PyLong_Digits(x);
    if (sizeof({{TYPE}}) <= sizeof(long)) {
        __PYX_VERIFY_RETURN_INT_EXC({{TYPE}}, long, PyLong_AsLong(x))
    }
    __PYX_VERIFY_RETURN_INT_EXC({{TYPE}}, unsigned long, PyLong_AsUnsignedLong(x))
raise_overflow:
    return __Pyx_raise_overflow_{{FROM_PY_FUNCTION}}();
raise_neg_overflow:
    return __Pyx_raise_neg_overflow_{{FROM_PY_FUNCTION}}();
}

static CYTHON_INLINE {{TYPE}} __Pyx_PyLong_{{FROM_PY_FUNCTION}}(PyObject *x) {
    const {{TYPE}} neg_one = ({{TYPE}}) -1, const_zero = ({{TYPE}}) 0;
    const int is_unsigned = neg_one > const_zero;
    if (is_unsigned) {
        #if CYTHON_USE_PYLONG_INTERNALS
        if (likely(__Pyx_PyLong_IsCompact(x))) {
            __PYX_VERIFY_RETURN_INT({{TYPE}}, __Pyx_compact_pylong, __Pyx_PyLong_CompactValue(x))
        } else if (unlikely(__Pyx_PyLong_IsNeg(x))) {
            goto raise_neg_overflow;
        } else
        #endif
        {
            return __Pyx_PyULong_{{FROM_PY_FUNCTION}}(x);
        }
    } else {
        #if CYTHON_USE_PYLONG_INTERNALS
        if (__Pyx_PyLong_IsCompact(x)) {
            __PYX_VERIFY_RETURN_INT({{TYPE}}, __Pyx_compact_pylong, __Pyx_PyLong_CompactValue(x))
        }
        #endif
    }
raise_neg_overflow:
    return __Pyx_raise_neg_overflow_{{FROM_PY_FUNCTION}}();
}
'''


def rule_neg(ctx, floor=4):
    r = Rule(RID, 'every value CIntFromPy delivers for an unsigned target type lies behind a negativity rejection of the PyLong (in the function or at all of its '
                  'call sites), in every preprocessor variant', floor)
    raw = P4.section_texts(ctx.cat, TC, SECTION).get('impl')
    mac = P4.section_texts(ctx.cat, TC, MACRO_SECTION).get('impl')
    if raw is None or mac is None:
        raise AnalysisError('%s: %s / %s have no implementation part' % (RID, SECTION, MACRO_SECTION))
    an = Analysis(raw.raw, mac.raw)
    if an.macro_ok:
        r.info('__PYX__VERIFY_RETURN_INT now rejects negative values unconditionally; sites with a signed func_type would not need an outer check any more '
               '(still demanded: the magnitude accessors lose the sign)')
    res = an.run()
    for key, (fname, desc, line, bad, n, selfrej) in sorted(res.items()):
        full = '%s:%s:%s' % (TC, SECTION, key)
        r.inst(full, sample='%s (%d variant(s)%s)' % (full, n, ', the C-API converter rejects negative ints itself' if selfrej else ''), nontrivial=not selfrej)
        if bad:
            assign, why = bad[0]
            on = [a for a, v in sorted(assign.items()) if v]
            r.violate(full, REL, raw.line + line,
                      '%s delivers a value for an unsigned {{TYPE}} without a preceding negativity rejection (%s; preprocessor variant: %s; %d of %d variants): '
                      'the range test inside __PYX__VERIFY_RETURN_INT only exists under sizeof({{TYPE}}) < sizeof(func_type) and the digit / compact '
                      'accessors carry no sign, so a negative Python int converts to 2**N + value (e.g. -1 -> 18446744073709551615 for size_t) instead of '
                      'raising OverflowError' % (key, why, ' && '.join(on) or 'all conditions false', len(bad), n))
    pa = Analysis(POSITIVE, mac.raw)
    pres = pa.run()
    fired = sorted(k for k, v in pres.items() if v[3])
    quiet = sorted(k for k, v in pres.items() if not v[3])
    r.positive_control(len(fired) == 2 and any('compact_pylong' in k for k in fired) and any('PyULong' in k and 'PyLong_AsLong' in k for k in fired)
                       and len(quiet) == 1 and 'PyLong_AsUnsignedLong' in quiet[0],
                       'compact fast path before the IsNeg test; signed C-API converter in the unsigned worker that is called from an unchecked site when PyLong '
                       'internals are off (the unsigned C-API converter next to it is accepted)')
    return r


# ====================================================================================================================================
# C05-MODEL: bounded model check of the CIntFromPy / CIntToPy templates on a model machine with a model PyLong
# ====================================================================================================================================
"""(C05-MODEL)  CIntFromPy is a width-parametric template: it mentions the width of {{TYPE}}, of long / long long and of a PyLong digit only
through sizeof(), PyLong_SHIFT and the literal 8.  The rule instantiates the template (Tempita expanded by the checker, pylong_join kept as an
opaque call with its documented meaning), resolves the preprocessor for five build variants (PyLong internals on 3.12 / 3.13, and no internals
on CPython < 3.12, on PyPy-like builds, on 3.13) and evaluates `{{FROM_PY_FUNCTION}}(x)` with the checker's C interpreter (rules/pC03.py) on
model machines with an 8-bit byte, 3-bit PyLong digits and

    TYPE 8 bit / long 16 bit        (TYPE narrower than long:   the range check of __PYX_VERIFY_RETURN_INT does the work)
    TYPE 8 bit / long 8 bit         (TYPE as wide as long:      the digit guards do the work, like long with 30-bit digits)
    TYPE 16 bit / long 8 / ll 16    (TYPE wider than long:      the TYPE-typed joins, like long long on a 32-bit-long platform)
    TYPE 32 bit / long 8 / ll 16    (TYPE wider than long long: __Pyx_LargePyLong_*)

each signed and unsigned, for EVERY Python int of up to three digits (|v| <= 520: the complete input domain of the 2- and 3-digit fast paths
at these widths) plus the complete boundary set around every power of two up to 2**34 and digit patterns of 4..6 digits.  The PyLong accessors
and the C-API converters are modelled by their documented contracts (hooks below; trusted).  Obligation per value v and variant:

    v fits TYPE         =>  the function returns v and no exception is set
    v does not fit      =>  OverflowError is set and the function returns (TYPE) -1
    x is not an int     =>  __index__/__int__ result converted as above, or TypeError and (TYPE) -1
    no undefined C operation is executed

CIntToPy is evaluated the same way for every value of the 8-bit types and the boundary values of the wider ones: the PyLong handed to Python
has the value of the C integer.  NOT decided: the transfer from the model widths to the production widths (parametricity premise, checked
syntactically: no integer literal other than 0, 1, 2, 8 and the documented constants 53/62/30/200 outside the modelled arms), the accessor
macros themselves, the bit-chunk fallback of __Pyx_LargePyLong_* (limited API / PyPy), int.from_bytes() fallback of CIntToPy."""
import ast
from . import pC03 as MC
from . import pC02 as P2

MODEL_RID = 'C05-MODEL'
DIGIT_BITS = 3
MACHINES = (
    ('TYPE narrower than long', 8, 16, 16),
    ('TYPE as wide as long', 8, 8, 16),
    ('TYPE wider than long', 16, 8, 16),
    ('TYPE wider than long long', 32, 8, 16),
)
PP_VARIANTS = (
    ('PyLong internals, 3.12', dict(CYTHON_USE_PYLONG_INTERNALS=1, CYTHON_COMPILING_IN_CPYTHON=1, CYTHON_COMPILING_IN_PYPY=0, CYTHON_COMPILING_IN_LIMITED_API=0, PY_VERSION_HEX=0x030C00F0)),
    ('PyLong internals, 3.13', dict(CYTHON_USE_PYLONG_INTERNALS=1, CYTHON_COMPILING_IN_CPYTHON=1, CYTHON_COMPILING_IN_PYPY=0, CYTHON_COMPILING_IN_LIMITED_API=0, PY_VERSION_HEX=0x030D00F0)),
    ('no internals, CPython 3.11', dict(CYTHON_USE_PYLONG_INTERNALS=0, CYTHON_COMPILING_IN_CPYTHON=1, CYTHON_COMPILING_IN_PYPY=0, CYTHON_COMPILING_IN_LIMITED_API=0, PY_VERSION_HEX=0x030B00F0)),
    ('no internals, PyPy-like 3.11', dict(CYTHON_USE_PYLONG_INTERNALS=0, CYTHON_COMPILING_IN_CPYTHON=0, CYTHON_COMPILING_IN_PYPY=1, CYTHON_COMPILING_IN_LIMITED_API=0, PY_VERSION_HEX=0x030B00F0)),
    ('no internals, CPython 3.13', dict(CYTHON_USE_PYLONG_INTERNALS=0, CYTHON_COMPILING_IN_CPYTHON=1, CYTHON_COMPILING_IN_PYPY=0, CYTHON_COMPILING_IN_LIMITED_API=0, PY_VERSION_HEX=0x030D00F0)),
)
NATIVE_FLAGS = {'Py_ASNATIVEBYTES_DEFAULTS': -1, 'Py_ASNATIVEBYTES_BIG_ENDIAN': 0, 'Py_ASNATIVEBYTES_LITTLE_ENDIAN': 1, 'Py_ASNATIVEBYTES_NATIVE_ENDIAN': 3,
                'Py_ASNATIVEBYTES_UNSIGNED_BUFFER': 4, 'Py_ASNATIVEBYTES_REJECT_NEGATIVE': 8}       # cpython/longobject.h (3.13)


def pp_truth(cfg):
    def truth(cond):
        c = re.sub(r'defined\s*\(\s*(\w+)\s*\)|defined\s+(\w+)', lambda m: '1' if (m.group(1) or m.group(2)) in cfg.get('__defined__', ()) else '0', cond)
        env = dict(cfg)
        env.setdefault('__PYX_LIMITED_VERSION_HEX', cfg.get('PY_VERSION_HEX', 0))
        try:
            return bool(cexpr.evaluate(cexpr.parse(c), env))
        except (cexpr.ParseError, cexpr.EvalError) as e:
            raise AnalysisError('%s: preprocessor condition `%s` is not modelled (%s)' % (MODEL_RID, cond, e))
    return truth


def model_machine(tbits, signed, lbits, llbits, sizebits=16):
    return MC.Model({'char': (8, True), 'short': (8, True), 'int': (8, True), 'long': (lbits, True), 'long long': (llbits, True),
                     'size_t': (sizebits, False), 'Py_ssize_t': (sizebits, True), 'sa_compact_t': (16, True), 'sa_ucompact_t': (16, False),
                     'digit': (8, False), 'sdigit': (8, True), 'sa_t': (tbits, signed)}, '%d-bit TYPE, %d-bit long, %d-bit long long' % (tbits, lbits, llbits))


def _digits(v):
    v, out = abs(v), []
    while v:
        out.append(v & ((1 << DIGIT_BITS) - 1))
        v >>= DIGIT_BITS
    return out


class _State:
    def __init__(self):
        self.err = None
        self.little = True       # byte order of the model machine


def _pyobj(v):
    return MC.Opaque('pyobj', v)


def model_hooks(state, join_default):
    def obj(it, a, env):
        o = it.ev(a, env)
        if isinstance(o, MC.Opaque) and o.kind == 'null':
            raise MC.CUndefined('a NULL PyObject* is dereferenced')
        if not (isinstance(o, MC.Opaque) and o.kind == 'pyobj'):
            raise MC.Unsupported('a PyObject* argument is not a model object: %r' % (o,))
        return o

    def ival(it, a, env):
        o = obj(it, a, env)
        if not isinstance(o.v, int):
            raise MC.CUndefined('a PyLong accessor is applied to an object that is not an int')
        return o.v

    def T(it, name):
        return it.model.ctype(name)

    def mk(v, t):
        return (MC.wrap(v, t[0], t[1]), t[0], t[1])

    def boolv(it, b):
        return (int(bool(b)), it.model.int_t[0], True)

    def as_c(tname, reject_neg=False, exc='OverflowError'):
        def h(it, args, env):
            v = ival(it, args[0], env)
            t = T(it, tname)
            if (reject_neg and v < 0) or not MC.fits(v, t[0], t[1]):
                state.err = state.err or exc
                return mk(-1, t)
            return mk(v, t)
        return h

    def seterr(it, args, env):
        e = it.ev(args[0], env)
        if not (isinstance(e, MC.Opaque) and e.kind == 'exc'):
            raise MC.Unsupported('PyErr_* with an unknown exception object')
        state.err = e.v
        return None

    def join(it, args, env):
        n = it._int(it.ev(args[0], env))[0]
        arr = it.ev(args[1], env)
        if not (isinstance(arr, MC.Opaque) and arr.kind == 'array'):
            raise MC.Unsupported('pylong_join of a non-array')
        tname = join_default
        if len(args) > 2:
            if args[2][0] != 'id':
                raise MC.Unsupported('pylong_join type argument')
            tname = args[2][1].replace('unsigned_', 'unsigned ').replace('long_long', 'long long').replace('PY_LONG_LONG', 'long long')
        t = T(it, tname)
        vals = arr.v[0]
        if n > len(vals):
            raise MC.CUndefined('pylong_join reads %d digits of a PyLong that has %d' % (n, len(vals)))
        acc = 0
        for i in range(n - 1, -1, -1):
            if i != n - 1:
                if t[1] and not MC.fits(acc << DIGIT_BITS, t[0], True):
                    raise MC.CUndefined('joining %d digits shifts into the sign bit of the %d-bit signed join type' % (n, t[0]))
                acc = MC.wrap(acc << DIGIT_BITS, t[0], t[1])
            acc = MC.wrap(acc | vals[i], t[0], t[1])
        return (acc, t[0], t[1])

    def native_bytes(it, args, env):
        v = ival(it, args[0], env)
        ref = it.ev(args[1], env)
        n = it._int(it.ev(args[2], env))[0]
        flags = it._int(it.ev(args[3], env))[0]
        if not isinstance(ref, MC.Ref):
            raise MC.Unsupported('PyLong_AsNativeBytes: buffer is not the address of a variable')
        if flags == -1:
            flags = 3
        if (flags & 8) and v < 0:
            state.err = state.err or 'ValueError'
            return mk(-1, T(it, 'Py_ssize_t'))
        t = ref.cell.t
        ref.cell.v = MC.wrap(v, t[0], t[1])
        bits = (v.bit_length() if v >= 0 else (-v - 1).bit_length()) + 1
        if (flags & 4) and v >= 0:
            bits = max(v.bit_length(), 1)
        return mk((bits + 7) // 8, T(it, 'Py_ssize_t'))

    def as_byte_array(it, args, env):
        v = ival(it, args[0], env)
        ref = it.ev(args[1], env)
        n = it._int(it.ev(args[2], env))[0]
        is_signed = it._int(it.ev(args[4], env))[0]
        if not isinstance(ref, MC.Ref):
            raise MC.Unsupported('_PyLong_AsByteArray: buffer is not the address of a variable')
        t = ref.cell.t
        little = it._int(it.ev(args[3], env))[0]
        ok = (v >= 0 or is_signed) and MC.fits(v, 8 * n, bool(is_signed))
        stored = MC.wrap(v, 8 * n, False)
        if bool(little) != state.little:
            stored = int.from_bytes(stored.to_bytes(n, 'little'), 'big')        # written in the other byte order than the machine reads
        ref.cell.v = MC.wrap(stored, t[0], t[1])
        if not ok:
            state.err = state.err or 'OverflowError'
            return mk(-1, it.model.int_t)
        return mk(0, it.model.int_t)

    def number_long(it, args, env):
        o = obj(it, args[0], env)
        if isinstance(o.v, int):
            return o
        if isinstance(o.v, tuple) and o.v[0] == 'index':
            return _pyobj(o.v[1])
        state.err = state.err or 'TypeError'
        return MC.NULL

    def noop(it, args, env):
        return None
    h = {
        '__Pyx_PyLong_IsNeg': lambda it, a, e: boolv(it, ival(it, a[0], e) < 0),
        '__Pyx_PyLong_IsZero': lambda it, a, e: boolv(it, ival(it, a[0], e) == 0),
        '__Pyx_PyLong_IsPos': lambda it, a, e: boolv(it, ival(it, a[0], e) > 0),
        '__Pyx_PyLong_IsNonNeg': lambda it, a, e: boolv(it, ival(it, a[0], e) >= 0),
        '__Pyx_PyLong_IsCompact': lambda it, a, e: boolv(it, len(_digits(ival(it, a[0], e))) <= 1),
        '__Pyx_PyLong_CompactValue': lambda it, a, e: mk(ival(it, a[0], e), T(it, 'sa_compact_t')),
        '__Pyx_PyLong_CompactValueUnsigned': lambda it, a, e: mk((_digits(ival(it, a[0], e)) or [0])[0], T(it, 'sa_ucompact_t')),
        '__Pyx_PyLong_DigitCount': lambda it, a, e: mk(len(_digits(ival(it, a[0], e))), T(it, 'Py_ssize_t')),
        '__Pyx_PyLong_Digits': lambda it, a, e: MC.Opaque('array', (_digits(ival(it, a[0], e)), T(it, 'digit'))),
        'Py_SIZE': lambda it, a, e: mk((1 if ival(it, a[0], e) >= 0 else -1) * len(_digits(ival(it, a[0], e))), T(it, 'Py_ssize_t')),
        'PyLong_AsLong': as_c('long'), 'PyLong_AsUnsignedLong': as_c('unsigned long', True), 'PyLong_AsLongLong': as_c('long long'),
        'PyLong_AsUnsignedLongLong': as_c('unsigned long long', True), 'PyLong_AsInt': as_c('int'), 'PyLong_AsSsize_t': as_c('Py_ssize_t'),
        'PyLong_AsSize_t': as_c('size_t', True),
        'PyObject_RichCompareBool': lambda it, a, e: boolv(it, ival(it, a[0], e) < 0),
        'PyErr_Occurred': lambda it, a, e: boolv(it, state.err is not None),
        'PyErr_Format': seterr, 'PyErr_SetString': seterr,
        'PyLong_Check': lambda it, a, e: boolv(it, isinstance(obj(it, a[0], e).v, int)),
        'PyLong_CheckExact': lambda it, a, e: boolv(it, isinstance(obj(it, a[0], e).v, int)),
        '__Pyx_PyNumber_Long': number_long,
        'Py_DECREF': noop, 'Py_XDECREF': noop, 'Py_INCREF': noop,
        '__imported_pylong_join': join,
        'PyLong_AsNativeBytes': native_bytes, '_PyLong_AsByteArray': as_byte_array,
        '__sa_first_byte': lambda it, a, e: boolv(it, it._int(it.ev(a[0], e))[0] & 0xff if state.little else 0),
    }
    return h


def model_values(tbits):
    vals = set()
    full = 520 if tbits <= 16 else 70
    vals |= set(range(-full, full + 1))
    for k in range(6, tbits + 3):
        for d in (-2, -1, 0, 1, 2):
            vals.add((1 << k) + d)
            vals.add(-(1 << k) + d)
    # digit patterns of 4..6 digits with digits from {0, 7} and a top digit from {1, 7}
    if tbits > 8:
        for nd in (4, 5, 6):
            for top in (1, 7):
                for mask in range(1 << (nd - 1)):
                    v = top
                    for i in range(nd - 1):
                        v = (v << DIGIT_BITS) | (7 if mask >> i & 1 else 0)
                    vals.add(v)
                    vals.add(-v)
    return sorted(vals)


def instantiate_from_py(ctx, raw=None, verify_raw=None):
    """(C text of CIntFromPy with Tempita expanded and comments stripped, macro definitions of CIntFromPyVerify)"""
    if raw is None:
        raw = P4.section_texts(ctx.cat, TC, SECTION)['impl'].raw
    if verify_raw is None:
        verify_raw = '\n'.join(s.raw for s in P4.section_texts(ctx.cat, TC, MACRO_SECTION).values())
    text = P2.tpl_expand(P2.tpl_tree(raw), {'TYPE': 'sa_t', 'FROM_PY_FUNCTION': 'sa_from', 'IS_ENUM': False})
    return _normalise(strip_c_comments(text)), MC.macros(_normalise(strip_c_comments(verify_raw)))


ENDIAN_PROBE = re.compile(r'\(\s*int\s*\)\s*\*\s*\(\s*unsigned\s+char\s*\*\s*\)\s*&\s*(\w+)')


def _normalise(text):
    """spellings the shared expression parser does not know: typedef names that do not end in _t, and the byte-order probe `(int)*(unsigned char *)&one`
    (replaced by a call that the model answers with the byte order of the model machine)"""
    text = re.sub(r'\b__Pyx_compact_pylong\b', 'sa_compact_t', text)
    text = re.sub(r'\b__Pyx_compact_upylong\b', 'sa_ucompact_t', text)
    text = ENDIAN_PROBE.sub(r'__sa_first_byte(\1)', text)
    text = re.sub(r'\(\s*(?:unsigned\s+)?char\s*\*\s*\)\s*&', '&', text)          # a pointer cast does not change what is pointed to
    return re.sub(r'\(\s*PyLongObject\s*\*\s*\)', '', text)


def join_default_type(ctx):
    from ..engine import tables
    fn = tables.find_function(ctx.parse('Cython/Utility/__init__.py'), 'pylong_join')
    if fn is None:
        raise AnalysisError('%s: Cython.Utility.pylong_join vanished' % MODEL_RID)
    names = [a.arg for a in fn.args.args]
    defaults = dict(zip(names[len(names) - len(fn.args.defaults):], fn.args.defaults))
    d = defaults.get('join_type')
    if not (isinstance(d, ast.Constant) and isinstance(d.value, str)):
        raise AnalysisError('%s: pylong_join has no constant default join type' % MODEL_RID)
    return d.value


def from_py_model(text, vmacros, join_default, entry='sa_from', variants=PP_VARIANTS, machines=MACHINES, signs=(True, False), size_is_type=False,
                  with_objects=True, what='TYPE'):
    """-> (runs, [(key, message)] problems (first per kind and variant), [notes]).  size_is_type: the type under test is Py_ssize_t itself
    (size_t / Py_ssize_t / SIZEOF_SIZE_T of the model machine follow its width)"""
    probs, notes, runs = [], [], 0
    seen = set()
    cache = {}
    for vname, cfg in variants:
        first_variant = vname == variants[0][0]
        for mname, tbits, lbits, llbits in machines:
            cfg2 = dict(cfg)
            cfg2['PyLong_SHIFT'] = DIGIT_BITS
            cfg2['SIZEOF_SIZE_T'] = (tbits if size_is_type else 16) // 8
            sel = MC.select_variant(text, pp_truth(cfg2))
            funcs = MC.functions(sel)
            if entry not in funcs:
                raise AnalysisError('%s: the instantiated template does not define %s in the variant "%s"' % (MODEL_RID, entry, vname))
            for signed in signs:
                model = model_machine(tbits, signed, lbits, llbits, tbits if size_is_type else 16)
                state = _State()
                state.little = not (tbits > llbits and not signed)       # the widest machine is evaluated big-endian for the unsigned TYPE, little-endian for the signed one
                it = MC.Interp(model, funcs, vmacros, model_hooks(state, join_default), cache)
                it.globals = {'PyLong_SHIFT': (DIGIT_BITS, 8, True), 'Py_False': MC.Opaque('const', 'Py_False'), 'Py_LT': (0, 8, True),
                              'PyExc_OverflowError': MC.Opaque('exc', 'OverflowError'), 'PyExc_TypeError': MC.Opaque('exc', 'TypeError'),
                              'PyExc_RuntimeError': MC.Opaque('exc', 'RuntimeError'), 'PyExc_ValueError': MC.Opaque('exc', 'ValueError')}
                for k, v in NATIVE_FLAGS.items():
                    it.globals[k] = (v, 8, True)
                vals = model_values(tbits)
                if not first_variant:
                    vals = [v for v in vals if abs(v) <= 80 or (abs(v) & (abs(v) - 1)) == 0 or (abs(v) + 1) & abs(v) == 0 or ((abs(v) - 1) & (abs(v) - 2)) == 0]
                lo, hi = MC.lo_hi(tbits, signed)
                objs = [(v, _pyobj(v), v) for v in vals]
                if first_variant and with_objects:
                    objs += [('an object with __index__ returning %d' % v, _pyobj(('index', v)), v) for v in (5, -3, hi, hi + 1)]
                    objs.append(('an object that is not a number', _pyobj(('other',)), None))
                for label, o, v in objs:
                    runs += 1
                    state.err = None
                    it.steps = 0
                    it.trace = []
                    where = 'converting %s to %s %d-bit %s (%s; build variant: %s)' % (label, 'a signed' if signed else 'an unsigned', tbits, what, mname, vname)
                    try:
                        r = it.call_func(funcs[entry], [o])
                    except MC.CUndefined as u:
                        k = ('undefined', vname)
                        if k not in seen:
                            seen.add(k)
                            probs.append(('undefined', '%s executes undefined behaviour in %s: %s' % (where, '>'.join(it.trace[-2:]), u)))
                        continue
                    except MC.Unsupported as u:
                        note = 'not decided: %s reaches C text outside the modelled subset in %s (%s)' % (mname + ', ' + vname, '>'.join(it.trace[-2:]), u)
                        if note not in notes:
                            notes.append(note)
                        break
                    sentinel = MC.wrap(-1, tbits, signed)
                    kind = msg = None
                    if v is None:
                        if state.err != 'TypeError' or r[0] != sentinel:
                            kind, msg = 'non-int', '%s: expected TypeError and (TYPE) -1, got %s and %d' % (where, state.err or 'no exception', r[0])
                    elif lo <= v <= hi:
                        if state.err is not None:
                            kind, msg = 'spurious-error', '%s: the value fits (%d..%d) but %s is raised (through %s)' % (where, lo, hi, state.err, '>'.join(it.trace[-2:]))
                        elif r[0] != v:
                            kind, msg = 'wrong-value', '%s: the value fits but the function returns %d without an exception (through %s)' % (where, r[0], '>'.join(it.trace[-2:]))
                    else:
                        if state.err is None:
                            kind, msg = 'unflagged', ('%s: the value does not fit (%d..%d) but no exception is set and %d is returned (through %s): silent wrap-around instead of OverflowError'
                                                      % (where, lo, hi, r[0], '>'.join(it.trace[-2:])))
                        elif state.err != 'OverflowError':
                            kind, msg = 'wrong-exception', '%s: the value does not fit; expected OverflowError, got %s' % (where, state.err)
                        elif r[0] != sentinel:
                            kind, msg = 'sentinel', '%s: OverflowError is set but the function returns %d instead of (TYPE) -1: the caller does not notice the error' % (where, r[0])
                    if kind and (kind, vname) not in seen:
                        seen.add((kind, vname))
                        probs.append((kind, msg))
    return runs, probs, notes


MODEL_POSITIVE = '''
static CYTHON_INLINE sa_t sa_from(PyObject *x) {
    const digit* digits = __Pyx_PyLong_Digits(x);
    const Py_ssize_t size = __Pyx_PyLong_DigitCount(x);
    if (size == 0) return 0;
    if (size == 3 && (8 * sizeof(sa_t) > 2 * PyLong_SHIFT)) {
        return (sa_t) __imported_pylong_join(3, digits, sa_t);
    }
    __PYX_VERIFY_RETURN_INT_EXC(sa_t, long, PyLong_AsLong(x))
raise_neg_overflow:
raise_overflow:
    PyErr_SetString(PyExc_OverflowError, "x");
    return (sa_t) -1;
}
'''


def rule_model(ctx, floor=30):
    r = Rule(MODEL_RID, 'CIntFromPy returns exactly v for every Python int that fits and raises OverflowError / returns (TYPE) -1 otherwise, and CIntToPy hands back the value of the C integer: '
                        'bounded model check of the instantiated templates on model machines (8..32-bit TYPE, 3-bit digits), five preprocessor variants', floor)
    text, vmacros = instantiate_from_py(ctx)
    jd = join_default_type(ctx)
    raw = P4.section_texts(ctx.cat, TC, SECTION)['impl']
    runs, probs, notes = from_py_model(text, vmacros, jd)
    for vname, _cfg in PP_VARIANTS:
        for mname, tbits, lbits, llbits in MACHINES:
            r.inst('%s:%s:%s:%s' % (TC, SECTION, vname, mname), sample='%s: %s / %s' % (SECTION, vname, mname))
    for n in notes:
        r.info(n)
    for kind, msg in probs:
        r.violate('%s:%s:%s' % (TC, SECTION, kind), REL, raw.line, 'CIntFromPy: ' + msg)
    # ---- the hand-written Py_ssize_t converter behind Py_ssize_t / Py_hash_t / index conversions
    stext = _ssize_text(ctx)
    sline = P4.section_texts(ctx.cat, TC, 'TypeConversions')['impl'].line
    smach = (('8-bit Py_ssize_t', 8, 8, 16), ('16-bit Py_ssize_t', 16, 8, 16))
    sruns, sprobs, snotes = from_py_model(stext, {}, jd, entry='__Pyx_PyIndex_AsSsize_t', variants=(PP_VARIANTS[0], PP_VARIANTS[2]), machines=smach, signs=(True,),
                                          size_is_type=True, with_objects=True, what='Py_ssize_t')
    for vname in (PP_VARIANTS[0][0], PP_VARIANTS[2][0]):
        for m in smach:
            r.inst('%s:TypeConversions:__Pyx_PyIndex_AsSsize_t:%s:%s' % (TC, vname, m[0]), sample='__Pyx_PyIndex_AsSsize_t: %s / %s' % (vname, m[0]))
    for n in snotes:
        r.info(n)
    for kind, msg in sprobs:
        r.violate('%s:TypeConversions:__Pyx_PyLong_AsSsize_t:%s' % (TC, kind), REL, sline, '__Pyx_PyIndex_AsSsize_t / __Pyx_PyLong_AsSsize_t: ' + msg)
    # ---- to Python
    truns, tprobs, tnotes = to_py_model(ctx)
    for vname, _c in TO_PY_VARIANTS:
        for mname, tbits, lbits, llbits in MACHINES:
            r.inst('%s:CIntToPy:%s:%s' % (TC, vname, mname), sample='CIntToPy: %s / %s' % (vname, mname))
    for n in tnotes:
        r.info(n)
    tline = P4.section_texts(ctx.cat, TC, 'CIntToPy')['impl'].line
    for kind, msg in tprobs:
        r.violate('%s:CIntToPy:%s' % (TC, kind), REL, tline, 'CIntToPy: ' + msg)
    r.info('%d + %d + %d conversions evaluated' % (runs, sruns, truns))
    pruns, pprobs, pnotes = from_py_model(MODEL_POSITIVE, vmacros, jd, variants=PP_VARIANTS[:1], machines=MACHINES[1:2])
    r.positive_control(any(k in ('unflagged', 'undefined', 'wrong-value') for k, _m in pprobs), 'three 3-bit digits joined into an 8-bit TYPE without a range check')
    return r


def _ssize_text(ctx):
    raw = P4.section_texts(ctx.cat, TC, 'TypeConversions')['impl'].raw
    out = []
    for fname in ('__Pyx_PyLong_AsSsize_t', '__Pyx_PyIndex_AsSsize_t'):
        m = re.search(r'^static\s+CYTHON_INLINE\s+Py_ssize_t\s+%s\s*\([^)]*\)\s*\{' % fname, raw, re.M)
        if not m:
            raise AnalysisError('%s: %s vanished from TypeConversion.c::TypeConversions' % (MODEL_RID, fname))
        depth, j = 0, m.end() - 1
        while j < len(raw):
            if raw[j] == '{' and raw[j:j + 2] != '{{':
                depth += 1
            elif raw[j] == '}' and raw[j - 1:j + 1] != '}}' and raw[j:j + 2] != '}}':
                depth -= 1
                if depth == 0:
                    break
            j += 1
        out.append(raw[m.start():j + 1])
    text = '{{py: from Cython.Utility import pylong_join }}\n' + '\n\n'.join(out)
    text = P2.tpl_expand(P2.tpl_tree(text), {})
    text = _normalise(strip_c_comments(text))
    # PyNumber_Index(b) of the model objects is the contract of __Pyx_PyNumber_Long
    return text.replace('PyNumber_Index(', '__Pyx_PyNumber_Long(')


TO_PY_VARIANTS = (PP_VARIANTS[0], PP_VARIANTS[1], PP_VARIANTS[3])


def to_py_hooks(state):
    def from_c(tname):
        def h(it, args, env):
            v = it._int(it.ev(args[0], env))
            t = it.model.ctype(tname)
            return _pyobj(MC.wrap(v[0], t[0], t[1]))
        return h

    def from_bytes(signed_arg):
        def h(it, args, env):
            ref = it.ev(args[0], env)
            n = it._int(it.ev(args[1], env))[0]
            if not isinstance(ref, MC.Ref):
                raise MC.Unsupported('byte-array conversion of something that is not the address of a variable')
            if signed_arg == 'flag':
                little = it._int(it.ev(args[2], env))[0]
                is_signed = bool(it._int(it.ev(args[3], env))[0])
                if bool(little) != state.little:
                    raise MC.CUndefined('the byte order flag passed to _PyLong_FromByteArray is not the byte order of the machine')
            else:
                is_signed = signed_arg
            c = ref.cell
            if c.t[0] != 8 * n:
                raise MC.CUndefined('%d bytes are read from a %d-bit variable' % (n, c.t[0]))
            return _pyobj(MC.wrap(c.v, c.t[0], is_signed))
        return h
    return {'PyLong_FromLong': from_c('long'), 'PyLong_FromUnsignedLong': from_c('unsigned long'), 'PyLong_FromLongLong': from_c('long long'),
            'PyLong_FromUnsignedLongLong': from_c('unsigned long long'), 'PyLong_FromSsize_t': from_c('Py_ssize_t'), 'PyLong_FromSize_t': from_c('size_t'),
            '_PyLong_FromByteArray': from_bytes('flag'), 'PyLong_FromNativeBytes': from_bytes(True), 'PyLong_FromUnsignedNativeBytes': from_bytes(False),
            '__sa_first_byte': lambda it, a, e: (int(state.little), 8, True)}


def to_py_model(ctx, raw=None):
    if raw is None:
        raw = P4.section_texts(ctx.cat, TC, 'CIntToPy')['impl'].raw
    text = _normalise(strip_c_comments(P2.tpl_expand(P2.tpl_tree(raw), {'TYPE': 'sa_t', 'TO_PY_FUNCTION': 'sa_to'})))
    probs, notes, runs, seen, cache = [], [], 0, set(), {}
    for vname, cfg in TO_PY_VARIANTS:
        sel = MC.select_variant(text, pp_truth(cfg))
        funcs = MC.functions(sel)
        if 'sa_to' not in funcs:
            raise AnalysisError('%s: CIntToPy does not define {{TO_PY_FUNCTION}} in the variant "%s"' % (MODEL_RID, vname))
        for mname, tbits, lbits, llbits in MACHINES:
            for signed in (True, False):
                model = model_machine(tbits, signed, lbits, llbits)
                state = _State()
                state.little = not (tbits > llbits and signed)
                it = MC.Interp(model, funcs, {}, to_py_hooks(state), cache)
                lo, hi = MC.lo_hi(tbits, signed)
                if tbits <= 8:
                    vals = range(lo, hi + 1)
                else:
                    vals = set(range(-130, 131)) | {lo, lo + 1, lo + 2, hi - 2, hi - 1, hi}
                    for k in range(6, tbits + 1):
                        vals |= {(1 << k) + d for d in (-1, 0, 1)} | {-(1 << k) + d for d in (-1, 0, 1)}
                    vals = sorted(v for v in vals if lo <= v <= hi)
                for v in vals:
                    runs += 1
                    it.steps, it.trace = 0, []
                    where = 'converting the C value %d of %s %d-bit TYPE to Python (%s; build variant: %s)' % (v, 'a signed' if signed else 'an unsigned', tbits, mname, vname)
                    try:
                        r = it.call_func(funcs['sa_to'], [(v, tbits, signed)])
                    except MC.CUndefined as u:
                        if ('undefined', vname) not in seen:
                            seen.add(('undefined', vname))
                            probs.append(('undefined', '%s: %s' % (where, u)))
                        continue
                    except MC.Unsupported as u:
                        note = 'not decided: CIntToPy, %s, %s: C text outside the modelled subset (%s)' % (mname, vname, u)
                        if note not in notes:
                            notes.append(note)
                        break
                    got = r.v if isinstance(r, MC.Opaque) and r.kind == 'pyobj' else None
                    if got != v and ('wrong-value', vname) not in seen:
                        seen.add(('wrong-value', vname))
                        probs.append(('wrong-value', '%s yields the Python int %s' % (where, got)))
    return runs, probs, notes
