"""C20 rule of the eighth strengthening round (session K4).

C20-SIMPLE - the `is_simple()` contract of expression nodes.  `coerce_to_simple()` leaves a node alone when `is_simple()` answers true, and every consumer that
             needs a value more than once (chained assignment, chained comparison, and/or operands, slice bounds, CloneNode ...) then refers to `node.result()`
             several times.  That is only an evaluate-once reference when the C expression `result()` stands for performs no operation: either the node's value
             sits in a temporary, or the C expression is pasted together from the results of operands that are themselves simple.  For every expression node class
             the rule extracts
               (a) the boolean function `is_simple()` computes (MRO-resolved, helper methods and `result_in_temp()` inlined, local aliases followed), as the set of
                   its paths over atoms `self.is_temp`, `<operand>.is_simple()`, `<operand>.result_in_temp()`, `self.<operand>` present, and free atoms for everything else,
               (b) the operands (members of `subexprs`, i.e. the sub-expressions the node itself evaluates) whose `result()` the node pastes into its own
                   `calculate_result_code()` / `result()` (helpers inlined),
             and decides over ALL valuations of the atoms: there is none in which is_simple() is true, the node is not in a temporary, the operand is present and
             nothing establishes the operand as simple.  A witness valuation means: `x = y = arr[f()]`, `lo <= arr[f()] <= hi`, `arr[f()] or z` evaluate f() once
             per use.
             Second obligation (same evaluator): `coerce_to_simple()` / `coerce_to_temp()` return the node itself only on paths on which `is_simple()` /
             `result_in_temp()` (inlined, after the assignments the method made to operands) is true for every valuation; every other path returns
             `self.coerce_to_temp(...)` / a CoerceToTempNode of the node.
"""
import ast
import itertools

from ..core import Rule, AnalysisError

RESULT_CALLS = ('result', 'py_result', 'pythran_result', 'result_as', 'target_code', 'calculate_result_code', 'move_result_rhs', 'move_result_rhs_as')
SIMPLE_QUERIES = {'is_simple': 'simple', 'try_is_simple': 'simple', 'result_in_temp': 'temp'}
MAX_ATOMS = 14
MAX_DEPTH = 5


class GiveUp(Exception):
    pass


class _Need(Exception):
    def __init__(self, atom):
        self.atom = atom


class _Ret(Exception):
    def __init__(self, value):
        self.value = value


class Evaluator:
    """Path-complete evaluation of a small boolean method over atoms.  A run evaluates the method under a partial valuation; an undecided atom aborts the run
    (_Need) and the driver branches on it, so every complete path is visited exactly once."""

    def __init__(self, ix, c, children, inline_self_simple=True):
        self.ix, self.c, self.children = ix, c, set(children)
        self.inline_self_simple = inline_self_simple

    # ---- driver
    def paths(self, fn, preset=None):
        """-> [(valuation dict, return value)]; return value: bool, or ('node', description) for non-boolean returns"""
        out = []
        todo = [dict(preset or {})]
        while todo:
            val = todo.pop()
            if len(val) > MAX_ATOMS:
                raise GiveUp('more than %d atoms' % MAX_ATOMS)
            try:
                res = self.run_fn(fn, val, {}, 0, top=True)
                out.append((val, res))
            except _Need as n:
                for b in (True, False):
                    v2 = dict(val)
                    v2[n.atom] = b
                    todo.append(v2)
        return out

    def atom(self, key, val):
        if key not in val:
            raise _Need(key)
        return val[key]

    # ---- statements
    def run_fn(self, fn, val, env, depth, top=False):
        if depth > MAX_DEPTH:
            raise GiveUp('inlining deeper than %d' % MAX_DEPTH)
        try:
            self.block(fn.body, val, env, depth)
        except _Ret as r:
            return r.value
        return False        # falls off the end: None

    def block(self, stmts, val, env, depth):
        for st in stmts:
            if isinstance(st, ast.Expr) and isinstance(st.value, ast.Constant):
                continue
            if isinstance(st, ast.Pass):
                continue
            if isinstance(st, ast.Return):
                raise _Ret(self.ret_value(st.value, val, env, depth))
            if isinstance(st, ast.If):
                if self.truth(st.test, val, env, depth):
                    self.block(st.body, val, env, depth)
                else:
                    self.block(st.orelse, val, env, depth)
                continue
            if isinstance(st, ast.Assign) and len(st.targets) == 1:
                t = st.targets[0]
                if isinstance(t, ast.Name):
                    env[t.id] = self.subst(st.value, env)
                    continue
                ch = self.child_of(t, env)
                if ch is not None:
                    self.assign_child(ch, st.value, val, env)
                    continue
                raise GiveUp('assignment to %s' % ast.unparse(t))
            if isinstance(st, ast.Try):
                # `try: return self.is_simple()  except Exception: return False` - the exceptional exit answers "not simple", which is the safe answer
                self.block(st.body, val, env, depth)
                self.block(st.orelse, val, env, depth)
                continue
            raise GiveUp('statement %s' % type(st).__name__)

    def assign_child(self, ch, value, val, env):
        """self.<ch> = self.<ch>.coerce_to_temp(env) / coerce_to_simple(env): the operand is in a temporary / simple from here on"""
        v = self.subst(value, env)
        if isinstance(v, ast.Call) and isinstance(v.func, ast.Attribute) and self.child_of(v.func.value, env) == ch:
            if v.func.attr == 'coerce_to_temp':
                val[('temp', ch)] = True
                val[('simple', ch)] = True
                return
            if v.func.attr == 'coerce_to_simple':
                val[('simple', ch)] = True
                return
        raise GiveUp('operand %s reassigned to %s' % (ch, ast.unparse(value)))

    def ret_value(self, e, val, env, depth):
        if e is None:
            return False
        return self.truth(e, val, env, depth)

    # ---- expressions
    def subst(self, e, env):
        if isinstance(e, ast.Name) and e.id in env:
            return env[e.id]
        return e

    def child_of(self, e, env):
        e = self.subst(e, env)
        if isinstance(e, ast.Attribute) and isinstance(e.value, ast.Name) and e.value.id == 'self' and e.attr in self.children:
            return e.attr
        return None

    def is_self(self, e, env):
        e = self.subst(e, env)
        return isinstance(e, ast.Name) and e.id == 'self'

    def text(self, e, env):
        class Sub(ast.NodeTransformer):
            def visit_Name(s, n):
                return env.get(n.id, n) if n.id in env else n
        import copy
        return ast.unparse(Sub().visit(copy.deepcopy(e)))

    def truth(self, e, val, env, depth):
        e = self.subst(e, env)
        if isinstance(e, ast.Constant):
            return bool(e.value)
        if isinstance(e, ast.BoolOp):
            if isinstance(e.op, ast.And):
                for v in e.values:
                    if not self.truth(v, val, env, depth):
                        return False
                return True
            for v in e.values:
                if self.truth(v, val, env, depth):
                    return True
            return False
        if isinstance(e, ast.UnaryOp) and isinstance(e.op, ast.Not):
            return not self.truth(e.operand, val, env, depth)
        if isinstance(e, ast.IfExp):
            return self.truth(e.body if self.truth(e.test, val, env, depth) else e.orelse, val, env, depth)
        if isinstance(e, ast.Name) and e.id == 'self':
            return True
        if (isinstance(e, ast.Compare) and len(e.ops) == 1 and isinstance(e.ops[0], (ast.Is, ast.IsNot)) and isinstance(e.comparators[0], ast.Constant)
                and e.comparators[0].value is None and self.child_of(e.left, env) is not None):
            present = self.atom(('present', self.child_of(e.left, env)), val)
            return present if isinstance(e.ops[0], ast.IsNot) else not present
        if isinstance(e, ast.Attribute):
            ch = self.child_of(e, env)
            if ch is not None:
                return self.atom(('present', ch), val)
            if self.is_self(e.value, env) and e.attr == 'is_temp':
                return self.atom(('self_temp',), val)
            if e.attr == 'is_temp' and self.child_of(e.value, env) is not None:
                return self.atom(('temp', self.child_of(e.value, env)), val)
            return self.atom(('free', self.text(e, env)), val)
        if isinstance(e, ast.Call) and isinstance(e.func, ast.Attribute):
            recv, name = e.func.value, e.func.attr
            ch = self.child_of(recv, env)
            if ch is not None and name in SIMPLE_QUERIES and not e.args:
                return self.atom((SIMPLE_QUERIES[name], ch), val)
            target = None
            if self.is_self(recv, env) and not e.args and not e.keywords:
                target = self.ix.find_method(self.c, name)
            elif (isinstance(recv, ast.Name) and len(e.args) == 1 and self.is_self(e.args[0], env) and not e.keywords
                  and recv.id in self.c.module.classes):
                target = self.ix.find_method(self.c.module.classes[recv.id], name)        # NameNode.is_simple(self)
            if target is not None:
                if name in SIMPLE_QUERIES and not self.inline_self_simple:
                    return self.atom(('self_' + SIMPLE_QUERIES[name],), val)
                return self.run_fn(target[1], val, {}, depth + 1)
            return self.atom(('free', self.text(e, env)), val)
        return self.atom(('free', self.text(e, env)), val)


def pasted_operands(ix, c, children):
    """operands (members of `children`) whose result() the class pastes into its own result expression -> {operand: line}"""
    out = {}
    seen = set()

    def scan(fn, depth):
        if id(fn) in seen or depth > 3:
            return
        seen.add(id(fn))
        alias = {}
        for n in ast.walk(fn):
            if isinstance(n, ast.Assign) and len(n.targets) == 1 and isinstance(n.targets[0], ast.Name):
                v = n.value
                if isinstance(v, ast.Attribute) and isinstance(v.value, ast.Name) and v.value.id == 'self' and v.attr in children:
                    alias[n.targets[0].id] = v.attr
        for n in ast.walk(fn):
            if not (isinstance(n, ast.Call) and isinstance(n.func, ast.Attribute)):
                continue
            recv = n.func.value
            if n.func.attr in RESULT_CALLS:
                ch = None
                if isinstance(recv, ast.Attribute) and isinstance(recv.value, ast.Name) and recv.value.id == 'self' and recv.attr in children:
                    ch = recv.attr
                elif isinstance(recv, ast.Name) and recv.id in alias:
                    ch = alias[recv.id]
                if ch is not None:
                    out.setdefault(ch, n.lineno)
            if isinstance(recv, ast.Name) and recv.id == 'self' and n.func.attr not in RESULT_CALLS:
                t = ix.find_method(c, n.func.attr)
                if t is not None:
                    scan(t[1], depth + 1)
    for mname in ('calculate_result_code', 'result'):
        t = ix.find_method(c, mname)
        if t is not None and t[0].name not in ('ExprNode', 'Node'):
            scan(t[1], 0)
    return out


def _fmt(val):
    parts = []
    for k, b in sorted(val.items(), key=str):
        if k[0] == 'free':
            parts.append('%s=%s' % (k[1], b))
        elif k[0] == 'self_temp':
            parts.append('self.is_temp=%s' % b)
        elif k[0] == 'present':
            parts.append('self.%s present=%s' % (k[1], b))
        else:
            parts.append('%s(%s)=%s' % (k[0], k[1], b))
    return ', '.join(parts) or 'always'


def class_obligations(ix, c):
    """-> (owner of is_simple, [(operand, line, witness valuation or None)]) ; raises GiveUp"""
    r = ix.class_list_attr(c, 'subexprs')
    if r is None or r[1] is None:
        return None, []
    children = [x for x in r[1] if isinstance(x, str)]
    if not children:
        return None, []
    pasted = pasted_operands(ix, c, children)
    if not pasted:
        return None, []
    t = ix.find_method(c, 'is_simple')
    if t is None:
        raise GiveUp('no is_simple()')
    owner, fn = t
    ta = getattr(ix, 'find_class_attr', lambda *_: None)(c, 'is_temp')
    if ta is not None and isinstance(ta[1], ast.Constant) and ta[1].value and ta[0].name not in ('ExprNode', 'Node'):
        # declared `is_temp = True` for the class: always in a temporary unless an instance overrides it - then the instance-level atom decides
        always_temp = not any(isinstance(n, ast.Attribute) and n.attr == 'is_temp' and isinstance(n.ctx, ast.Store)
                              for k in [c] for f in k.methods.values() for n in ast.walk(f))
        if always_temp:
            return None, []
    ev = Evaluator(ix, c, children)
    paths = ev.paths(fn)
    res = []
    for ch, line in sorted(pasted.items()):
        witness = None
        for val, ret in paths:
            if ret is not True:
                continue
            if val.get(('self_temp',), False):
                continue
            if val.get(('present', ch)) is False:
                continue
            if val.get(('simple', ch), False) or val.get(('temp', ch), False):
                continue
            witness = val
            break
        res.append((ch, line, witness))
    return owner, res


def coerce_obligations(ix, c, mname):
    """paths of coerce_to_simple / coerce_to_temp that return the node itself although the post-condition may be false -> [(valuation)]; raises GiveUp"""
    t = ix.find_method(c, mname)
    if t is None:
        return None, []
    owner, fn = t
    r = ix.class_list_attr(c, 'subexprs')
    children = [x for x in (r[1] if r and r[1] else []) if isinstance(x, str)]
    post = ix.find_method(c, 'is_simple' if mname == 'coerce_to_simple' else 'result_in_temp')
    if post is None:
        raise GiveUp('no post-condition method')
    bad = []

    class Ev(Evaluator):
        def ret_value(s, e, val, env, depth):
            if depth > 0:
                return Evaluator.ret_value(s, e, val, env, depth)
            e2 = s.subst(e, env) if e is not None else None
            if isinstance(e2, ast.Name) and e2.id == 'self':
                # the post-condition must hold for every completion of the valuation
                sub = Evaluator(ix, c, children)
                for v2, ret in sub.paths(post[1], preset=val):
                    if ret is not True:
                        bad.append(v2)
                        break
                return True
            if isinstance(e2, ast.Call):
                f = e2.func
                if isinstance(f, ast.Attribute) and s.is_self(f.value, env) and f.attr == 'coerce_to_temp' and mname == 'coerce_to_simple':
                    return True
                if isinstance(f, ast.Name) and f.id in ('CoerceToTempNode',) and e2.args and s.is_self(e2.args[0], env):
                    return True
            raise GiveUp('%s returns %s' % (mname, ast.unparse(e) if e is not None else 'None'))
    ev = Ev(ix, c, children)
    ev.paths(fn)
    return owner, bad


POSITIVE = '''
class FakeIndex(ExprNode):
    subexprs = ['base', 'index']
    def is_simple(self):
        base_type = self.base.type
        if not base_type or not (base_type.is_ptr or base_type.is_array):
            return False
        return self.base.is_simple()
    def calculate_result_code(self):
        return "(%s[%s])" % (self.base.result(), self.index.result())
    def coerce_to_simple(self, env):
        if self.base.is_simple():
            return self
        return self.coerce_to_temp(env)
class FakeOk(ExprNode):
    subexprs = ['obj']
    def is_simple(self):
        if self.obj:
            operand = self.obj
            return self.result_in_temp() or operand.is_simple()
        else:
            return True
    def result_in_temp(self):
        return self.is_temp
    def calculate_result_code(self):
        return self.fmt()
    def fmt(self):
        o = self.obj
        return "%s->x" % o.result_as(o.type)
    def coerce_to_simple(self, env):
        if not self.is_simple():
            return self.coerce_to_temp(env)
        return self
'''


class _FakeMod:
    def __init__(self):
        self.classes = {}


class _FakeCls:
    def __init__(self, node, module):
        self.node, self.name, self.qual, self.module = node, node.name, 'pc.' + node.name, module
        self.methods = {s.name: s for s in node.body if isinstance(s, ast.FunctionDef)}
        self.attrs = {s.targets[0].id: s.value for s in node.body if isinstance(s, ast.Assign) and isinstance(s.targets[0], ast.Name)}


class _FakeIx:
    def class_list_attr(self, c, name):
        return (c, list(ast.literal_eval(c.attrs[name]))) if name in c.attrs else None

    def find_method(self, c, name, skip_self=False):
        return (c, c.methods[name]) if name in c.methods else None


def _positive_control():
    tree = ast.parse(POSITIVE)
    mod = _FakeMod()
    for n in tree.body:
        mod.classes[n.name] = _FakeCls(n, mod)
    fx = _FakeIx()
    _, bad = class_obligations(fx, mod.classes['FakeIndex'])
    _, good = class_obligations(fx, mod.classes['FakeOk'])
    _, cbad = coerce_obligations(fx, mod.classes['FakeIndex'], 'coerce_to_simple')
    _, cgood = coerce_obligations(fx, mod.classes['FakeOk'], 'coerce_to_simple')
    return ({ch for ch, _, w in bad if w is not None} == {'index'} and [ch for ch, _, w in good] == ['obj'] and all(w is None for _, _, w in good)
            and bool(cbad) and not cgood)


def rule_simple(ctx, floor=20, override_floor=6, modules=('ExprNodes', 'UtilNodes')):
    ix = ctx.index
    r = Rule('C20-SIMPLE', 'is_simple() contract of expression nodes: over all valuations of the tests is_simple() makes, a node that answers "simple" while its value is not in a '
             'temporary pastes only operands into its result expression that are established as simple (is_simple() / result_in_temp()); coerce_to_simple() / coerce_to_temp() '
             'return the node itself only where is_simple() / result_in_temp() holds - otherwise consumers that refer to result() more than once (chained assignment and '
             'comparison, and/or operands, slice bounds, clones) evaluate a non-simple operand once per use', floor)
    node_classes = {k.qual for k in ix.node_classes()}
    overriding = set()
    for mod in modules:
        m = ix.mod(mod)
        for cname, c in sorted(m.classes.items()):
            if c.qual not in node_classes:
                continue
            try:
                owner, obl = class_obligations(ix, c)
            except GiveUp as e:
                t = ix.find_method(c, 'is_simple')
                if t is not None and t[0].name != 'ExprNode':
                    raise AnalysisError('C20-SIMPLE: is_simple() of %s (defined in %s) leaves the modelled subset: %s' % (c.qual, t[0].name, e))
                r.info('%s: not modelled (%s)' % (c.qual, e))
                continue
            for ch, line, witness in obl:
                key = '%s:%s' % (c.qual, ch)
                own = owner.name != 'ExprNode'
                if own:
                    overriding.add(owner.qual)
                r.inst(key, sample='%s pastes self.%s.result() into its result expression; is_simple() from %s' % (c.qual, ch, owner.name), nontrivial=own)
                if witness is not None:
                    fn = ix.find_method(c, 'is_simple')[1]
                    r.violate('%s:%s:simple-without-operand' % (owner.qual if own else c.qual, ch), owner.module.rel, fn.lineno,
                              '%s.is_simple() (used by %s) can answer True while the node is not in a temporary and nothing establishes its operand self.%s as simple [%s], '
                              'but %s pastes self.%s.result() into its own result expression (line %d): coerce_to_simple() leaves such a node alone and every consumer that '
                              'refers to its result more than once (x = y = node, lo <= node <= hi, node or z, slice bounds) re-evaluates the operand - a C call in it runs once per use'
                              % (owner.qual, c.qual, ch, _fmt(witness), c.qual, ch, line))
            # coerce_to_simple / coerce_to_temp post-conditions (one instance per defining class)
        for cname, c in sorted(m.classes.items()):
            if c.qual not in node_classes:
                continue
            for mname in ('coerce_to_simple', 'coerce_to_temp'):
                if mname not in c.methods:
                    continue
                key = '%s.%s:returns-self' % (c.qual, mname)
                try:
                    owner, bad = coerce_obligations(ix, c, mname)
                except GiveUp as e:
                    r.info('%s.%s: not modelled (%s)' % (c.qual, mname, e))
                    continue
                r.inst(key, sample='%s.%s returns the node itself only where %s holds' % (c.qual, mname, 'is_simple()' if mname == 'coerce_to_simple' else 'result_in_temp()'))
                if bad:
                    post = 'is_simple()' if mname == 'coerce_to_simple' else 'result_in_temp()'
                    r.violate(key, m.rel, c.methods[mname].lineno,
                              '%s.%s returns the node itself on a path on which %s may be false [%s]: the caller asked for a %s value and refers to result() several times, '
                              'so the node\'s operation is carried out once per use' % (c.qual, mname, post, _fmt(bad[0]), 'simple' if mname == 'coerce_to_simple' else 'temporary'))
    base = ix.cls('ExprNodes', 'ExprNode')
    for mname in ('coerce_to_simple', 'coerce_to_temp', 'is_simple', 'result_in_temp'):
        if mname not in base.methods:
            raise AnalysisError('C20-SIMPLE: ExprNodes.ExprNode.%s not found' % mname)
    if len(overriding) < override_floor:
        raise AnalysisError('C20-SIMPLE: only %d classes that override is_simple() and paste an operand were found (expected >= %d)' % (len(overriding), override_floor))
    r.positive_control(_positive_control(), 'is_simple() that tests the base only while base and index are pasted; coerce_to_simple() that tests the base only; '
                                            'the alias / helper / else-branch form of a correct class stays silent')
    return r
