"""C04-STICKY: the overflow bit shared by a folded expression is only ever or-ed into.

With overflowcheck.fold (the default) ConsolidateOverflowCheck makes every checked operation nested in one arithmetic expression write to the
overflow bit of the OUTERMOST node, and that bit is tested once, after the outermost operation.  "always raises when the result does not fit"
therefore needs, for every helper the compiler can emit for an operator of NumBinopNode.overflow_op_names:

    *overflow != 0 on entry   =>   *overflow != 0 on return                    (the helper never forgets an earlier overflow)

and for the Binop dispatcher (the function the generated code actually calls for every non-base type) in addition

    the int cell the caller passes is the cell the selected base helper writes    (a bit set by the base helper reaches the caller).

Technique (two tiers, both complete):
  1. a syntactic sufficient condition on the C text of the helper and of everything it forwards the pointer to: the pointer parameter occurs
     only as `*p |= e` (an OR cannot clear a bit: x | y != 0 whenever x != 0), as a plain read `*p`, or as the argument of a callee for which the
     same holds.  No operand enumeration is needed then.
  2. wherever (1) does not apply (`*p = e`, `*p ^= e`, a local copy written back, the pointer re-seated ...) the helper is evaluated by the
     checker's C interpreter (rules/pC03.py) exactly as C04-ARITH does - every operand pair of the 4-bit model type, every preprocessor /
     sizeof() / __Pyx_is_constant() arm - with the bit initialised to every non-zero value a helper can leave in it; a run that returns with
     the bit 0 is the finding.  A rewrite such as `*p = *p | e` or `if (e) *p = 1;` is decided (silently) by this tier.
The dispatcher is always evaluated (ILP32 / LP64 / LLP64 x every width x both signednesses x every operator) with recording stubs for the base helpers.
NOT decided: transfer from the model width to the production widths (same premise as C04-ARITH)."""
import re

from ..core import Rule, AnalysisError
from ..engine.cutil import split_args, match_paren
from . import pC03 as MC
from . import sC04 as S

RID = 'C04-STICKY'
ASSIGN_OPS = ('<<=', '>>=', '+=', '-=', '*=', '/=', '%=', '&=', '^=', '|=', '++', '--', '=')
IDENT = re.compile(r'[A-Za-z_]\w*')


def _resolve_callee(name, funcs, defs):
    """follow object-like alias macros (#define a_const a) -> ('func', Func) | ('macro', (params, body)) | None"""
    for _ in range(6):
        if name in funcs:
            return 'func', funcs[name]
        d = defs.get(name)
        if d is None:
            return None
        if d[0] is None and re.fullmatch(r'\w+', d[1] or ''):
            name = d[1]
            continue
        if d[0] is not None:
            return 'macro', d
        return None
    return None


def _enclosing_call(text, pos):
    """(callee name, argument index, offset of '(') of the innermost call whose argument list contains text[pos]; None if there is none"""
    depth, i, commas = 0, pos - 1, 0
    while i >= 0:
        c = text[i]
        if c in ')]':
            depth += 1
        elif c in '([':
            if depth == 0:
                if c != '(':
                    return None
                j = i - 1
                while j >= 0 and text[j].isspace():
                    j -= 1
                k = j
                while k >= 0 and (text[k].isalnum() or text[k] == '_'):
                    k -= 1
                name = text[k + 1:j + 1]
                if not name or not IDENT.fullmatch(name) or name in ('if', 'while', 'for', 'switch', 'return', 'sizeof'):
                    return None
                return name, commas, i
            depth -= 1
        elif c == ',' and depth == 0:
            commas += 1
        elif c in ';{}' and depth == 0:
            return None
        i -= 1
    return None


def or_only(f, pidx, funcs, defs, seen=None):
    """None if the pointer parameter #pidx of C function f is provably only or-ed into (tier 1), else a short reason (tier 2 decides)."""
    seen = set() if seen is None else seen
    if (f.name, pidx) in seen:
        return None
    seen.add((f.name, pidx))
    if pidx >= len(f.params) or not f.params[pidx][2]:
        return '%s: parameter %d is not a pointer' % (f.name, pidx)
    p = f.params[pidx][1]
    text = MC.STRING.sub(' 0 ', f.body_text)
    for m in re.finditer(r'\b%s\b' % re.escape(p), text):
        i = m.start() - 1
        while i >= 0 and text[i].isspace():
            i -= 1
        j = m.end()
        while j < len(text) and text[j].isspace():
            j += 1
        prev = text[i] if i >= 0 else ''
        if prev == '*':
            k = i - 1
            while k >= 0 and text[k].isspace():
                k -= 1
            before = text[max(k - 1, 0):k + 1]
            if before in ('++', '--'):
                return '%s: `%s*%s`' % (f.name, before, p)
            op = next((o for o in ASSIGN_OPS if text.startswith(o, j)), None)
            if op == '=' and text.startswith('==', j):
                op = None
            if op is None or op == '|=':
                continue            # a read, or an OR into the bit
            return '%s: `*%s %s ...`' % (f.name, p, op)
        if prev in ',(' and j < len(text) and text[j] in ',)':
            call = _enclosing_call(text, m.start())
            if call is None:
                return '%s: `%s` inside parentheses that are not an argument list' % (f.name, p)
            cname, idx, _ = call
            hit = _resolve_callee(cname, funcs, defs)
            if hit is None:
                return '%s passes `%s` to %s, which is not defined in the section' % (f.name, p, cname)
            if hit[0] == 'func':
                why = or_only(hit[1], idx, funcs, defs, seen)
                if why:
                    return why
                continue
            params, body = hit[1]
            if idx < len(params) and not re.search(r'\b%s\b' % re.escape(params[idx]), body):
                continue            # a macro that drops the pointer (the *_no_overflow family)
            return '%s passes `%s` to the macro %s, which uses it' % (f.name, p, cname)
        return '%s: `%s` is used other than as `*%s` or as an argument' % (f.name, p, p)
    return None


def _variant(text, common, builtin_arm):
    def truth(c):
        c = ' '.join(c.split())
        if c == 'defined(__PYX_HAVE_BUILTIN_OVERFLOW)':
            return builtin_arm
        if re.fullmatch(r'\d+', c):
            return bool(int(c))
        raise AnalysisError('%s: preprocessor condition %r inside the checked-arithmetic helpers is not modelled' % (RID, c))
    sel = MC.select_variant(text, truth)
    funcs = MC.functions(sel)
    defs = dict(common)
    defs.update(MC.macros(sel))
    return funcs, defs


def helper_sticky(text, common, fname, op, signed, builtin_arm, bit_values):
    """-> (how decided, problem or None) for one helper in one preprocessor variant"""
    funcs, defs = _variant(text, common, builtin_arm)
    hit = _resolve_callee(fname, funcs, defs)
    if hit is None or hit[0] != 'func':
        return 'missing', None           # reported by C04-ARITH / C04-NAME
    f = hit[1]
    if len(f.params) != 3 or not f.params[2][2]:
        return 'signature', None         # reported by C04-ARITH
    why = or_only(f, 2, funcs, defs)
    if why is None:
        return 'or-only', None
    n_total = 0
    for v in sorted(bit_values):
        try:
            n, _sp, prob, _arms = S.arith_check(text, common, fname, op, signed, builtin_arm, bit0=v)
        except MC.Unsupported as u:
            raise AnalysisError('%s: %s writes the overflow bit in a way that is neither an OR nor inside the modelled C subset (%s; %s)' % (RID, fname, why, u))
        n_total += n
        if prob is not None:
            return 'evaluated (%s)' % why, prob
    return 'evaluated, %d runs (%s)' % (n_total, why), None


def dispatcher_problems(ctx, ops, raw=None):
    """the Binop dispatcher hands the caller's bit cell to the base helper it selects and leaves a set bit set.
    -> (rows evaluated, [(key, message)])"""
    if raw is None:
        raw = S._section(ctx, 'Binop', 'impl').raw
    common = S._common_macros(ctx)
    probs, rows = [], 0
    seen = set()

    def add(k, m):
        if k not in seen:
            seen.add(k)
            probs.append((k, m))
    for op in ops:
        if op == 'lshift':
            continue                # LeftShift is instantiated per type, without a dispatcher
        text = S._instantiate(raw, {'TYPE': S.T, 'NAME': 'sa', 'BINOP': op})
        funcs = MC.functions(text)
        fname = '__Pyx_%s_sa_checking_overflow' % op
        if fname not in funcs:
            raise AnalysisError('%s: the Binop template no longer defines __Pyx_{{BINOP}}_{{NAME}}_checking_overflow' % RID)
        cache = {}
        for mname, (lbits, pbits) in S.DISPATCH_MODELS.items():
            base = {'char': (8, True), 'short': (16, True), 'int': (32, True), 'long': (lbits, True), 'long long': (64, True), 'size_t': (pbits, False)}
            for bits in sorted({16, 32, lbits, 64}):
                for signed in (True, False):
                    types = dict(base)
                    types[S.T] = (bits, signed)
                    model = MC.Model(types, mname)
                    for bit0, helper_sets in ((0, True), (1, False), (1, True)):
                        rows += 1
                        cell = MC.Cell(bit0, (32, True))
                        got = []

                        def stub(it, args, env, got=got, helper_sets=helper_sets):
                            ref = it.ev(args[2], env) if len(args) == 3 else None
                            got.append(ref)
                            if isinstance(ref, MC.Ref) and helper_sets:
                                ref.cell.v |= 1
                            return (0, bits, signed)
                        hooks = {'__Pyx_%s_%s_checking_overflow' % (op, x.replace(' ', '_')): stub for x in S.BASE_HELPER_TYPES}
                        hooks['Py_FatalError'] = lambda it, args, env: (0, 32, True)
                        it = MC.Interp(model, funcs, common, hooks, cache)
                        try:
                            it.call_func(funcs[fname], [(1, bits, signed), (1, bits, signed), MC.Ref(cell)])
                        except MC.Unsupported as u:
                            raise AnalysisError('%s: the Binop dispatcher is outside the modelled C subset: %s' % (RID, u))
                        except MC.CUndefined:
                            continue        # reported by C04-DISPATCH
                        tdesc = '%s %d-bit type on %s' % ('a signed' if signed else 'an unsigned', bits, mname)
                        if got and helper_sets and not cell.v:
                            add('%s:not-forwarded' % op, '__Pyx_%s_<T>_checking_overflow for %s calls the base helper with %s instead of the caller\'s `overflow` pointer: the bit the '
                                                         'base helper sets never reaches the bit the generated code tests, the wrapped result is returned without OverflowError'
                                % (op, tdesc, 'another int cell' if got[0] is not None and isinstance(got[0], MC.Ref) else 'a non-pointer'))
                        elif bit0 and not cell.v:
                            add('%s:cleared' % op, '__Pyx_%s_<T>_checking_overflow for %s returns with the shared overflow bit 0 although it was %d on entry (set by an earlier '
                                                   'operation of the same folded expression): the earlier overflow is forgotten' % (op, tdesc, bit0))
    return rows, probs


STICKY_POSITIVE = '''
static CYTHON_INLINE sa_t __Pyx_mul_sa_checking_overflow(sa_t a, sa_t b, int *overflow) {
    sa_t result;
    *overflow = __builtin_mul_overflow(a, b, &result);
    return result;
}
'''
STICKY_NEGATIVE = '''
static CYTHON_INLINE sa_t __Pyx_mul_sa_checking_overflow(sa_t a, sa_t b, int *overflow) {
    sa_t result;
    *overflow = *overflow | __builtin_mul_overflow(a, b, &result);
    return result;
}
'''


def rule_sticky(ctx, bit_values=None, floor=24):
    r = Rule(RID, 'a checked-arithmetic helper never clears an overflow bit that is already set (the bit is shared by all operations of a folded expression), and the Binop '
                  'dispatcher hands the caller\'s bit to the base helper: or-only stores proved syntactically, every other store shape evaluated over all operand pairs of the model type', floor)
    common = S._common_macros(ctx)
    ops = S.op_names(ctx)
    rel = 'Cython/Utility/' + S.OVF
    values = {1} | {v for v in (bit_values or ()) if v}
    if len(values) > 6:
        raise AnalysisError('%s: the helpers leave %d different values in the overflow bit; the bit is no longer a flag' % (RID, len(values)))
    for signed, sec, key in ((True, 'BaseCaseSigned', 'INT'), (False, 'BaseCaseUnsigned', 'UINT')):
        impl, proto = S._section(ctx, sec, 'impl'), S._section(ctx, sec, 'proto')
        text = S._instantiate(proto.raw + '\n' + impl.raw, {key: S.T, 'NAME': 'sa'})
        lits = MC.literals(MC.select_variant(text, lambda c: True)) | MC.literals(MC.select_variant(text, lambda c: False))
        parametric = lits <= S.ALLOWED_LITERALS
        for op in ops:
            if op == 'lshift':
                continue
            for variant in (op, op + '_const'):
                fname = '__Pyx_%s_sa_checking_overflow' % variant
                for builtin_arm in (True, False):
                    k = '%s:%s:%s:%s' % (S.OVF, sec, variant, 'builtin' if builtin_arm else 'portable')
                    funcs, defs = _variant(text, common, builtin_arm)
                    hit = _resolve_callee(fname, funcs, defs)
                    if not parametric and (hit is None or hit[0] != 'func' or or_only(hit[1], 2, funcs, defs)):
                        r.info('%s is not width-parametric any more and writes the bit other than by OR: not decided' % k)
                        continue
                    how, prob = helper_sticky(text, common, fname, op, signed, builtin_arm, values)
                    r.inst(k, sample='%s: %s' % (k, how))
                    if prob:
                        line = impl.line + impl.raw[:max(impl.raw.find('__Pyx_%s_{{NAME}}_checking_overflow(' % variant.replace('_const', '')), 0)].count('\n')
                        r.violate('%s:%s' % (k, prob[0]), rel, line, '%s::%s, helper %s: %s' % (S.OVF, sec, variant, prob[1]))
    if 'lshift' in ops:
        ls = S._section(ctx, 'LeftShift', 'proto')
        for signed in (True, False):
            text = S._instantiate(ls.raw, {'TYPE': S.T, 'NAME': 'sa', 'SIGNED': '1' if signed else '0'})
            for variant in ('lshift', 'lshift_const'):
                k = '%s:LeftShift:%s:%s' % (S.OVF, 'signed' if signed else 'unsigned', variant)
                how, prob = helper_sticky(text, common, '__Pyx_%s_sa_checking_overflow' % variant, 'lshift', signed, False, values)
                r.inst(k, sample='%s: %s' % (k, how))
                if prob:
                    r.violate('%s:%s' % (k, prob[0]), rel, ls.line, '%s::LeftShift (%s): %s' % (S.OVF, 'SIGNED' if signed else 'unsigned', prob[1]))
    rows, probs = dispatcher_problems(ctx, ops)
    bsec = S._section(ctx, 'Binop', 'impl')
    for op in ops:
        if op != 'lshift':
            r.inst('%s:Binop:%s' % (S.OVF, op), sample='Binop dispatcher instantiated for %s: bit forwarded and kept' % op)
    for k, msg in probs:
        r.violate('%s:Binop:%s' % (S.OVF, k), rel, bsec.line, '%s::Binop: %s' % (S.OVF, msg))
    how_p, prob_p = helper_sticky(STICKY_POSITIVE, common, '__Pyx_mul_sa_checking_overflow', 'mul', False, True, {1})
    how_n, prob_n = helper_sticky(STICKY_NEGATIVE, common, '__Pyx_mul_sa_checking_overflow', 'mul', False, True, {1})
    r.positive_control(prob_p is not None and prob_p[0] == 'cleared' and prob_n is None and how_n.startswith('evaluated'),
                       'unsigned multiply that assigns the bit (fires) next to one that assigns `*overflow | ...` (evaluated, silent)')
    return r
