"""C35-ARGS — the Python wrapper's owned *args / **kwargs references are released on every emitted error exit of argument unpacking.

DefNodeWrapper creates the `*args` tuple and the `**kwargs` dict before the other arguments are unpacked and converted
(generate_stararg_init_code), so at every exit the wrapper emits after that point it owns them.  Two decision tables are
extracted from the generator with the path-enumerating evaluator of pC32 (calls to other methods of the class are inlined
through the MRO) over the complete domain  star_arg in {None, present} x starstar_arg in {None, present} x keyword-only
arguments {none, some}:

 (label)  the cleanup block behind the argument-unpacking error label of generate_argument_parsing_code releases
          X.entry on every path of every domain point where X is present, for X in {star_arg, starstar_arg};
 (init)   in generate_stararg_init_code every emitted `return` that follows the ownership mark (put_var_gotref) of an
          X.entry on the same path is preceded by a release of that entry.

A release is a put_[var_][x]decref[_clear|_set] emission whose operand is X.entry (directly or through an inlined helper
such as generate_arg_decref(X, code)).  Nothing is executed; unknown tests fork.
"""
import ast, itertools, re

from ..core import Rule, AnalysisError
from .pC32 import Obj, Fresh, Call, Str, Lst, UNK, NOTFOUND, Evaluator

NODES = 'Cython/Compiler/Nodes.py'
RELEASE = re.compile(r'^put_(?:var_)?x?decref(?:_clear|_set)?$')
GOTREF = re.compile(r'^put_(?:var_)?x?gotref$')
EMIT = ('putln', 'put')
MAX_ALTS = 512


class Inliner:
    """Event lists of a method of `cls` with the calls to other methods of the same object spliced in."""

    def __init__(self, ix, cls, oracle, depth=3):
        self.ix, self.cls, self.oracle, self.depth = ix, cls, oracle, depth
        self._active = []

    def paths(self, fn, env=None, depth=0, region=None):
        """-> list of event lists (one per path, calls to sibling methods inlined).  With `region` (a function selecting the
        interesting slice of a raw event list, or None when it has none) only that slice is inlined and returned; paths whose
        raw events have no such slice are inlined as a whole and sliced afterwards."""
        out, seen = [], set()
        for p in Evaluator(self.oracle, what='%s.%s' % (self.cls.name, fn.name)).run_function(fn, env or {}):
            if p.kind == 'raise':
                continue
            events = p.events
            sliced = False
            if region is not None:
                sl = region(events)
                if sl is not None:
                    events, sliced = sl, True
            alts = [[]]
            for e in events:
                subs = self.expand(e, depth)
                if subs is None:
                    for a in alts:
                        a.append(e)
                else:
                    alts = [a + s for a in alts for s in subs]
                    if len(alts) > MAX_ALTS:
                        raise AnalysisError('C35-ARGS: more than %d inlined paths in %s' % (MAX_ALTS, fn.name))
            for a in alts:
                if region is not None and not sliced:
                    a = region(a)
                    if a is None:
                        continue
                sig = tuple((e.name, repr(e.args[:1])) if isinstance(e, Call) else repr(e) for e in a)
                if sig not in seen:
                    seen.add(sig)
                    out.append(a)
        return out

    def expand(self, e, depth):
        if not isinstance(e, Call) or depth >= self.depth:
            return None
        if not (isinstance(e.recv, Obj) and e.recv.path == 'self'):
            return None
        got = self.ix.find_method(self.cls, e.name)
        if got is None:
            return None
        owner, fn = got
        if fn in self._active:
            return None
        params = [a.arg for a in fn.args.args]
        if len(list(ast.walk(fn))) > 400:
            return None                     # a large generator of its own: stays an opaque event
        env = {}
        for pname, a in zip(params[1:], e.args):
            env[pname] = a
        for k, v in e.kwargs.items():
            env[k] = v
        # parameters without an argument take their default when it is a constant
        defaults = fn.args.defaults
        for pname, d in zip(params[len(params) - len(defaults):], defaults):
            if pname not in env and isinstance(d, ast.Constant):
                env[pname] = d.value
        self._active.append(fn)
        try:
            return self.paths(fn, env, depth + 1)
        finally:
            self._active.pop()


def released(events, tokens):
    """Names of the tokens whose .entry is the operand of a release emission."""
    out = set()
    for e in events:
        if isinstance(e, Call) and RELEASE.match(e.name) and e.args:
            a = e.args[0]
            for name, tok in tokens.items():
                if isinstance(a, Obj) and a.path == tok.path + '.entry':
                    out.add(name)
                if isinstance(a, Str) and any(isinstance(p, Obj) and p.path.startswith(tok.path + '.entry') for p in a.parts):
                    out.add(name)
    return out


def label_region(events):
    """Events between put_label(<the error label taken from code.error_label>) and the next put_label; None when the path emits no such label."""
    start = None
    for i, e in enumerate(events):
        if isinstance(e, Call) and e.name == 'put_label' and e.args:
            a = e.args[0]
            if start is None and isinstance(a, Obj) and a.path.endswith('.error_label'):
                start = i + 1
            elif start is not None:
                return events[start:i]
    return events[start:] if start is not None else None


def emits_return(e):
    if not (isinstance(e, Call) and e.name in EMIT and e.args):
        return False
    a = e.args[0]
    text = a if isinstance(a, str) else (a.text(' X ') if isinstance(a, Str) else '')
    return bool(re.search(r'(?<![\w.])return\b', text))


def assigns_in_same_statement(e, tok):
    """The emitted text assigns tok.entry itself (`X = alloc(); if (!X) return ...`): a failed acquisition, nothing is owned yet."""
    a = e.args[0]
    if not isinstance(a, Str):
        return False
    parts = a.parts
    for i, p in enumerate(parts[:-1]):
        if isinstance(p, Obj) and p.path.startswith(tok.path + '.entry') and isinstance(parts[i + 1], str) and re.match(r'\s*=(?!=)', parts[i + 1]):
            return True
    return False


def label_problems(ix, cls, fn, point):
    """-> (number of paths with an error-label block, [(token name, description)])"""
    star, starstar, kwonly = point
    toks = {}
    vals = {'self.num_kwonly_args': 2 if kwonly else 0}
    for name, present in (('star_arg', star), ('starstar_arg', starstar)):
        if present:
            toks[name] = Fresh('self.' + name)
            vals['self.' + name] = toks[name]
        else:
            vals['self.' + name] = None
    inl = Inliner(ix, cls, lambda p: vals.get(p, NOTFOUND))
    n, probs = 0, []
    for region in inl.paths(fn, region=label_region):
        n += 1
        rel = released(region, toks)
        for name in toks:
            if name not in rel:
                probs.append((name, [e.name for e in region if isinstance(e, Call)]))
    return n, probs


def init_problems(ix, cls, fn, point):
    """-> (number of (ownership mark, later return) pairs, [(token name, description)])"""
    star, starstar, kwonly = point
    toks = {}
    vals = {'self.num_kwonly_args': 2 if kwonly else 0}
    for name, present in (('star_arg', star), ('starstar_arg', starstar)):
        if present:
            toks[name] = Fresh('self.' + name)
            vals['self.' + name] = toks[name]
        else:
            vals['self.' + name] = None
    inl = Inliner(ix, cls, lambda p: vals.get(p, NOTFOUND))
    n, probs = 0, []
    for events in inl.paths(fn):
        owned = {}           # token name -> index of the ownership mark
        for i, e in enumerate(events):
            if not isinstance(e, Call):
                continue
            if GOTREF.match(e.name) and e.args:
                for name, tok in toks.items():
                    if isinstance(e.args[0], Obj) and e.args[0].path == tok.path + '.entry':
                        owned[name] = i
            elif emits_return(e):
                for name, j in owned.items():
                    if assigns_in_same_statement(e, toks[name]):
                        continue
                    n += 1
                    if name not in released(events[j:i], {name: toks[name]}):
                        probs.append((name, 'emitted `%s`' % (e.args[0].text('..') if isinstance(e.args[0], Str) else e.args[0])))
    return n, probs


POSITIVE = '''
class W:
    def generate_argument_parsing_code(self, env, code):
        old = code.new_error_label()
        ours = code.error_label
        end = code.new_label("done")
        self.parse(code)
        code.error_label = old
        if code.label_used(ours):
            code.put_goto(end)
            code.put_label(ours)
            if self.star_arg:
                self.drop(self.star_arg, code)
                if self.starstar_arg:
                    code.put_var_decref_clear(self.starstar_arg.entry)
            code.putln("return NULL;")
        code.put_label(end)

    def drop(self, arg, code):
        if arg:
            code.put_var_decref_clear(arg.entry)

    def generate_stararg_init_code(self, n, code):
        if self.starstar_arg:
            code.putln("%s = PyDict_New(); if (unlikely(!%s)) return NULL;" % (self.starstar_arg.entry.cname, self.starstar_arg.entry.cname))
            code.put_var_gotref(self.starstar_arg.entry)
        if self.star_arg:
            code.putln("%s = slice();" % self.star_arg.entry.cname)
            code.putln("if (unlikely(!%s)) {" % self.star_arg.entry.cname)
            code.putln("return NULL;")
            code.putln("}")
            code.put_var_gotref(self.star_arg.entry)
'''


class _MiniIndex:
    """The two pyindex queries the inliner needs, for the embedded positive example."""

    def __init__(self, tree):
        self.c = tree.body[0]
        self.methods = {f.name: f for f in self.c.body if isinstance(f, ast.FunctionDef)}

    def find_method(self, c, name):
        return (c, self.methods[name]) if name in self.methods else None


def rule_args(ctx):
    ix = ctx.index
    r = Rule('C35-ARGS', 'error exits of the wrapper\'s argument unpacking release the *args tuple and the **kwargs dict whenever they exist '
                         '(star_arg x starstar_arg x keyword-only arguments; error-label block and early returns of the star-argument set-up)', floor=8)
    cls = ix.cls('Nodes', 'DefNodeWrapper')
    got = ix.find_method(cls, 'generate_argument_parsing_code')
    got2 = ix.find_method(cls, 'generate_stararg_init_code')
    if got is None or got2 is None:
        raise AnalysisError('DefNodeWrapper.generate_argument_parsing_code / generate_stararg_init_code vanished')
    fn, fn2 = got[1], got2[1]
    total_blocks = 0
    reported = set()          # one finding per construct: the domain points are instances, not constructs
    for point in itertools.product((False, True), (False, True), (False, True)):
        star, starstar, kwonly = point
        if not (star or starstar):
            continue
        desc = '%s%s%s' % ('*args' if star else '', ('+' if star and starstar else '') + ('**kwargs' if starstar else ''), '+kwonly' if kwonly else '')
        n, probs = label_problems(ix, cls, fn, point)
        total_blocks += n
        key = 'args:error-label:%s' % desc
        r.inst(key, sample='%s: %d paths with an error-label cleanup block' % (key, n))
        if n == 0:
            raise AnalysisError('C35-ARGS: no path of generate_argument_parsing_code emits a cleanup block behind its error label for %s' % desc)
        for name, calls in probs:
            if ('label', name) in reported:
                continue
            reported.add(('label', name))
            r.violate('Nodes.DefNodeWrapper.generate_argument_parsing_code:%s' % name, NODES, fn.lineno,
                      'for a signature with %s the cleanup block behind the argument-unpacking error label does not release self.%s.entry on every path (it emits: %s): '
                      'when an argument conversion fails or a required argument is missing, the %s created before the unpacking leaks together with everything it holds'
                      % (desc, name, ', '.join(calls) or 'nothing', 'tuple' if name == 'star_arg' else 'dict'))
        if not kwonly:
            n2, probs2 = init_problems(ix, cls, fn2, point)
            key2 = 'args:init-return:%s' % desc
            r.inst(key2, sample='%s: %d (ownership mark, later emitted return) pairs' % (key2, n2))
            for name, what in probs2:
                if ('init', name) in reported:
                    continue
                reported.add(('init', name))
                r.violate('Nodes.DefNodeWrapper.generate_stararg_init_code:%s' % name, NODES, fn2.lineno,
                          'for a signature with %s generate_stararg_init_code marks self.%s.entry as owned (put_var_gotref) and later %s without releasing it: the reference leaks '
                          'when the following set-up step fails' % (desc, name, what))
            if star and starstar and n2 == 0:
                raise AnalysisError('C35-ARGS: generate_stararg_init_code no longer emits an early return after taking ownership of **kwargs; adapt the rule')
    # ---- positive control
    tree = ast.parse(POSITIVE)
    mi = _MiniIndex(tree)
    _, p1 = label_problems(mi, mi.c, mi.methods['generate_argument_parsing_code'], (False, True, False))
    _, p1b = label_problems(mi, mi.c, mi.methods['generate_argument_parsing_code'], (True, True, False))
    _, p2 = init_problems(mi, mi.c, mi.methods['generate_stararg_init_code'], (True, True, False))
    r.positive_control(any(n == 'starstar_arg' for n, _ in p1) and not p1b and any(n == 'starstar_arg' for n, _ in p2),
                       '**kwargs release nested under `if self.star_arg`; early return after gotref without decref')
    return r


def nullsafe_problems(ix, cls, fn, point):
    """Releases of X.entry with the NULL-unsafe variant (put_[var_]decref...) on a path of the initialiser that has not created X.entry
    (no ownership mark before it): the entry is still the NULL it was declared with."""
    star, starstar, kwonly = point
    toks, vals = {}, {'self.num_kwonly_args': 2 if kwonly else 0}
    for name, present in (('star_arg', star), ('starstar_arg', starstar)):
        if present:
            toks[name] = Fresh('self.' + name)
            vals['self.' + name] = toks[name]
        else:
            vals['self.' + name] = None
    inl = Inliner(ix, cls, lambda p: vals.get(p, NOTFOUND))
    n, probs = 0, []
    for events in inl.paths(fn):
        owned = set()
        for e in events:
            if not (isinstance(e, Call) and e.args and isinstance(e.args[0], Obj)):
                continue
            for name, tok in toks.items():
                if e.args[0].path != tok.path + '.entry':
                    continue
                if GOTREF.match(e.name):
                    owned.add(name)
                elif RELEASE.match(e.name):
                    n += 1
                    if 'xdecref' not in e.name and name not in owned:
                        probs.append((name, e.name))
    return n, probs


def rule_args_nullsafe(ctx):
    # pending finding (FINDING_2.md): generate_stararg_init_code decref_clears an unused (NULL) **kwargs entry; NOT registered in run()
    ix = ctx.index
    r = Rule('C35-ARGNULL', 'generate_stararg_init_code releases a star-argument entry with a NULL-unsafe decref only on paths that created it', floor=1)
    cls = ix.cls('Nodes', 'DefNodeWrapper')
    got = ix.find_method(cls, 'generate_stararg_init_code')
    if got is None:
        raise AnalysisError('DefNodeWrapper.generate_stararg_init_code vanished')
    fn = got[1]
    reported = set()
    for point in ((True, True, False), (False, True, False), (True, False, False)):
        n, probs = nullsafe_problems(ix, cls, fn, point)
        r.inst('argnull:%s%s' % ('*' if point[0] else '', '**' if point[1] else ''), sample='%d releases' % n)
        for name, call in probs:
            if name in reported:
                continue
            reported.add(name)
            r.violate('Nodes.DefNodeWrapper.generate_stararg_init_code:%s:null-unsafe' % name, NODES, fn.lineno,
                      'generate_stararg_init_code emits %s(self.%s.entry) on a path on which it has not created that entry (no put_var_gotref before it): the variable still holds '
                      'the NULL it was declared with, and Py_DECREF(NULL) crashes; use the xdecref variant or repeat the creation condition' % (call, name))
    return r
