"""C35-ARGS — the Python wrapper's owned *args / **kwargs references are released on every emitted error exit of argument unpacking.

DefNodeWrapper creates the `*args` tuple and the `**kwargs` dict before the other arguments are unpacked and converted
(generate_stararg_init_code), so at every exit the wrapper emits after that point it owns them.  Two decision tables are
extracted from the generator with the path-enumerating evaluator of pC32 (calls to other methods of the class are inlined
through the MRO) over the complete domain  star_arg in {None, present} x starstar_arg in {None, present} x keyword-only
arguments {none, some}:

 (label)  the cleanup block behind the argument-unpacking error label of generate_argument_parsing_code releases
          X.entry on every path of every domain point where X is present, for X in {star_arg, starstar_arg};
 (init)   in generate_stararg_init_code every emitted `return` that follows the ownership mark (put_var_gotref) of an
          X.entry on the same path is preceded by a release of that entry.

A release is a put_[var_][x]decref[_clear|_set] emission whose operand is X.entry (directly or through an inlined helper
such as generate_arg_decref(X, code)).  Nothing is executed; unknown tests fork.
"""
import ast, itertools, re

from ..core import Rule, AnalysisError
from .pC32 import Obj, Fresh, Call, Str, Lst, UNK, NOTFOUND, Evaluator

NODES = 'Cython/Compiler/Nodes.py'
RELEASE = re.compile(r'^put_(?:var_)?x?decref(?:_clear|_set)?$')
GOTREF = re.compile(r'^put_(?:var_)?x?gotref$')
EMIT = ('putln', 'put')
MAX_ALTS = 512


class Inliner:
    """Event lists of a method of `cls` with the calls to other methods of the same object spliced in."""

    def __init__(self, ix, cls, oracle, depth=3):
        self.ix, self.cls, self.oracle, self.depth = ix, cls, oracle, depth
        self._active = []

    def paths(self, fn, env=None, depth=0, region=None):
        """-> list of event lists (one per path, calls to sibling methods inlined).  With `region` (a function selecting the
        interesting slice of a raw event list, or None when it has none) only that slice is inlined and returned; paths whose
        raw events have no such slice are inlined as a whole and sliced afterwards."""
        out, seen = [], set()
        for p in Evaluator(self.oracle, what='%s.%s' % (self.cls.name, fn.name)).run_function(fn, env or {}):
            if p.kind == 'raise':
                continue
            events = p.events
            sliced = False
            if region is not None:
                sl = region(events)
                if sl is not None:
                    events, sliced = sl, True
            alts = [[]]
            for e in events:
                subs = self.expand(e, depth)
                if subs is None:
                    for a in alts:
                        a.append(e)
                else:
                    alts = [a + s for a in alts for s in subs]
                    if len(alts) > MAX_ALTS:
                        raise AnalysisError('C35-ARGS: more than %d inlined paths in %s' % (MAX_ALTS, fn.name))
            for a in alts:
                if region is not None and not sliced:
                    a = region(a)
                    if a is None:
                        continue
                sig = tuple((e.name, repr(e.args[:1])) if isinstance(e, Call) else repr(e) for e in a)
                if sig not in seen:
                    seen.add(sig)
                    out.append(a)
        return out

    def expand(self, e, depth):
        if not isinstance(e, Call) or depth >= self.depth:
            return None
        if not (isinstance(e.recv, Obj) and e.recv.path == 'self'):
            return None
        got = self.ix.find_method(self.cls, e.name)
        if got is None:
            return None
        owner, fn = got
        if fn in self._active:
            return None
        params = [a.arg for a in fn.args.args]
        if len(list(ast.walk(fn))) > 400:
            return None                     # a large generator of its own: stays an opaque event
        env = {}
        for pname, a in zip(params[1:], e.args):
            env[pname] = a
        for k, v in e.kwargs.items():
            env[k] = v
        # parameters without an argument take their default when it is a constant
        defaults = fn.args.defaults
        for pname, d in zip(params[len(params) - len(defaults):], defaults):
            if pname not in env and isinstance(d, ast.Constant):
                env[pname] = d.value
        self._active.append(fn)
        try:
            return self.paths(fn, env, depth + 1)
        finally:
            self._active.pop()


def released(events, tokens):
    """Names of the tokens whose .entry is the operand of a release emission."""
    out = set()
    for e in events:
        if isinstance(e, Call) and RELEASE.match(e.name) and e.args:
            a = e.args[0]
            for name, tok in tokens.items():
                if isinstance(a, Obj) and a.path == tok.path + '.entry':
                    out.add(name)
                if isinstance(a, Str) and any(isinstance(p, Obj) and p.path.startswith(tok.path + '.entry') for p in a.parts):
                    out.add(name)
    return out


def label_region(events):
    """Events between put_label(<the error label taken from code.error_label>) and the next put_label; None when the path emits no such label."""
    start = None
    for i, e in enumerate(events):
        if isinstance(e, Call) and e.name == 'put_label' and e.args:
            a = e.args[0]
            if start is None and isinstance(a, Obj) and a.path.endswith('.error_label'):
                start = i + 1
            elif start is not None:
                return events[start:i]
    return events[start:] if start is not None else None


def emits_return(e):
    if not (isinstance(e, Call) and e.name in EMIT and e.args):
        return False
    a = e.args[0]
    text = a if isinstance(a, str) else (a.text(' X ') if isinstance(a, Str) else '')
    return bool(re.search(r'(?<![\w.])return\b', text))


def assigns_in_same_statement(e, tok):
    """The emitted text assigns tok.entry itself (`X = alloc(); if (!X) return ...`): a failed acquisition, nothing is owned yet."""
    a = e.args[0]
    if not isinstance(a, Str):
        return False
    parts = a.parts
    for i, p in enumerate(parts[:-1]):
        if isinstance(p, Obj) and p.path.startswith(tok.path + '.entry') and isinstance(parts[i + 1], str) and re.match(r'\s*=(?!=)', parts[i + 1]):
            return True
    return False


def label_problems(ix, cls, fn, point):
    """-> (number of paths with an error-label block, [(token name, description)])"""
    star, starstar, kwonly = point
    toks = {}
    vals = {'self.num_kwonly_args': 2 if kwonly else 0}
    for name, present in (('star_arg', star), ('starstar_arg', starstar)):
        if present:
            toks[name] = Fresh('self.' + name)
            vals['self.' + name] = toks[name]
        else:
            vals['self.' + name] = None
    inl = Inliner(ix, cls, lambda p: vals.get(p, NOTFOUND))
    n, probs = 0, []
    for region in inl.paths(fn, region=label_region):
        n += 1
        rel = released(region, toks)
        for name in toks:
            if name not in rel:
                probs.append((name, [e.name for e in region if isinstance(e, Call)]))
    return n, probs


def init_problems(ix, cls, fn, point):
    """-> (number of (ownership mark, later return) pairs, [(token name, description)])"""
    star, starstar, kwonly = point
    toks = {}
    vals = {'self.num_kwonly_args': 2 if kwonly else 0}
    for name, present in (('star_arg', star), ('starstar_arg', starstar)):
        if present:
            toks[name] = Fresh('self.' + name)
            vals['self.' + name] = toks[name]
        else:
            vals['self.' + name] = None
    inl = Inliner(ix, cls, lambda p: vals.get(p, NOTFOUND))
    n, probs = 0, []
    for events in inl.paths(fn):
        owned = {}           # token name -> index of the ownership mark
        for i, e in enumerate(events):
            if not isinstance(e, Call):
                continue
            if GOTREF.match(e.name) and e.args:
                for name, tok in toks.items():
                    if isinstance(e.args[0], Obj) and e.args[0].path == tok.path + '.entry':
                        owned[name] = i
            elif emits_return(e):
                for name, j in owned.items():
                    if assigns_in_same_statement(e, toks[name]):
                        continue
                    n += 1
                    if name not in released(events[j:i], {name: toks[name]}):
                        probs.append((name, 'emitted `%s`' % (e.args[0].text('..') if isinstance(e.args[0], Str) else e.args[0])))
    return n, probs


POSITIVE = '''
class W:
    def generate_argument_parsing_code(self, env, code):
        old = code.new_error_label()
        ours = code.error_label
        end = code.new_label("done")
        self.parse(code)
        code.error_label = old
        if code.label_used(ours):
            code.put_goto(end)
            code.put_label(ours)
            if self.star_arg:
                self.drop(self.star_arg, code)
                if self.starstar_arg:
                    code.put_var_decref_clear(self.starstar_arg.entry)
            code.putln("return NULL;")
        code.put_label(end)

    def drop(self, arg, code):
        if arg:
            code.put_var_decref_clear(arg.entry)

    def generate_stararg_init_code(self, n, code):
        if self.starstar_arg:
            code.putln("%s = PyDict_New(); if (unlikely(!%s)) return NULL;" % (self.starstar_arg.entry.cname, self.starstar_arg.entry.cname))
            code.put_var_gotref(self.starstar_arg.entry)
        if self.star_arg:
            code.putln("%s = slice();" % self.star_arg.entry.cname)
            code.putln("if (unlikely(!%s)) {" % self.star_arg.entry.cname)
            code.putln("return NULL;")
            code.putln("}")
            code.put_var_gotref(self.star_arg.entry)
'''


class _MiniIndex:
    """The two pyindex queries the inliner needs, for the embedded positive example."""

    def __init__(self, tree):
        self.c = tree.body[0]
        self.methods = {f.name: f for f in self.c.body if isinstance(f, ast.FunctionDef)}

    def find_method(self, c, name):
        return (c, self.methods[name]) if name in self.methods else None


def rule_args(ctx):
    ix = ctx.index
    r = Rule('C35-ARGS', 'error exits of the wrapper\'s argument unpacking release the *args tuple and the **kwargs dict whenever they exist '
                         '(star_arg x starstar_arg x keyword-only arguments; error-label block and early returns of the star-argument set-up)', floor=8)
    cls = ix.cls('Nodes', 'DefNodeWrapper')
    got = ix.find_method(cls, 'generate_argument_parsing_code')
    got2 = ix.find_method(cls, 'generate_stararg_init_code')
    if got is None or got2 is None:
        raise AnalysisError('DefNodeWrapper.generate_argument_parsing_code / generate_stararg_init_code vanished')
    fn, fn2 = got[1], got2[1]
    total_blocks = 0
    reported = set()          # one finding per construct: the domain points are instances, not constructs
    for point in itertools.product((False, True), (False, True), (False, True)):
        star, starstar, kwonly = point
        if not (star or starstar):
            continue
        desc = '%s%s%s' % ('*args' if star else '', ('+' if star and starstar else '') + ('**kwargs' if starstar else ''), '+kwonly' if kwonly else '')
        n, probs = label_problems(ix, cls, fn, point)
        total_blocks += n
        key = 'args:error-label:%s' % desc
        r.inst(key, sample='%s: %d paths with an error-label cleanup block' % (key, n))
        if n == 0:
            raise AnalysisError('C35-ARGS: no path of generate_argument_parsing_code emits a cleanup block behind its error label for %s' % desc)
        for name, calls in probs:
            if ('label', name) in reported:
                continue
            reported.add(('label', name))
            r.violate('Nodes.DefNodeWrapper.generate_argument_parsing_code:%s' % name, NODES, fn.lineno,
                      'for a signature with %s the cleanup block behind the argument-unpacking error label does not release self.%s.entry on every path (it emits: %s): '
                      'when an argument conversion fails or a required argument is missing, the %s created before the unpacking leaks together with everything it holds'
                      % (desc, name, ', '.join(calls) or 'nothing', 'tuple' if name == 'star_arg' else 'dict'))
        if not kwonly:
            n2, probs2 = init_problems(ix, cls, fn2, point)
            key2 = 'args:init-return:%s' % desc
            r.inst(key2, sample='%s: %d (ownership mark, later emitted return) pairs' % (key2, n2))
            for name, what in probs2:
                if ('init', name) in reported:
                    continue
                reported.add(('init', name))
                r.violate('Nodes.DefNodeWrapper.generate_stararg_init_code:%s' % name, NODES, fn2.lineno,
                          'for a signature with %s generate_stararg_init_code marks self.%s.entry as owned (put_var_gotref) and later %s without releasing it: the reference leaks '
                          'when the following set-up step fails' % (desc, name, what))
            if star and starstar and n2 == 0:
                raise AnalysisError('C35-ARGS: generate_stararg_init_code no longer emits an early return after taking ownership of **kwargs; adapt the rule')
    # ---- positive control
    tree = ast.parse(POSITIVE)
    mi = _MiniIndex(tree)
    _, p1 = label_problems(mi, mi.c, mi.methods['generate_argument_parsing_code'], (False, True, False))
    _, p1b = label_problems(mi, mi.c, mi.methods['generate_argument_parsing_code'], (True, True, False))
    _, p2 = init_problems(mi, mi.c, mi.methods['generate_stararg_init_code'], (True, True, False))
    r.positive_control(any(n == 'starstar_arg' for n, _ in p1) and not p1b and any(n == 'starstar_arg' for n, _ in p2),
                       '**kwargs release nested under `if self.star_arg`; early return after gotref without decref')
    return r


def nullsafe_problems(ix, cls, fn, point):
    """Releases of X.entry with the NULL-unsafe variant (put_[var_]decref...) on a path of the initialiser that has not created X.entry
    (no ownership mark before it): the entry is still the NULL it was declared with."""
    star, starstar, kwonly = point
    toks, vals = {}, {'self.num_kwonly_args': 2 if kwonly else 0}
    for name, present in (('star_arg', star), ('starstar_arg', starstar)):
        if present:
            toks[name] = Fresh('self.' + name)
            vals['self.' + name] = toks[name]
        else:
            vals['self.' + name] = None
    inl = Inliner(ix, cls, lambda p: vals.get(p, NOTFOUND))
    n, probs = 0, []
    for events in inl.paths(fn):
        owned = set()
        for e in events:
            if not (isinstance(e, Call) and e.args and isinstance(e.args[0], Obj)):
                continue
            for name, tok in toks.items():
                if e.args[0].path != tok.path + '.entry':
                    continue
                if GOTREF.match(e.name):
                    owned.add(name)
                elif RELEASE.match(e.name):
                    n += 1
                    if 'xdecref' not in e.name and name not in owned:
                        probs.append((name, e.name))
    return n, probs


def rule_args_nullsafe(ctx):
    # pending finding (FINDING_2.md): generate_stararg_init_code decref_clears an unused (NULL) **kwargs entry; NOT registered in run()
    ix = ctx.index
    r = Rule('C35-ARGNULL', 'generate_stararg_init_code releases a star-argument entry with a NULL-unsafe decref only on paths that created it', floor=1)
    cls = ix.cls('Nodes', 'DefNodeWrapper')
    got = ix.find_method(cls, 'generate_stararg_init_code')
    if got is None:
        raise AnalysisError('DefNodeWrapper.generate_stararg_init_code vanished')
    fn = got[1]
    reported = set()
    for point in ((True, True, False), (False, True, False), (True, False, False)):
        n, probs = nullsafe_problems(ix, cls, fn, point)
        r.inst('argnull:%s%s' % ('*' if point[0] else '', '**' if point[1] else ''), sample='%d releases' % n)
        for name, call in probs:
            if name in reported:
                continue
            reported.add(name)
            r.violate('Nodes.DefNodeWrapper.generate_stararg_init_code:%s:null-unsafe' % name, NODES, fn.lineno,
                      'generate_stararg_init_code emits %s(self.%s.entry) on a path on which it has not created that entry (no put_var_gotref before it): the variable still holds '
                      'the NULL it was declared with, and Py_DECREF(NULL) crashes; use the xdecref variant or repeat the creation condition' % (call, name))
    return r


# ====================================================================================== C35-INOUT (fourth round)
"""C35-INOUT — C helpers that work on a reference *slot* (`PyObject **p`): once the helper has given up the reference
the slot held (a decref of `*p` or of a local loaded from it), it must store a new value (or NULL) into the slot before
every return.  Otherwise the caller's cleanup releases the same, already released, reference a second time.
Decided by a forward dataflow over the control-flow graph of each helper body (every preprocessor variant), with the
finite state  slot in {held, released} x set of locals aliasing the slot's content."""
from . import pC35 as _c

_DECREF = re.compile(r'\b(?:__Pyx_|Py_)X?DECREF\s*\(')
_CLEARSET = re.compile(r'\b(?:__Pyx_|Py_)(?:X?CLEAR|X?SETREF|X?DECREF_SET|XDECREF_SET)\s*\(')


def _call_args(text, start):
    """text[start] is just after '(' -> (list of top-level argument texts, index after ')')"""
    depth, i, cur, out = 1, start, [], []
    while i < len(text):
        ch = text[i]
        if ch in '([{':
            depth += 1
        elif ch in ')]}':
            depth -= 1
            if depth == 0:
                out.append(''.join(cur).strip())
                return out, i + 1
        if ch == ',' and depth == 1:
            out.append(''.join(cur).strip())
            cur = []
        else:
            cur.append(ch)
        i += 1
    return out, i


def _strip_cast(a):
    a = a.strip()
    while True:
        m = re.match(r'^\(\s*(?:struct\s+)?[A-Za-z_]\w*\s*\*+\s*\)\s*(.+)$', a)
        if m:
            a = m.group(1).strip()
            continue
        if a.startswith('(') and a.endswith(')') and _c._balanced(a[1:-1]):
            a = a[1:-1].strip()
            continue
        return a


class SlotClient:
    """state = (slot, aliases): slot 'held' | 'released'; aliases = frozenset of locals equal to the slot's current content."""

    def __init__(self, param):
        self.p = param
        self.deref = re.compile(r'\*\s*%s\b(?!\s*\[)' % re.escape(param))
        self.store = re.compile(r'(?<![=!<>+\-*/&|^])\*\s*%s\s*=(?!=)\s*(.*)$' % re.escape(param), re.S)
        self.load = re.compile(r'(?<![\w.>])([A-Za-z_]\w*)\s*=(?!=)\s*(?:\([^()]*\)\s*)?\*\s*%s\s*$' % re.escape(param))
        self.passed = re.compile(r'[(,]\s*%s\s*[,)]' % re.escape(param))

    def is_slot(self, arg, aliases):
        a = _strip_cast(arg)
        if self.deref.fullmatch(a) or re.fullmatch(r'%s\s*\[\s*0\s*\]' % re.escape(self.p), a):
            return True
        return a in aliases

    def transfer(self, kind, text, state):
        slot, aliases = state
        if kind == 'ret':
            return [state]
        # several simple expressions may share one statement through the comma operator / declarations: handle each clause
        for clause in ([text] if kind == 'br' else self.clauses(text)):
            slot, aliases = self.clause(clause, slot, aliases)
        return [(slot, aliases)]

    @staticmethod
    def clauses(text):
        out, depth, cur = [], 0, []
        for ch in text:
            if ch in '([{':
                depth += 1
            elif ch in ')]}':
                depth -= 1
            if ch == ',' and depth == 0:
                out.append(''.join(cur))
                cur = []
            else:
                cur.append(ch)
        out.append(''.join(cur))
        return out

    def clause(self, text, slot, aliases):
        # releases / clearing stores through the refcount macros
        for m in _CLEARSET.finditer(text):
            args, _ = _call_args(text, m.end())
            if args and self.is_slot(args[0], frozenset()):
                slot, aliases = 'held', frozenset()          # the macro stores a new value (or NULL) into the slot
        for m in _DECREF.finditer(text):
            args, _ = _call_args(text, m.end())
            if args and self.is_slot(args[0], aliases):
                slot = 'released'
        # the slot handed to another function: the callee maintains it
        if self.passed.search(text):
            slot, aliases = 'held', frozenset()
        m = self.store.search(text)
        if m:
            rhs = _strip_cast(m.group(1))
            if rhs not in aliases:                            # storing the old pointer back does not repair the slot
                slot = 'held'
                aliases = frozenset()
            return slot, aliases
        m = self.load.search(text.strip())
        if m:
            return slot, aliases | {m.group(1)}
        # a plain assignment to an alias ends the alias
        m = re.match(r'^(?:[A-Za-z_][\w\s\*]*?\s+\**)?([A-Za-z_]\w*)\s*=(?!=)', text.strip())
        if m and m.group(1) in aliases:
            aliases = aliases - {m.group(1)}
        return slot, aliases


def inout_problems(body, param):
    """-> (analysed: bool, [description of a return reached with a released slot])"""
    variants = _c.pp_variants(body)
    if variants is None:
        return False, []
    probs, seen = [], set()
    written = _c.assigned_names(body)

    def stable(key):
        ids = set(_c.IDENT.findall(key))
        return bool(ids) and not (ids & written) and '(' not in key
    for label, text in variants:
        cfg = _c.CFG(text)
        cl = SlotClient(param)
        for node, (slot, aliases) in _c.run_dataflow(cfg, ('held', frozenset()), cl.transfer, stable=stable):
            if slot == 'released':
                what = ('`return %s`' % node.text) if node.text else 'the end of the function'
                if (what,) not in seen:
                    seen.add((what,))
                    probs.append('%s [%s]' % (what, label))
    return True, probs


INOUT_POSITIVE = '''{
    PyObject *old = *slot;
    PyObject *res = NULL;
    if (ok(old)) res = convert(old);
    if (res) *slot = res;
    Py_DECREF(old);
    return res ? 0 : -1;
}'''
INOUT_NEGATIVE = '''{
    PyObject *old = *slot;
    PyObject *res;
    if (!ok(old)) goto bad;
    res = convert(old);
    if (!res) goto bad;
    *slot = res;
    Py_DECREF(old);
    return 0;
bad:
    Py_DECREF(old);
    *slot = NULL;
    return -1;
}'''


def rule_inout(ctx):
    r = Rule('C35-INOUT', 'a C helper that releases the reference held in a `PyObject **` slot (decref of *p or of a local loaded from it) stores a new value or NULL '
                          'into the slot before every return (all preprocessor variants, every path of the control-flow graph)', floor=4)
    cat = ctx.cat
    for name in sorted(cat.decls):
        for d in cat.decls[name]:
            if d.kind != 'func' or not d.body or d.params is None:
                continue
            for ptype, pname in zip(d.param_types(), d.param_names()):
                if not pname or ptype != 'PyObject * *':
                    continue
                body = d.body
                # only helpers that can release the slot's reference at all
                aliases = set(re.findall(r'(?<![\w.>])([A-Za-z_]\w*)\s*=(?!=)\s*(?:\([^()]*\)\s*)?\*\s*%s\b' % re.escape(pname), body))
                cand = False
                for m in _DECREF.finditer(body):
                    args, _ = _call_args(body, m.end())
                    if args and (re.fullmatch(r'\*\s*%s' % re.escape(pname), _strip_cast(args[0])) or _strip_cast(args[0]) in aliases):
                        cand = True
                if not cand:
                    continue
                key = '%s:%s:%s' % (d.file, name, pname)
                if '{{' in body or '{%' in body:
                    r.info('%s: Tempita-templated body, not analysed' % key)
                    continue
                try:
                    ok, probs = inout_problems(body, pname)
                except AnalysisError as e:
                    r.info('%s: not analysed (%s)' % (key, e))
                    continue
                if not ok:
                    r.info('%s: too many preprocessor variants, not analysed' % key)
                    continue
                r.inst(key, sample='%s(... PyObject **%s ...): releases the slot content; every return checked' % (name, pname))
                if probs:
                    r.violate(key, 'Cython/Utility/' + d.file, d.line,
                              '%s gives up the reference stored in *%s (decref) but reaches %s without storing a new value or NULL into *%s: the slot keeps a pointer whose reference '
                              'is gone, and the caller\'s cleanup of that slot releases it a second time (object freed while still referenced)' % (name, pname, '; '.join(probs[:3]), pname))
    _, p1 = inout_problems(INOUT_POSITIVE, 'slot')
    _, p2 = inout_problems(INOUT_NEGATIVE, 'slot')
    r.positive_control(bool(p1) and not p2, 'slot stored only when the conversion succeeded, old value decref\'ed on both paths / the goto-bad form that stores NULL')
    return r


# ====================================================================================== C35-REFTAB (fourth round)
"""C35-REFTAB — the reference-count emission table agrees from the writer API down to the C macros:

 (api)    CCodeWriter.put_<op> delegates to type.get_<op>_code and put_var_<op> to put_<op> for the SAME op
          (op in [x]incref, [x]decref, [x]decref_clear, [x]decref_set, [x]gotref, [x]giveref);
 (macro)  every macro of the family __Pyx_[Py_][X]{INCREF,DECREF,GOTREF,GIVEREF,CLEAR,DECREF_SET} of Refnanny.proto, in both
          configurations (CYTHON_REFNANNY on / off), has the effect its name promises: symbolic execution of the macro body
          (nested family macros expanded) on r in {NULL, object}: one acquire / release / got / give of the OLD value, routed
          through the nanny exactly when the nanny is on and the macro is not a __Pyx_Py_ one, the X variants do nothing on NULL,
          CLEAR / *_SET store NULL / v into r BEFORE the old value is released;
 (type)   what PyObjectType.get_<op>_code returns (evaluated over nanny x clear_before_decref with the decision-table
          evaluator, _get_decref_code inlined) has the effect of <op> on the variable when its text is executed with those
          macro effects.
"""
from .pC17 import parse_body as _parse_c, as_list as _as_list

OPS = ('incref', 'decref', 'gotref', 'giveref')
API_OP = re.compile(r'^(x?)(incref|decref|gotref|giveref)(_clear|_set)?$')
MACRO_NAME = re.compile(r'^__Pyx_(Py_)?(X?)(INCREF|DECREF|GOTREF|GIVEREF|CLEAR|DECREF_SET)$')
BASE_OPS = {      # CPython's own macros: (event kind, null-safe, stores NULL first)
    'Py_INCREF': ('acquire', False), 'Py_XINCREF': ('acquire', True), 'Py_DECREF': ('release', False), 'Py_XDECREF': ('release', True),
    'Py_NewRef': ('acquire', False), 'Py_XNewRef': ('acquire', True),
}
NANNY_FIELD = {'INCREF': 'acquire', 'DECREF': 'release', 'GOTREF': 'got', 'GIVEREF': 'give'}


class MacroExec:
    """Symbolic execution of refcount macro text on variables holding 'NULL' | 'R0' (the old, non-NULL object) | 'V' (the new value)."""

    def __init__(self, cat, nanny_on):
        self.cat, self.nanny_on = cat, nanny_on

    def pick(self, name):
        ds = [d for d in self.cat.decls.get(name, []) if d.kind == 'macro' and d.file == 'ModuleSetupCode.c' and d.section.name.startswith('Refnanny')]
        out = []
        for d in ds:
            conds = ' '.join(d.conds or ())
            if 'CYTHON_REFNANNY' in conds:
                is_else = 'else' in conds
                if is_else == self.nanny_on:
                    continue
            out.append(d)
        if len(out) > 1:
            raise AnalysisError('C35-REFTAB: %d definitions of %s for CYTHON_REFNANNY=%d' % (len(out), name, self.nanny_on))
        return out[0] if out else None

    def value(self, expr, env):
        e = _strip_cast(expr)
        if e in ('NULL', '0'):
            return 'NULL'
        if re.fullmatch(r'[A-Za-z_]\w*', e):
            if e in env:
                return env[e]
            return None
        return None

    def run(self, text, env, events, depth=0):
        if depth > 6:
            raise AnalysisError('C35-REFTAB: macro nesting deeper than 6')
        self.block(_parse_c('{' + text + ';}'), env, events, depth)

    def block(self, stmts, env, events, depth):
        for st in stmts:
            self.stmt(st, env, events, depth)

    def truth(self, cond, env):
        key, pol = _c.cond_key(cond)
        if key in ('0', '1'):
            return (key == '1') == pol
        v = self.value(key, env)
        if v is None or v == 'V':
            raise AnalysisError('C35-REFTAB: condition %r of a refcount macro is not decidable on the abstract values' % cond)
        return (v != 'NULL') == pol

    def stmt(self, st, env, events, depth):
        k = st.kind
        if k == 'block':
            return self.block(st.body, env, events, depth)
        if k == 'do':
            key, pol = _c.cond_key(st.text)
            if not (key == '0' and pol):
                raise AnalysisError('C35-REFTAB: do-while with condition %r in a refcount macro' % st.text)
            return self.block(_as_list(st.body), env, events, depth)
        if k == 'if':
            if self.truth(st.text, env):
                return self.block(_as_list(st.body), env, events, depth)
            if st.orelse is not None:
                return self.block(_as_list(st.orelse), env, events, depth)
            return
        if k != 'simple':
            raise AnalysisError('C35-REFTAB: statement kind %s in a refcount macro' % k)
        t = st.text.strip()
        if not t:
            return
        m = re.match(r'^(?:PyObject\s*\*\s*)?(\(*\s*[A-Za-z_]\w*\s*\)*)\s*=(?!=)\s*(.+)$', t)
        if m and _c._balanced(m.group(1)) and self.value(m.group(2), env) is not None:
            tgt = _strip_cast(m.group(1))
            v = self.value(m.group(2), env)
            env[tgt] = v
            events.append(('store', tgt, v))
            return
        m = re.match(r'^(__Pyx_RefNanny\s*->\s*\w+|[A-Za-z_]\w*)\s*\(', t)
        if not m:
            raise AnalysisError('C35-REFTAB: statement %r in a refcount macro is not modelled' % t[:50])
        args, end = _call_args(t, m.end())
        if t[end:].strip():
            raise AnalysisError('C35-REFTAB: trailing text after a call in %r' % t[:50])
        name = ''.join(m.group(1).split())
        if name.startswith('__Pyx_RefNanny->'):
            field = name.split('->')[1]
            if field not in NANNY_FIELD or len(args) != 3:
                raise AnalysisError('C35-REFTAB: nanny call %s is not modelled' % name)
            v = self.value(args[1], env)
            events.append((NANNY_FIELD[field], v, 'nanny') if v != 'NULL' else ('null-arg', field, 'nanny'))
            return
        if name in BASE_OPS:
            kind, safe = BASE_OPS[name]
            v = self.value(args[0], env)
            if v == 'NULL':
                if not safe:
                    events.append(('null-deref', name, 'plain'))
            else:
                events.append((kind, v, 'plain'))
            return
        if name in ('Py_CLEAR', 'Py_XCLEAR'):
            tgt = _strip_cast(args[0])
            v = self.value(tgt, env)
            env[tgt] = 'NULL'
            events.append(('store', tgt, 'NULL'))
            if v != 'NULL':
                events.append(('release', v, 'plain'))
            return
        d = self.pick(name)
        if d is None:
            raise AnalysisError('C35-REFTAB: %s is neither a family macro of Refnanny.proto nor a known CPython macro' % name)
        if len(d.params or []) != len(args):
            raise AnalysisError('C35-REFTAB: %s called with %d arguments' % (name, len(args)))
        body = d.body or ''
        declared = set(re.findall(r'PyObject\s*\*\s*([A-Za-z_]\w*)\s*=', body))
        for p, a in zip(d.params, args):
            if _strip_cast(a) in declared:
                raise AnalysisError('C35-REFTAB: argument %s of %s is captured by a local of the macro' % (a, name))
            body = re.sub(r'\b%s\b' % re.escape(p), '(%s)' % a, body)
        self.run(body, env, events, depth + 1)


def expected_effect(x, op, via, ordered=True):
    """-> function(events on R0 input, final R, events on NULL input, final R for NULL) -> problem text or None"""
    kind = {'INCREF': 'acquire', 'DECREF': 'release', 'GOTREF': 'got', 'GIVEREF': 'give', 'CLEAR': 'release', 'DECREF_SET': 'release'}[op]
    final = {'CLEAR': 'NULL', 'DECREF_SET': 'V'}.get(op, 'R0')

    def check(ev_obj, fin_obj, ev_null, fin_null):
        core = [e for e in ev_obj if e[0] != 'store']
        want = [] if (via == 'none') else [(kind, 'R0', via)]
        if core != want:
            return 'on a non-NULL object it performs %s instead of %s' % (core or 'nothing', want or 'nothing')
        if fin_obj != final:
            return 'it leaves the variable as %s instead of %s' % (fin_obj, final)
        if op in ('CLEAR', 'DECREF_SET') and want and ordered:
            order = [e[0] for e in ev_obj if e[0] == 'release' or (e[0] == 'store' and e[1] == 'R')]
            if order[:1] != ['store']:
                return 'it releases the old value before the variable is overwritten (a destructor run by the decref can still reach the dead object through the variable)'
        if x:
            bad = [e for e in ev_null if e[0] != 'store']
            if bad:
                return 'the NULL-safe variant touches a NULL pointer: %s' % bad
            if op in ('CLEAR', 'DECREF_SET') and fin_null != ('NULL' if op == 'CLEAR' else 'V'):
                return 'on NULL it leaves the variable as %s' % fin_null
        return None
    return check


def run_effect(ex, text):
    out = []
    for rv in ('R0', 'NULL'):
        env, ev = {'R': rv, 'V': 'V'}, []
        ex.run(text, env, ev)
        out.append((ev, env['R']))
    return out[0][0], out[0][1], out[1][0], out[1][1]


def type_method_text(ix, cls, name, point):
    """Text returned by PyObjectType.<name> for one domain point, placeholders R (the variable) and V (the new value); None when the method is absent."""
    got = ix.find_method(cls, name)
    if got is None:
        return None
    fn = got[1]

    def run(fn, env, depth=0):
        res = []
        oracle = lambda p: point.get(p, NOTFOUND) if p in point else NOTFOUND
        for p in Evaluator(oracle, what='%s.%s' % (cls.name, fn.name)).run_function(fn, env):
            if p.kind != 'return':
                continue
            v = p.ret
            if isinstance(v, Call) and isinstance(v.recv, Obj) and v.recv.path == 'self' and depth < 3:
                g = ix.find_method(cls, v.name)
                if g is None:
                    raise AnalysisError('C35-REFTAB: %s.%s delegates to unknown %s' % (cls.name, fn.name, v.name))
                f2 = g[1]
                params = [a.arg for a in f2.args.args][1:]
                env2 = {}
                for pn, a in zip(params, v.args):
                    env2[pn] = a
                env2.update(v.kwargs)
                defaults = f2.args.defaults
                for pn, dflt in zip(params[len(params) - len(defaults):], defaults):
                    if pn not in env2 and isinstance(dflt, ast.Constant):
                        env2[pn] = dflt.value
                res.extend(run(f2, env2, depth + 1))
            else:
                res.append(v)
        return res
    params = [a.arg for a in fn.args.args][1:]
    env = {}
    for pn in params:
        if pn in point:
            env[pn] = point[pn]
    for pn, dflt in zip(params[len(params) - len(fn.args.defaults):], fn.args.defaults):
        if pn not in env and pn not in ('cname', 'rhs_cname') and isinstance(dflt, ast.Constant):
            env[pn] = dflt.value if pn not in point else point[pn]
    env['cname'] = Obj('cname', True)
    if 'rhs_cname' in params:
        env['rhs_cname'] = Obj('rhs_cname', True)
    texts = set()
    for v in run(fn, env):
        if isinstance(v, str):
            texts.add(v)
            continue
        if not isinstance(v, Str):
            raise AnalysisError('C35-REFTAB: %s.%s returns %r, not emitted text' % (cls.name, name, v))
        parts = []
        for p in v.parts:
            if isinstance(p, str):
                parts.append(p)
            elif isinstance(p, Obj) and p.path == 'cname':
                parts.append('R')
            elif isinstance(p, Obj) and p.path == 'rhs_cname':
                parts.append('V')
            elif isinstance(p, Call) and p.name in ('as_pyobject',) and p.args and isinstance(p.args[0], Obj) and p.args[0].path == 'cname':
                parts.append('R')
            else:
                raise AnalysisError('C35-REFTAB: %s.%s: opaque piece %r in the emitted text' % (cls.name, name, p))
        texts.add(''.join(parts))
    if len(texts) != 1:
        raise AnalysisError('C35-REFTAB: %s.%s returns %d different texts for %s' % (cls.name, name, len(texts), point))
    return texts.pop()


REFTAB_POSITIVE = 'do { PyObject *tmp = (PyObject *) r; __Pyx_XDECREF(tmp); r = v; } while (0)'


def rule_reftab(ctx):
    ix, cat = ctx.index, ctx.cat
    r = Rule('C35-REFTAB', 'reference-count emission table: put_<op> -> get_<op>_code -> __Pyx_<OP> agree by operation, and every macro of the family has the effect of its name '
                           '(NULL-safety of the X variants, nanny routing, store-before-release of CLEAR/_SET) in both CYTHON_REFNANNY configurations', floor=60)
    # ---------------------------------------------------------------- (api)
    writer = ix.cls('Code', 'CCodeWriter')
    for mname, fn in sorted(writer.methods.items()):
        m = re.match(r'^put_(var_)?(.+)$', mname)
        if not m or not API_OP.match(m.group(2)):
            continue
        op, is_var = m.group(2), bool(m.group(1))
        key = 'api:CCodeWriter.%s' % mname
        used = set()
        for n in ast.walk(fn):
            if isinstance(n, ast.Attribute):
                if is_var:
                    m2 = re.match(r'^put_(.+)$', n.attr)
                    if m2 and API_OP.match(m2.group(1)) and isinstance(n.value, ast.Name) and n.value.id == 'self':
                        used.add(m2.group(1))
                else:
                    m2 = re.match(r'^get_(.+)_code$', n.attr)
                    if m2 and API_OP.match(m2.group(1)):
                        used.add(m2.group(1))
        r.inst(key, sample='%s delegates to %s' % (mname, ', '.join(sorted(used)) or '-'))
        if not used:
            r.violate(key, 'Cython/Compiler/Code.py', fn.lineno, 'CCodeWriter.%s does not delegate to %s for the operation `%s`: the reference-count operation is not emitted'
                      % (mname, 'self.put_%s' % op if is_var else 'type.get_%s_code' % op, op))
        elif used != {op}:
            r.violate(key, 'Cython/Compiler/Code.py', fn.lineno, 'CCodeWriter.%s emits the operation(s) %s instead of `%s`: callers asking for %s get %s (NULL-safety / clearing / direction of the count differ)'
                      % (mname, ', '.join(sorted(used)), op, op, ' / '.join(sorted(used - {op}))))
    # ---------------------------------------------------------------- (macro)
    effects = {}
    n_macros = 0
    for name in sorted(cat.decls):
        mm = MACRO_NAME.match(name)
        if not mm:
            continue
        for nanny_on in (True, False):
            ex = MacroExec(cat, nanny_on)
            d = ex.pick(name)
            if d is None:
                continue
            n_macros += 1
            key = 'macro:%s:%s' % (name, 'refnanny' if nanny_on else 'plain')
            plain_only, x, op = bool(mm.group(1)), bool(mm.group(2)), mm.group(3)
            via = 'plain' if (plain_only or not nanny_on) else 'nanny'
            if op in ('GOTREF', 'GIVEREF') and not nanny_on:
                via = 'none'
            call = '%s(%s)' % (name, ', '.join(['R', 'V'][:len(d.params or [])]))
            try:
                eff = run_effect(ex, call)
            except AnalysisError as e:
                raise AnalysisError('%s (%s)' % (e, key))
            r.inst(key, sample='%s: %s' % (key, [e for e in eff[0] if e[0] != 'store']))
            prob = expected_effect(x, op, via)(*eff)
            if prob:
                r.violate(key, 'Cython/Utility/ModuleSetupCode.c', d.line, '%s (CYTHON_REFNANNY=%d): %s' % (name, nanny_on, prob))
    if n_macros < 20:
        raise AnalysisError('C35-REFTAB: only %d macro definitions of the refcount family found in Refnanny.proto' % n_macros)
    # ---------------------------------------------------------------- (type)
    cls = ix.cls('PyrexTypes', 'PyObjectType')
    for mname in sorted(n for c in ix.mro(cls) for n in c.methods):
        m = re.match(r'^get_(.+)_code$', mname)
        if not m or not API_OP.match(m.group(1)):
            continue
        got = ix.find_method(cls, mname)
        if got is None or got[0].name != 'PyObjectType':
            continue
        am = API_OP.match(m.group(1))
        x, base, suffix = bool(am.group(1)), am.group(2), am.group(3) or ''
        op = {'': base.upper(), '_clear': 'CLEAR', '_set': 'DECREF_SET'}[suffix]
        params = [a.arg for a in got[1].args.args]
        for nanny in ((True, False) if 'nanny' in params else (True,)):
            for cbd in ((True, False) if 'clear_before_decref' in params else (False,)):
                point = {'nanny': nanny, 'clear_before_decref': cbd, 'have_gil': True}
                key = 'type:PyObjectType.%s:nanny=%d%s' % (mname, nanny, ':clear_first=%d' % cbd if 'clear_before_decref' in params else '')
                text = type_method_text(ix, cls, mname, point)
                r.inst(key, sample='%s -> %s' % (key, text))
                for nanny_on in (True, False):
                    ex = MacroExec(cat, nanny_on)
                    try:
                        eff = run_effect(ex, text)
                    except AnalysisError as e:
                        r.violate(key, 'Cython/Compiler/PyrexTypes.py', got[1].lineno, 'PyObjectType.%s (%s) returns `%s`, which the macro model cannot execute: %s' % (mname, point, text, e))
                        break
                    via = 'plain' if (not nanny or not nanny_on) else 'nanny'
                    if base in ('gotref', 'giveref') and not nanny_on:
                        via = 'none'
                    # Py_CLEAR is NULL-safe: a non-nanny clear may be stronger than asked
                    prob = expected_effect(x, op, via, ordered=(cbd if suffix == '_clear' else True))(*eff)
                    if prob:
                        r.violate(key, 'Cython/Compiler/PyrexTypes.py', got[1].lineno,
                                  'PyObjectType.%s(nanny=%s%s) returns `%s` (R = the variable, V = the new value); with CYTHON_REFNANNY=%d %s'
                                  % (mname, nanny, ', clear_before_decref=%s' % cbd if 'clear_before_decref' in params else '', text, nanny_on, prob))
                        break
    # ---------------------------------------------------------------- positive control
    ex = MacroExec(cat, True)
    eff = run_effect(ex, REFTAB_POSITIVE.replace('r', 'R').replace(' v;', ' V;').replace('PyObject', 'PyObject').replace('R = V', 'R = V'))
    r.positive_control(expected_effect(True, 'DECREF_SET', 'nanny')(*eff) is not None, 'a _SET macro that releases the old value before it stores the new one')
    return r


# ====================================================================================== C35-LIFE / C35-OVR (fourth round)
"""C35-LIFE — within one generator method, X.free_temps(code) is only reached after X was disposed of
(generate_disposal_code / generate_post_assignment_code / handed to generate_assignment_code) on every path since its
evaluation: freeing the temp NAME of a value whose reference was never released leaks the reference (and hands the
still-occupied temp to the next user).  Decides the ORDER E -> D -> F that G1 (existence per class) leaves open.

C35-OVR — a node class that overrides generate_disposal_code / free_temps (so the inherited walk over `subexprs` does
not run) must handle, in the override, every sub-expression self.X its own evaluation method evaluates explicitly."""
from ..engine import pyflow as _pyflow
from ..engine.pyindex import walk_no_nested as _walk_no_nested
from .gen2 import recv_key as _recv_key, loop_aliases as _loop_aliases, EVAL as _EVAL, DISP as _DISP, FREE as _FREE, TRANSFER as _TRANSFER
from .gen import gen_functions as _gen_functions


def life_problems(fn):
    """receivers X for which some path reaches X.free_temps() after X.generate_evaluation_code() without a disposal in between"""
    recvs = set()
    aliases = _loop_aliases(fn)
    for c in _walk_no_nested(fn):
        if isinstance(c, ast.Call) and isinstance(c.func, ast.Attribute) and c.func.attr in _EVAL and len(c.args) == 1 and not c.keywords:
            k = _recv_key(c.func.value)
            if k and k != 'self' and k not in aliases:
                recvs.add(k)
    freed = {_recv_key(c.func.value) for c in _walk_no_nested(fn)
             if isinstance(c, ast.Call) and isinstance(c.func, ast.Attribute) and c.func.attr in _FREE}
    recvs &= freed                      # only receivers the method also frees carry an obligation
    out = {}
    for recv in sorted(recvs):
        def tr(n, state, recv=recv):
            s = set(state)
            for c in _pyflow.calls_in(n):
                if not isinstance(c.func, ast.Attribute):
                    if isinstance(c.func, ast.Name) and c.func.id in ('error', 'internal_error'):
                        s.add('ERR')
                    continue
                a = c.func.attr
                if _recv_key(c.func.value) == recv:
                    if a in _EVAL and len(c.args) == 1 and not c.keywords:
                        s.add('E')
                        s.discard('D')
                    elif a in _DISP:
                        s.add('D')
                    elif a in _FREE:
                        if 'E' in s and 'D' not in s and 'ERR' not in s:
                            s.add(('BAD', c.lineno))
                        s.discard('E')
                        s.discard('D')
                if a in _TRANSFER and c.args and _recv_key(c.args[0]) == recv:
                    s.add('D')
                # the value handed to another generator method of the same node (self.generate_xyz(..., X, ...)) may be disposed of there
                if a.startswith('generate_') and a not in _EVAL | _DISP | _FREE and any(_recv_key(x) == recv for x in c.args):
                    s.add('D')
            return frozenset(s)
        try:
            o = _pyflow.Flow(tr).run(fn)
        except _pyflow.TooManyStates:
            out[recv] = None
            continue
        bad = sorted({f[1] for st in (o.normal | o.returns) for f in st if isinstance(f, tuple) and f and f[0] == 'BAD'})
        out[recv] = bad
    return out


def confirm_life(fn, recv):
    """Exact re-check over all truth assignments of the method's atomic tests (atoms whose names are written more than once, loops
    around the protocol calls, or more than 10 atoms -> None)."""
    def mark(c):
        if not isinstance(c.func, ast.Attribute):
            return None
        a = c.func.attr
        if _recv_key(c.func.value) == recv:
            if a in _EVAL and len(c.args) == 1 and not c.keywords:
                return 'E'
            if a in _DISP:
                return 'D'
            if a in _FREE:
                return 'F'
        if a in _TRANSFER and c.args and _recv_key(c.args[0]) == recv:
            return 'D'
        if a.startswith('generate_') and a not in _EVAL | _DISP | _FREE and any(_recv_key(x) == recv for x in c.args):
            return 'D'
        return None
    try:
        t = Table(fn.body, mark, seq=True)
        if len(t.atoms) > 10:
            return None
        stores = {}
        for n in _walk_no_nested(fn):
            if isinstance(n, ast.Name) and isinstance(n.ctx, ast.Store):
                stores[n.id] = stores.get(n.id, 0) + 1
        for a in t.atoms:
            for nm in re.findall(r'[A-Za-z_]\w*', a):
                if stores.get(nm, 0) > 1:
                    return None
        for val, marks in t.rows():
            st = None
            for mk in marks:
                if mk == 'E':
                    st = 'E'
                elif mk == 'D' and st == 'E':
                    st = 'D'
                elif mk == 'F':
                    if st == 'E':
                        return True
                    st = None
        return False
    except AnalysisError:
        return None


LIFE_POSITIVE = '''
def generate_assignment_code(self, rhs, code):
    self.obj.generate_evaluation_code(code)
    if self.fast:
        code.putln("x")
        self.obj.generate_disposal_code(code)
    self.obj.free_temps(code)
'''


def rule_life(ctx):
    r = Rule('C35-LIFE', 'X.free_temps(code) is reached only after X was disposed of (disposal / post-assignment / ownership transfer) on every path since X.generate_evaluation_code(code) in the same method', floor=44)
    for m, qn, owner, fn in _gen_functions(ctx):
        if m.short == 'Code':
            continue
        for recv, bad in life_problems(fn).items():
            key = '%s.%s:%s' % (m.short, qn, recv)
            if bad is None:
                r.info('%s: state explosion' % key)
                continue
            # only receivers the method also frees are obligations
            if not any(isinstance(c, ast.Call) and isinstance(c.func, ast.Attribute) and c.func.attr in _FREE and _recv_key(c.func.value) == recv for c in _walk_no_nested(fn)):
                continue
            r.inst(key, sample='%s evaluates and frees %s' % (m.short + '.' + qn, recv))
            if bad:
                # the flow engine correlates equal test texts only; confirm on the exact boolean decision table of the method
                conf = confirm_life(fn, recv)
                if conf is None:
                    r.info('%s: a path frees before disposal in the flow engine, but the tests of the method cannot be tabulated; not reported' % key)
                    continue
                if not conf:
                    continue
                r.violate(key + ':free-before-disposal', m.rel, bad[0],
                          '%s evaluates %s and on some path calls %s.free_temps(code) (line %d) without generate_disposal_code / generate_post_assignment_code / an ownership transfer in between: '
                          'the temporary holding the value is handed back while it still owns its reference, which is never released' % (qn, recv, recv, bad[0]))
    pc = ast.parse(LIFE_POSITIVE).body[0]
    r.positive_control(bool(life_problems(pc).get('self.obj')), 'disposal only on one branch before free_temps')
    return r


def _handled(fn, kinds_attr, ix, cls, depth=0):
    """receivers self.X for which fn (or a method of self it calls, one level) calls one of kinds_attr; plus 'generic' when it
    delegates to the inherited walk over subexprs"""
    out, generic = set(), False
    aliases = _loop_aliases(fn)
    for c in _walk_no_nested(fn):
        if not (isinstance(c, ast.Call) and isinstance(c.func, ast.Attribute)):
            continue
        a = c.func.attr
        k = _recv_key(c.func.value)
        if a in kinds_attr:
            if isinstance(c.func.value, ast.Call) and isinstance(c.func.value.func, ast.Name) and c.func.value.func.id == 'super':
                generic = True
            elif k in ('ExprNode', 'Node') or (k and k[:1].isupper() and c.args and isinstance(c.args[0], ast.Name) and c.args[0].id == 'self'):
                generic = True
            elif k and k != 'self':
                out.add(k)
                for k2 in aliases.get(k, ()):
                    if k2:
                        out.add(k2)
                    else:
                        out.add('*')
        elif a in ('generate_subexpr_disposal_code', 'free_subexpr_temps') and k == 'self':
            generic = True
        elif a in _TRANSFER and c.args and _recv_key(c.args[0]):
            out.add(_recv_key(c.args[0]))
        elif k == 'self' and depth < 1:
            got = ix.find_method(cls, a)
            if got is not None and got[1] is not fn:
                o2, g2 = _handled(got[1], kinds_attr, ix, cls, depth + 1)
                out |= o2
                generic = generic or g2
    return out, generic


def rule_ovr(ctx):
    ix = ctx.index
    r = Rule('C35-OVR', 'a node class that overrides generate_disposal_code / free_temps handles every sub-expression its own evaluation method evaluates explicitly '
                        '(the inherited walk over subexprs does not run for it)', floor=8)
    base = ix.cls('ExprNodes', 'ExprNode')
    for cls in sorted(ix.subclasses(base), key=lambda c: (c.module.short, c.name)):
        ev = ix.find_method(cls, 'generate_evaluation_code')
        if ev is None or ev[0].name == 'ExprNode':
            continue
        evaluated = {}
        aliases = _loop_aliases(ev[1])
        for c in _walk_no_nested(ev[1]):
            if isinstance(c, ast.Call) and isinstance(c.func, ast.Attribute) and c.func.attr in _EVAL and len(c.args) == 1 and not c.keywords:
                k = _recv_key(c.func.value)
                if k and k.startswith('self.') and k.count('.') == 1 and k not in aliases:
                    evaluated[k] = c
        if not evaluated:
            continue
        same_method_d, _ = _handled(ev[1], _DISP, ix, cls, depth=1)
        same_method_f, _ = _handled(ev[1], _FREE, ix, cls, depth=1)
        sub = ix.class_list_attr(cls, 'subexprs')
        subexprs = set(sub[1]) if sub and sub[1] else set()
        for what, names, same in (('generate_disposal_code', _DISP, same_method_d), ('free_temps', _FREE, same_method_f)):
            ov = ix.find_method(cls, what)
            if ov is None or ov[0].name in ('ExprNode', 'Node'):
                continue
            handled, generic = _handled(ov[1], names, ix, cls)
            for recv, call in sorted(evaluated.items()):
                key = '%s.%s:%s:%s' % (cls.module.short, cls.name, what, recv)
                r.inst(key, sample='%s.%s overrides %s (defined in %s); evaluates %s' % (cls.module.short, cls.name, what, ov[0].name, recv))
                attr = recv.split('.')[1]
                if recv in handled or '*' in handled or recv in same or (generic and attr in subexprs):
                    continue
                r.violate(key, cls.module.rel, ov[1].lineno,
                          '%s.generate_evaluation_code evaluates %s, but %s.%s (which replaces the inherited walk over subexprs) never calls %s.%s(code)%s: %s'
                          % (cls.name, recv, ov[0].name, what, recv, what,
                             '' if not generic else ' and %s is not in subexprs' % attr,
                             'the reference held by that sub-expression\'s temporary is never released' if what == 'generate_disposal_code' else 'its temporaries are never handed back'))
    pcf = ast.parse('def generate_disposal_code(self, code):\n    self.key.generate_disposal_code(code)\n').body[0]
    h, g = _handled(pcf, _DISP, _MiniIndex(ast.parse('class K:\n    pass\n')), None)
    r.positive_control(h == {'self.key'} and not g and 'self.value' not in h, 'an override that disposes of self.key only (self.value evaluated by the class)')
    return r


# ====================================================================================== C35-ERRLBL (fourth round)
def rule_errlabel(ctx):
    """Every function-level generator that places the function's own error label releases ALL managed temps behind it, NULL-safely."""
    r = Rule('C35-ERRLBL', 'behind the error label of a C function (put_label(code.error_label) of a function-level generator) every managed temp is released with a NULL-safe decref: '
                           'for cname, type in <funcstate>.all_managed_temps(): put_xdecref(cname, type)', floor=3)
    ix = ctx.index
    for m, qn, owner, fn in _gen_functions(ctx):
        for blk in _blocks(fn):
            for i, st in enumerate(blk):
                call = _label_call(st)
                if call is None:
                    continue
                # a nested error label (code.new_error_label() earlier in the function) is not the function's exit
                if any(isinstance(c, ast.Call) and isinstance(c.func, ast.Attribute) and c.func.attr == 'new_error_label' and c.lineno < st.lineno for c in _walk_no_nested(fn)):
                    continue
                key = '%s.%s:error-label' % (m.short, qn)
                r.inst(key, sample='%s places its error label at line %d' % (m.short + '.' + qn, st.lineno))
                prob = _errlabel_problem(fn, _inline_helpers(blk[i + 1:], ix, owner))
                if prob:
                    r.violate(key, m.rel, st.lineno, '%s places the error label of the C function but %s: temporaries that hold a reference when an operation fails are %s'
                              % (qn, prob[0], prob[1]))
    pc = ast.parse('def g(self, code):\n    code.put_label(code.error_label)\n    for cname, type in code.funcstate.temps_holding_reference():\n        code.put_xdecref(cname, type)\n').body[0]
    r.positive_control(_errlabel_problem(pc, pc.body[1:]) is not None, 'cleanup iterating temps_holding_reference() instead of all_managed_temps()')
    return r


def _inline_helpers(stmts, ix, owner):
    """statement list with the bodies of helper methods called as plain statements (`self.helper(...)` of the same class,
    `code.helper(...)` of CCodeWriter) spliced in behind the call (one level): extracting a helper must not hide a cleanup loop."""
    out = []
    for st in stmts:
        out.append(st)
        if isinstance(st, ast.Expr) and isinstance(st.value, ast.Call) and isinstance(st.value.func, ast.Attribute) and isinstance(st.value.func.value, ast.Name):
            recv, name = st.value.func.value.id, st.value.func.attr
            got = None
            if recv == 'self' and owner is not None:
                got = ix.find_method(owner, name)
            elif recv.endswith('code'):
                try:
                    got = ix.find_method(ix.cls('Code', 'CCodeWriter'), name)
                except Exception:
                    got = None
            if got is not None and len(got[1].body) < 40:
                out.extend(got[1].body)
    return out


def _blocks(fn):
    for n in ast.walk(fn):
        for f in ('body', 'orelse', 'finalbody'):
            b = getattr(n, f, None)
            if isinstance(b, list) and b and isinstance(b[0], ast.stmt):
                yield b


def _label_call(st):
    if isinstance(st, ast.Expr) and isinstance(st.value, ast.Call) and isinstance(st.value.func, ast.Attribute) and st.value.func.attr == 'put_label' and st.value.args:
        a = st.value.args[0]
        if isinstance(a, ast.Attribute) and a.attr == 'error_label':
            return st.value
    return None


def _errlabel_problem(fn, following):
    local = {}
    for n in _walk_no_nested(fn):
        if isinstance(n, ast.Assign) and len(n.targets) == 1 and isinstance(n.targets[0], ast.Name):
            local.setdefault(n.targets[0].id, []).append(n.value)

    def source(it):
        if isinstance(it, ast.Name) and len(local.get(it.id, [])) == 1:
            return source(local[it.id][0])
        if isinstance(it, ast.Call) and isinstance(it.func, ast.Name) and it.func.id in ('list', 'sorted', 'tuple', 'reversed') and it.args:
            return source(it.args[0])
        if isinstance(it, ast.Call) and isinstance(it.func, ast.Attribute):
            return it.func.attr
        return None
    seen_other = None
    for st in following:
        if _label_call(st) is not None:
            break
        for n in ([st] if isinstance(st, ast.For) else []):
            src = source(n.iter)
            if src is None or 'temps' not in src:
                continue
            if src != 'all_managed_temps':
                seen_other = src
                continue
            tgt = n.target.elts[0].id if isinstance(n.target, ast.Tuple) and n.target.elts and isinstance(n.target.elts[0], ast.Name) else None
            rel = [c for c in ast.walk(n) if isinstance(c, ast.Call) and isinstance(c.func, ast.Attribute) and re.match(r'^put_x?decref(_clear)?$', c.func.attr)
                   and c.args and isinstance(c.args[0], ast.Name) and c.args[0].id == tgt]
            if not rel:
                return ('the loop over all_managed_temps() releases nothing', 'leaked')
            if any(not c.func.attr.startswith('put_xdecref') for c in rel):
                return ('releases them with the NULL-unsafe %s' % rel[0].func.attr, 'released correctly, but every temp that is unset (NULL) at that moment is dereferenced: crash')
            return None
    if seen_other:
        return ('iterates %s() instead of all_managed_temps()' % seen_other, 'leaked (temps released by the end of code generation are skipped although they are live at the failing operation)')
    return ('no loop over all_managed_temps() follows the label', 'leaked')


# ====================================================================================== C35-ARGPAIR / C35-TEMPKEY: a tiny boolean decision-table evaluator
class Table:
    """Decision table of a statement list over the truth of its atomic tests: for every assignment of the atoms, the set of
    `marks` (client-defined labels of calls) executed before the block ends / `continue` / `return`.  `x not in y` and
    `x is not None` are the negations of the atoms `x in y` / `x is None`."""

    def __init__(self, stmts, mark, fixed=None, seq=False, mark_stmt=None):
        self.stmts, self.mark, self.fixed, self.seq, self.mark_stmt = stmts, mark, dict(fixed or {}), seq, mark_stmt
        self.atoms = []
        for s in stmts:
            self._collect(s)

    def _atom(self, e):
        """-> (text, negated) for an atomic test"""
        if isinstance(e, ast.Compare) and len(e.ops) == 1:
            op = e.ops[0]
            if isinstance(op, (ast.NotIn, ast.IsNot, ast.NotEq)):
                pos = ast.Compare(left=e.left, ops=[{ast.NotIn: ast.In, ast.IsNot: ast.Is, ast.NotEq: ast.Eq}[type(op)]()], comparators=e.comparators)
                return ' '.join(ast.unparse(pos).split()), True
        return ' '.join(ast.unparse(e).split()), False

    def _collect_test(self, e):
        if isinstance(e, ast.BoolOp):
            for v in e.values:
                self._collect_test(v)
        elif isinstance(e, ast.UnaryOp) and isinstance(e.op, ast.Not):
            self._collect_test(e.operand)
        else:
            t, _ = self._atom(e)
            if t not in self.atoms and t not in self.fixed:
                self.atoms.append(t)

    def _collect(self, s):
        if isinstance(s, ast.If):
            self._collect_test(s.test)
            for x in s.body + s.orelse:
                self._collect(x)
        elif isinstance(s, (ast.For, ast.While, ast.With, ast.Try)):
            for x in getattr(s, 'body', []) + getattr(s, 'orelse', []) + getattr(s, 'finalbody', []):
                self._collect(x)

    def _ev(self, e, val):
        if isinstance(e, ast.BoolOp):
            vs = [self._ev(v, val) for v in e.values]
            return all(vs) if isinstance(e.op, ast.And) else any(vs)
        if isinstance(e, ast.UnaryOp) and isinstance(e.op, ast.Not):
            return not self._ev(e.operand, val)
        t, neg = self._atom(e)
        return val[t] != neg

    def _run(self, stmts, val, marks):
        """-> 'next' | 'stop'"""
        for s in stmts:
            if isinstance(s, ast.If):
                res = self._run(s.body if self._ev(s.test, val) else s.orelse, val, marks)
                if res == 'stop':
                    return 'stop'
            elif isinstance(s, (ast.Continue, ast.Return, ast.Break, ast.Raise)):
                if isinstance(s, ast.Raise):
                    marks.append('#raise') if self.seq else marks.add('#raise')
                return 'stop'
            elif isinstance(s, (ast.For, ast.While, ast.With, ast.Try)):
                for c in ast.walk(s):
                    if isinstance(c, ast.Call) and self.mark(c):
                        raise AnalysisError('decision table: a marked call sits inside a nested %s' % type(s).__name__)
            else:
                if self.mark_stmt is not None:
                    mk = self.mark_stmt(s)
                    if mk:
                        marks.append(mk) if self.seq else marks.add(mk)
                calls = [c for c in ast.walk(s) if isinstance(c, ast.Call)]
                calls.sort(key=lambda c: (c.end_lineno, c.end_col_offset))      # evaluation order of nested / sequential calls
                for c in calls:
                    mk = self.mark(c)
                    if mk:
                        marks.append(mk) if self.seq else marks.add(mk)
        return 'next'

    def rows(self, max_atoms=10):
        if len(self.atoms) > max_atoms:
            raise AnalysisError('decision table with %d atoms' % len(self.atoms))
        for bits in itertools.product((False, True), repeat=len(self.atoms)):
            val = dict(zip(self.atoms, bits))
            val.update(self.fixed)
            marks = [] if self.seq else set()
            self._run(self.stmts, val, marks)
            yield val, marks


def _entry_mark(var):
    def mark(c):
        if isinstance(c.func, ast.Attribute) and c.args and isinstance(c.args[0], ast.Name) and c.args[0].id == var:
            a = c.func.attr
            if re.match(r'^put_var_x?incref(_memoryviewslice)?$', a):
                return 'incref'
            if re.match(r'^put_var_x?decref(_clear)?$', a):
                return 'decref'
        return None
    return mark


def argpair_problems(fn, body_call='generate_function_body', ix=None, owner=None):
    """-> (n rows compared, [(class, flags text, entry marks, exit marks)])"""
    split = None
    for n in _walk_no_nested(fn):
        if isinstance(n, ast.Call) and isinstance(n.func, ast.Attribute) and n.func.attr == body_call:
            split = n.lineno
    if split is None:
        raise AnalysisError('C35-ARGPAIR: no call of %s in %s' % (body_call, fn.name))
    loops = {('arg', 'entry'): [], ('arg', 'exit'): [], ('var', 'entry'): [], ('var', 'exit'): []}
    cands = [(n, n.lineno) for n in _walk_no_nested(fn) if isinstance(n, ast.For)]
    if ix is not None and owner is not None:
        # loops moved into a helper method of the same class count at the position of the call
        for c in _walk_no_nested(fn):
            if isinstance(c, ast.Call) and isinstance(c.func, ast.Attribute) and isinstance(c.func.value, ast.Name) and c.func.value.id == 'self' and c.func.attr != body_call:
                got = ix.find_method(owner, c.func.attr)
                if got is not None and got[1] is not fn and len(got[1].body) < 40:
                    cands.extend((n, c.lineno) for n in _walk_no_nested(got[1]) if isinstance(n, ast.For))
    for n, line in cands:
        if isinstance(n.target, ast.Name):
            names = {x.attr for x in ast.walk(n.iter) if isinstance(x, ast.Attribute)} | {x.id for x in ast.walk(n.iter) if isinstance(x, ast.Name)}
            kinds = names & {'arg_entries', 'var_entries'}
            if len(kinds) != 1:
                continue
            mk = _entry_mark(n.target.id)
            if not any(isinstance(c, ast.Call) and mk(c) for c in ast.walk(n)):
                continue
            loops[('arg' if 'arg_entries' in kinds else 'var', 'entry' if line < split else 'exit')].append(n)
    probs, nrows = [], 0
    for cls in ('arg', 'var'):
        ent, ext = loops[(cls, 'entry')], loops[(cls, 'exit')]
        if not ent or not ext:
            if cls == 'arg' or ent:
                raise AnalysisError('C35-ARGPAIR: %s loops over lenv.%s_entries with reference-count emissions: entry %d, exit %d' % (fn.name, cls, len(ent), len(ext)))
            continue

        def norm_loop(loop):
            # rename the loop variable to `entry` so that both sides share their atoms
            v = loop.target.id
            class Ren(ast.NodeTransformer):
                def visit_Name(self, node):
                    return ast.copy_location(ast.Name(id='entry', ctx=node.ctx), node) if node.id == v else node
            import copy
            return [Ren().visit(copy.deepcopy(s)) for s in loop.body]
        fixed = {}
        if cls == 'var':
            fixed = {'entry.is_arg': True, 'entry.used': True, 'entry.type.needs_refcounting': True}
        tabs_e = [Table(norm_loop(l), _entry_mark('entry'), fixed) for l in ent]
        tabs_x = [Table(norm_loop(l), _entry_mark('entry'), fixed) for l in ext]
        atoms = []
        for t in tabs_e + tabs_x:
            for a in t.atoms:
                if a not in atoms:
                    atoms.append(a)
        if len(atoms) > 10:
            raise AnalysisError('C35-ARGPAIR: %d atoms' % len(atoms))
        for bits in itertools.product((False, True), repeat=len(atoms)):
            val = dict(zip(atoms, bits))
            val.update(fixed)
            me, mx = set(), set()
            for t in tabs_e:
                t._run(t.stmts, val, me)
            for t in tabs_x:
                t._run(t.stmts, val, mx)
            nrows += 1
            inc, dec = 'incref' in me, 'decref' in mx
            if inc != dec:
                probs.append((cls, ', '.join('%s=%s' % (a, val[a]) for a in atoms), inc, dec))
    return nrows, probs


def rule_argpair(ctx):
    ix = ctx.index
    r = Rule('C35-ARGPAIR', 'FuncDefNode.generate_function_definitions: an argument entry is incref\'ed before the body exactly when it is decref\'ed at the function exit '
                            '(decision tables of the lenv.arg_entries / lenv.var_entries loops on both sides of generate_function_body, over all flag combinations)', floor=100)
    cls = ix.cls('Nodes', 'FuncDefNode')
    got = ix.find_method(cls, 'generate_function_definitions')
    if got is None:
        raise AnalysisError('FuncDefNode.generate_function_definitions vanished')
    n, probs = argpair_problems(got[1], ix=ix, owner=got[0])
    for i in range(n):
        r.inst('argpair:row%d' % i)
    seen = set()
    for c, flags, inc, dec in probs:
        k = (c, inc)
        if k in seen:
            continue
        seen.add(k)
        r.violate('Nodes.FuncDefNode.generate_function_definitions:%s_entries:%s' % (c, 'leak' if inc else 'over-release'), 'Cython/Compiler/Nodes.py', got[1].lineno,
                  'for an entry of lenv.%s_entries with %s the function %s: %s' % (
                      c, flags, 'emits an incref before the body but no decref at the exit' if inc else 'emits a decref at the exit without an incref before the body',
                      'one reference to the argument leaks per call' if inc else 'the caller\'s (borrowed) reference is released: the object can be freed while still referenced'))
    pc = ast.parse('''
def generate_function_definitions(self, env, code):
    for entry in lenv.arg_entries:
        if (acquire_gil or entry.cf_is_reassigned) and not entry.in_closure:
            code.put_var_incref(entry)
    self.generate_function_body(env, code)
    for entry in lenv.arg_entries:
        if entry.in_closure:
            continue
        if not entry.cf_is_reassigned:
            continue
        code.put_var_xdecref(entry)
''').body[0]
    r.positive_control(bool(argpair_problems(pc)[1]), 'exit side forgets the acquire_gil case')
    return r


def rule_tempkey(ctx):
    ix = ctx.index
    r = Rule('C35-TEMPKEY', 'FunctionState temp free lists: a reused temp leaves the free set, a released temp enters it on every path, and temps_in_use() lists exactly the temps that are not in it', floor=4)
    cls = ix.cls('Code', 'FunctionState')
    rel = 'Cython/Compiler/Code.py'

    def method(name):
        got = ix.find_method(cls, name)
        if got is None:
            raise AnalysisError('FunctionState.%s vanished' % name)
        return got[1]

    def sub_of(e, idx):
        """e is `<name>[idx]` -> name"""
        if isinstance(e, ast.Subscript) and isinstance(e.value, ast.Name) and isinstance(e.slice, ast.Constant) and e.slice.value == idx:
            return e.value.id
        return None
    # ---- (1) allocate_temp: X = F[0].pop()  =>  F[1].remove(X) later in the same block
    fn = method('allocate_temp')
    n_pop = 0
    for blk in _blocks(fn):
        for i, st in enumerate(blk):
            if isinstance(st, ast.Assign) and len(st.targets) == 1 and isinstance(st.targets[0], ast.Name) and isinstance(st.value, ast.Call) and \
                    isinstance(st.value.func, ast.Attribute) and st.value.func.attr == 'pop' and sub_of(st.value.func.value, 0):
                n_pop += 1
                F, X = sub_of(st.value.func.value, 0), st.targets[0].id
                r.inst('tempkey:allocate:reuse', sample='allocate_temp reuses %s = %s[0].pop()' % (X, F))
                ok = False
                for later in blk[i + 1:]:
                    for c in ast.walk(later):
                        if isinstance(c, ast.Call) and isinstance(c.func, ast.Attribute) and c.func.attr in ('remove', 'discard') and sub_of(c.func.value, 1) == F and \
                                c.args and isinstance(c.args[0], ast.Name) and c.args[0].id == X:
                            ok = True
                if not ok:
                    r.violate('Code.FunctionState.allocate_temp:reuse', rel, st.lineno,
                              'allocate_temp takes a temp from the free list (%s = %s[0].pop()) but does not remove it from the free SET %s[1]: temps_in_use() / temps_holding_reference() '
                              'treat the live temp as free, so `return`, `yield` and try/finally do not release or save its reference, and the next release_temp() raises' % (X, F, F))
    if n_pop == 0:
        raise AnalysisError('C35-TEMPKEY: allocate_temp no longer reuses temps through <freelist>[0].pop()')
    # ---- (2) release_temp: <F>[1].add(name) on every non-raising path
    fn = method('release_temp')
    pname = fn.args.args[1].arg

    def mark_add(c):
        if isinstance(c.func, ast.Attribute) and c.func.attr == 'add' and sub_of(c.func.value, 1) and c.args and isinstance(c.args[0], ast.Name) and c.args[0].id == pname:
            return 'add'
        return None
    t = Table(fn.body, mark_add)
    nrow = 0
    for val, marks in t.rows():
        nrow += 1
        if '#raise' in marks:
            continue
        if 'add' not in marks:
            r.violate('Code.FunctionState.release_temp:free-set', rel, fn.lineno,
                      'release_temp(%s) does not add the name to the free set on the path %s: the temp stays "in use" for ever (it is released again at every return / yield)' % (pname, {k: v for k, v in val.items()}))
            break
    r.inst('tempkey:release', sample='release_temp: %d paths' % nrow)
    # ---- (3) temps_in_use: listed  <=>  no free list yet or not in the free set
    fn = method('temps_in_use')
    loops = [n for n in _walk_no_nested(fn) if isinstance(n, ast.For)]
    if len(loops) != 1:
        raise AnalysisError('C35-TEMPKEY: temps_in_use has %d loops' % len(loops))

    def mark_app(c):
        if isinstance(c.func, ast.Attribute) and c.func.attr == 'append':
            return 'listed'
        return None
    t = Table(loops[0].body, mark_app)
    none_atoms = [a for a in t.atoms if re.fullmatch(r'\w+ is None', a)]
    in_atoms = [a for a in t.atoms if re.fullmatch(r'\w+ in \w+\[1\]', a)]
    if len(none_atoms) != 1 or len(in_atoms) != 1 or len(t.atoms) != 2:
        raise AnalysisError('C35-TEMPKEY: temps_in_use tests %s; expected one `<freelist> is None` and one `<name> in <freelist>[1]`' % t.atoms)
    for val, marks in t.rows():
        if val[none_atoms[0]] and val[in_atoms[0]]:
            continue          # infeasible: no list to be in
        want = val[none_atoms[0]] or not val[in_atoms[0]]
        r.inst('tempkey:in-use:%s' % sorted(val.items()))
        if ('listed' in marks) != want:
            r.violate('Code.FunctionState.temps_in_use', rel, fn.lineno,
                      'temps_in_use() %s a temp for which %s: %s' % ('omits' if want else 'lists', ', '.join('%s is %s' % kv for kv in sorted(val.items())),
                                                                 'a live temp is not released at `return` / not saved across `yield`' if want else 'a free temp is released again'))
    pc = ast.parse('def f(self):\n    for name in xs:\n        if freelist is not None and name not in freelist[1]:\n            used.append(name)\n').body[0]
    tp = Table(pc.body[0].body, mark_app)
    bad = [v for v, mk in tp.rows() if not (v['freelist is None'] and v['name in freelist[1]']) and ('listed' in mk) != (v['freelist is None'] or not v['name in freelist[1]'])]
    r.positive_control(bool(bad), '`freelist is not None and name not in freelist[1]`')
    return r


# ====================================================================================== C35-TEMPEND (fourth round)
class _Collector:
    """stands in for a Rule when the end-of-life checks run on the embedded positive example"""

    def __init__(self):
        self.found = []

    def inst(self, *a, **k):
        pass

    def violate(self, construct, *a, **k):
        self.found.append(construct)


TEMPEND_POSITIVE = '''
class ExprNode:
    def generate_disposal_code(self, code):
        if self.is_temp:
            if self.result():
                code.put_decref(self.result(), self.ctype())
        else:
            self.generate_subexpr_disposal_code(code)

    def generate_post_assignment_code(self, code):
        if self.is_temp:
            if self.type.is_pyobject:
                code.putln("%s = 0;" % self.result())
            elif self.type.is_memoryviewslice:
                code.putln("%s.memview = NULL;" % self.result())
                code.putln("%s.data = NULL;" % self.result())
        else:
            self.generate_subexpr_disposal_code(code)
'''


def rule_tempend(ctx):
    """End-of-life protocol of a temp result in ExprNode: disposal releases AND clears it, a hand-over (post-assignment) clears it without
    releasing, a borrowed result is not released.  The function-level error label XDECREFs every managed temp, so a temp that is not
    reset when its reference goes away is released twice."""
    ix = ctx.index
    r = Rule('C35-TEMPEND', 'ExprNode.generate_disposal_code / generate_post_assignment_code over (is_temp, use_borrowed_ref, string-like, object / memoryview result): an owned temp is '
                            'released with a clearing decref, a borrowed one is not released, a handed-over object temp is reset to 0 and not released', floor=4)
    cls = ix.cls('ExprNodes', 'ExprNode')
    _tempend_checks(lambda name: ix.find_method(cls, name), r)
    mi = _MiniIndex(ast.parse(TEMPEND_POSITIVE))
    col = _Collector()
    _tempend_checks(lambda name: mi.find_method(mi.c, name), col)
    r.positive_control(col.found == ['ExprNodes.ExprNode.generate_disposal_code:borrowed'] or 'ExprNodes.ExprNode.generate_disposal_code:clear' in col.found or
                       any(c.endswith(':borrowed') or c.endswith(':clear') for c in col.found), 'disposal with a plain put_decref that ignores use_borrowed_ref')
    return r


def _tempend_checks(lookup, r):
    rel = 'Cython/Compiler/ExprNodes.py'

    def paths(name, point):
        got = lookup(name)
        if got is None:
            raise AnalysisError('ExprNode.%s vanished' % name)
        res = Fresh('self.result()')

        def call_oracle(f, a, k):
            if f == 'self.result':
                return res
            return NOTFOUND
        ev = Evaluator(lambda p: point.get(p, NOTFOUND), call_oracle, what='ExprNode.' + name)
        return got[1], res, [p for p in ev.run_function(got[1]) if p.kind != 'raise']

    def releases(events, res):
        return [e.name for e in events if isinstance(e, Call) and RELEASE.match(e.name) and e.args and e.args[0] is res]

    def resets(events, res, field=None):
        out = []
        for e in events:
            if isinstance(e, Call) and e.name in EMIT and e.args and isinstance(e.args[0], Str):
                parts = e.args[0].parts
                for i, p in enumerate(parts[:-1]):
                    if p is res and isinstance(parts[i + 1], str) and re.match(r'^%s\s*=\s*(?:0|NULL)\s*;' % (re.escape('.' + field) if field else ''), parts[i + 1]):
                        out.append(e)
        return out
    base = {'self.has_temp_moved': False, 'self.type.is_string': False, 'self.type.is_pyunicode_ptr': False}
    # ---- disposal
    for borrowed in (False, True):
        point = dict(base, **{'self.is_temp': True, 'self.use_borrowed_ref': borrowed})
        fn, res, ps = paths('generate_disposal_code', point)
        key = 'tempend:disposal:is_temp:%s' % ('borrowed' if borrowed else 'owned')
        r.inst(key, sample='%s: %d paths' % (key, len(ps)))
        for p in ps:
            rel_calls = releases(p.events, res)
            if borrowed and rel_calls:
                r.violate('ExprNodes.ExprNode.generate_disposal_code:borrowed', rel, fn.lineno, 'generate_disposal_code releases (%s) a temp result that only borrows its reference (use_borrowed_ref): '
                          'the owner\'s reference is given away, the object is freed while still referenced' % rel_calls[0])
                break
            if not borrowed and not rel_calls:
                r.violate('ExprNodes.ExprNode.generate_disposal_code:owned', rel, fn.lineno, 'generate_disposal_code does not release the owned temp result of an is_temp node on some path: the reference leaks')
                break
            if not borrowed and any(not n.endswith('_clear') for n in rel_calls):
                r.violate('ExprNodes.ExprNode.generate_disposal_code:clear', rel, fn.lineno, 'generate_disposal_code releases the temp result with %s, which does not reset the variable: the error label of the '
                          'function XDECREFs every managed temp, so a later failure releases the same reference a second time' % rel_calls[0])
                break
    point = dict(base, **{'self.is_temp': False})
    fn, res, ps = paths('generate_disposal_code', point)
    r.inst('tempend:disposal:not-temp')
    if any(releases(p.events, res) for p in ps):
        r.violate('ExprNodes.ExprNode.generate_disposal_code:not-temp', rel, fn.lineno, 'generate_disposal_code releases the result of a node that is not a temp (it does not own a reference)')
    if not all(any(isinstance(e, Call) and e.name == 'generate_subexpr_disposal_code' for e in p.events) for p in ps):
        r.violate('ExprNodes.ExprNode.generate_disposal_code:subexprs', rel, fn.lineno, 'generate_disposal_code of a non-temp node does not dispose of its sub-expressions (they were kept alive for the result): their references leak')
    # ---- post assignment (ownership handed over)
    for kind in ('object', 'memoryview'):
        point = dict(base, **{'self.is_temp': True, 'self.type.is_pyobject': kind == 'object', 'self.type.is_memoryviewslice': kind == 'memoryview'})
        fn, res, ps = paths('generate_post_assignment_code', point)
        key = 'tempend:post-assignment:%s' % kind
        r.inst(key, sample='%s: %d paths' % (key, len(ps)))
        for p in ps:
            if releases(p.events, res):
                r.violate('ExprNodes.ExprNode.generate_post_assignment_code:%s:released' % kind, rel, fn.lineno, 'generate_post_assignment_code releases the temp whose reference was just handed to the assignment target: '
                          'the target is left with a dead reference')
                break
            ok = resets(p.events, res) if kind == 'object' else (resets(p.events, res, 'memview') and resets(p.events, res, 'data'))
            if not ok:
                r.violate('ExprNodes.ExprNode.generate_post_assignment_code:%s:reset' % kind, rel, fn.lineno, 'generate_post_assignment_code does not reset the %s temp after its reference was handed to the assignment target: '
                          'the error label of the function XDECREFs every managed temp, so a later failure releases the reference the target now owns' % kind)
                break


# ====================================================================================== C35-NANNY (fourth round)
REFNANNY = 'Cython/Runtime/refnanny.pyx'


def pyx_function(src, name):
    """A `cdef ... name(args) ...:` function (module level or method) of a .pyx file as a Python FunctionDef: C declarations and casts removed."""
    lines = src.split('\n')
    start = None
    for i, l in enumerate(lines):
        if re.match(r'^\s*cdef\s+[^=]*\b%s\s*\(.*\)\s*(?:except[^:]*|noexcept)?\s*:\s*(?:#.*)?$' % re.escape(name), l):
            start = i
            break
    if start is None:
        raise AnalysisError('C35-NANNY: cdef function %s not found in refnanny.pyx' % name)
    ind = len(lines[start]) - len(lines[start].lstrip())
    params = []
    for a in re.search(r'\((.*)\)', lines[start]).group(1).split(','):
        a = a.split('=')[0].strip()
        if a:
            params.append(re.findall(r'[A-Za-z_]\w*', a)[-1])
    body = []
    for l in lines[start + 1:]:
        if l.strip() and (len(l) - len(l.lstrip())) <= ind:
            break
        body.append(l)

    def clean(l):
        l = re.sub(r'<\s*[A-Za-z_][\w\s\*]*>', '', l)
        l = re.sub(r'\bNULL\b', 'None', l)
        l = re.sub(r'&(\w+)', r'\1', l)
        m = re.match(r'^(\s+)cdef\s+(?:\([^)]*\)|[\w\*]+)\s+(.*)$', l)
        if m:
            rest = m.group(2)
            if '=' in rest and ',' not in rest:
                return m.group(1) + rest
            return m.group(1) + 'pass'
        return l
    text = 'def %s(%s):\n%s\n' % (name, ', '.join(params), '\n'.join(clean(l)[ind:] if l.strip() else '' for l in body))
    try:
        return ast.parse(text).body[0], start + 1
    except SyntaxError as e:
        raise AnalysisError('C35-NANNY: %s of refnanny.pyx is not parsable after removing the C declarations: %s' % (name, e))


class _Ret(Exception):
    def __init__(self, v):
        self.v = v


class NannyInterp:
    """Concrete interpretation of Context.regref / delref on a small model of the reference table: count in {0 (absent), 1, 2, 3}."""

    def __init__(self, count, is_null):
        self.count, self.is_null = count, is_null
        self.stored, self.deleted, self.errors = None, False, 0

    def run(self, fn):
        env = {fn.args.args[0].arg: 'SELF'}
        for a in fn.args.args[1:]:
            env[a.arg] = 'ARG:' + a.arg
        env['is_null'] = self.is_null
        try:
            self.block(fn.body, env)
        except _Ret as rr:
            return rr.v
        return None

    def block(self, stmts, env):
        for s in stmts:
            self.stmt(s, env)

    def ev(self, e, env):
        if isinstance(e, ast.Constant):
            return e.value
        if isinstance(e, ast.Name):
            if e.id in env:
                return env[e.id]
            if e.id == 'NO_REFS':
                return (0, None)
            return 'GLOBAL:' + e.id
        if isinstance(e, ast.Tuple):
            return tuple(self.ev(x, env) for x in e.elts)
        if isinstance(e, ast.List):
            return ['LIST'] if not e.elts else [self.ev(x, env) for x in e.elts]
        if isinstance(e, (ast.JoinedStr,)):
            return 'TEXT'
        if isinstance(e, ast.IfExp):
            return self.ev(e.body if self.truth(e.test, env) else e.orelse, env)
        if isinstance(e, ast.BinOp) and isinstance(e.op, (ast.Add, ast.Sub)):
            a, b = self.ev(e.left, env), self.ev(e.right, env)
            if isinstance(a, int) and isinstance(b, int):
                return a + b if isinstance(e.op, ast.Add) else a - b
            raise AnalysisError('C35-NANNY: arithmetic on %r and %r' % (a, b))
        if isinstance(e, ast.Attribute):
            return '%s.%s' % (self.ev(e.value, env), e.attr)
        if isinstance(e, ast.Call):
            f = e.func
            if isinstance(f, ast.Name) and f.id == 'id':
                return 'ID'
            if isinstance(f, ast.Name) and f.id == 'log':
                return 0
            if isinstance(f, ast.Attribute):
                recv = self.ev(f.value, env)
                if recv == 'SELF.refs' and f.attr == 'get':
                    key = self.ev(e.args[0], env)
                    if key != 'ID':
                        raise AnalysisError('C35-NANNY: reference table read with key %r' % (key,))
                    if self.count == 0:
                        return self.ev(e.args[1], env) if len(e.args) > 1 else None
                    return (self.count, ['LN'])
                if recv == 'SELF.errors' and f.attr == 'append':
                    self.errors += 1
                    return None
                if f.attr == 'append' and isinstance(recv, list):
                    return None
            raise AnalysisError('C35-NANNY: call %s is not modelled' % ast.unparse(e)[:60])
        if isinstance(e, ast.Compare) or isinstance(e, ast.BoolOp) or isinstance(e, ast.UnaryOp):
            return self.truth(e, env)
        raise AnalysisError('C35-NANNY: expression %s is not modelled' % ast.unparse(e)[:60])

    def truth(self, e, env):
        if isinstance(e, ast.UnaryOp) and isinstance(e.op, ast.Not):
            return not self.truth(e.operand, env)
        if isinstance(e, ast.BoolOp):
            vs = [self.truth(v, env) for v in e.values]
            return all(vs) if isinstance(e.op, ast.And) else any(vs)
        if isinstance(e, ast.Compare) and len(e.ops) == 1:
            a, b = self.ev(e.left, env), self.ev(e.comparators[0], env)
            op = e.ops[0]
            if isinstance(op, (ast.Is, ast.IsNot)):
                return (a is b or (a is None and b is None)) == isinstance(op, ast.Is)
            if isinstance(a, int) and isinstance(b, int):
                return {ast.Eq: a == b, ast.NotEq: a != b, ast.Lt: a < b, ast.LtE: a <= b, ast.Gt: a > b, ast.GtE: a >= b}[type(op)]
            raise AnalysisError('C35-NANNY: comparison %s is not modelled' % ast.unparse(e))
        v = self.ev(e, env)
        if isinstance(v, (bool, int)) or v is None:
            return bool(v)
        raise AnalysisError('C35-NANNY: truth of %s is not modelled' % ast.unparse(e))

    def stmt(self, s, env):
        if isinstance(s, ast.Expr):
            self.ev(s.value, env)
        elif isinstance(s, ast.Assign) and len(s.targets) == 1:
            t = s.targets[0]
            v = self.ev(s.value, env)
            if isinstance(t, ast.Name):
                env[t.id] = v
            elif isinstance(t, ast.Tuple) and isinstance(v, tuple) and len(v) == len(t.elts):
                for x, y in zip(t.elts, v):
                    env[x.id] = y
            elif isinstance(t, ast.Subscript) and self.ev(t.value, env) == 'SELF.refs' and self.ev(t.slice, env) == 'ID':
                if not (isinstance(v, tuple) and len(v) == 2 and isinstance(v[0], int)):
                    raise AnalysisError('C35-NANNY: value stored in the reference table is %r' % (v,))
                self.stored = v[0]
            else:
                raise AnalysisError('C35-NANNY: assignment %s is not modelled' % ast.unparse(s)[:60])
        elif isinstance(s, ast.Delete) and len(s.targets) == 1 and isinstance(s.targets[0], ast.Subscript) and self.ev(s.targets[0].value, env) == 'SELF.refs':
            self.deleted = True
        elif isinstance(s, ast.If):
            self.block(s.body if self.truth(s.test, env) else s.orelse, env)
        elif isinstance(s, ast.Return):
            raise _Ret(self.ev(s.value, env) if s.value is not None else None)
        elif isinstance(s, ast.Pass):
            pass
        else:
            raise AnalysisError('C35-NANNY: statement %s is not modelled' % ast.unparse(s)[:60])


def nanny_counter_problems(regref, delref):
    probs, n = [], 0
    for c in (0, 1, 2, 3):
        n += 1
        it = NannyInterp(c, False)
        it.run(regref)
        if it.errors or it.deleted or it.stored != c + 1:
            probs.append(('regref', 'regref of an object held %d time(s) records %s (expected count %d, no error)' % (c, 'a deletion' if it.deleted else 'count %s, %d error(s)' % (it.stored, it.errors), c + 1)))
        n += 1
        it = NannyInterp(c, False)
        ret = it.run(delref)
        after = 0 if it.deleted else (it.stored if it.stored is not None else c)
        if c == 0:
            if ret or not it.errors or it.stored is not None or it.deleted:
                probs.append(('delref', 'delref of an object the context does not hold returns %r with %d error(s): one decref too many must be reported and refused' % (ret, it.errors)))
        elif not ret or it.errors or after != c - 1 or (c - 1 == 0) != it.deleted:
            probs.append(('delref', 'delref of an object held %d time(s) returns %r, leaves count %d (%s), %d error(s); expected True, count %d%s, no error'
                          % (c, ret, after, 'entry deleted' if it.deleted else 'entry kept', it.errors, c - 1, ' and the entry deleted' if c == 1 else '')))
    for name, fn in (('regref', regref), ('delref', delref)):
        n += 1
        it = NannyInterp(1, True)
        ret = it.run(fn)
        if not it.errors or it.stored is not None or it.deleted or (name == 'delref' and ret):
            probs.append((name, '%s of a NULL pointer must record an error, leave the table alone%s' % (name, ' and refuse the decref' if name == 'delref' else '')))
    return n, probs


NANNY_POSITIVE = '''
def delref(self, obj, lineno, is_null):
    if is_null:
        self.errors.append("x")
        return False
    id_ = id(obj)
    count, linenumbers = self.refs.get(id_, NO_REFS)
    if count == 0:
        self.errors.append("y")
        return False
    if count == 1:
        del self.refs[id_]
    else:
        self.refs[id_] = (count, linenumbers)
    return True
'''


def rule_nanny(ctx):
    r = Rule('C35-NANNY', 'reference nanny: Context.regref / delref keep an exact count per object (model: held 0, 1, 2, 3 times, NULL), one decref too many is reported and refused; '
                          'DECREF performs the decref only when delref allowed it, INCREF increfs and registers', floor=12)
    src = ctx.read(REFNANNY)
    regref, l1 = pyx_function(src, 'regref')
    delref, l2 = pyx_function(src, 'delref')
    n, probs = nanny_counter_problems(regref, delref)
    for i in range(n):
        r.inst('nanny:counter:%d' % i)
    seen = set()
    for name, what in probs:
        if name in seen:
            continue
        seen.add(name)
        r.violate('refnanny.Context.%s' % name, REFNANNY, l1 if name == 'regref' else l2, 'refnanny Context.%s: %s — the nanny then reports balanced code as leaking / over-released, or misses a real imbalance' % (name, what))
    # ---- DECREF gate
    dec, l3 = pyx_function(src, 'DECREF')

    def mark(c):
        if isinstance(c.func, ast.Name) and c.func.id in ('Py_XDECREF', 'Py_DECREF', 'Py_CLEAR'):
            return 'decref'
        return None
    t = Table(dec.body, mark)
    gate = [a for a in t.atoms if re.match(r'^GIVEREF_and_report\(', a)]
    r.inst('nanny:DECREF:gate')
    rows = list(t.rows())
    if len(gate) != 1 or any(('decref' in mk) != val[gate[0]] for val, mk in rows):
        r.violate('refnanny.DECREF', REFNANNY, l3, 'refnanny DECREF does not make the real decref depend on the verdict of GIVEREF_and_report(): a decref the nanny has identified as one too many is '
                  'still performed (object freed while referenced), or a legitimate one is skipped')
    inc, l4 = pyx_function(src, 'INCREF')
    names = [c.func.id for c in ast.walk(inc) if isinstance(c, ast.Call) and isinstance(c.func, ast.Name)]
    r.inst('nanny:INCREF')
    if not ({'Py_XINCREF', 'Py_INCREF'} & set(names)) or 'GOTREF' not in names or any(isinstance(x, (ast.If, ast.While, ast.For)) for x in ast.walk(inc)):
        r.violate('refnanny.INCREF', REFNANNY, l4, 'refnanny INCREF must incref the object and register the new reference (GOTREF) unconditionally')
    giv, l5 = pyx_function(src, 'GIVEREF_and_report')
    r.inst('nanny:GIVEREF_and_report')
    rets = [x.value.id for x in ast.walk(giv) if isinstance(x, ast.Return) and isinstance(x.value, ast.Name)]
    from_delref = {t.id for a in ast.walk(giv) if isinstance(a, ast.Assign) and isinstance(a.value, ast.Call) and isinstance(a.value.func, ast.Attribute) and a.value.func.attr == 'delref'
                   for t in a.targets if isinstance(t, ast.Name)}
    init_false = {t.id for a in giv.body if isinstance(a, ast.Assign) and isinstance(a.value, ast.Constant) and a.value.value in (False, 0) for t in a.targets if isinstance(t, ast.Name)}
    final = [x for x in rets if x in from_delref]
    if not final or not set(final) <= init_false:
        r.violate('refnanny.GIVEREF_and_report', REFNANNY, l5, 'GIVEREF_and_report must return the verdict of ctx.delref() (and False when the bookkeeping itself failed)')
    pc = ast.parse(NANNY_POSITIVE).body[0]
    _, pp = nanny_counter_problems(regref, pc)
    r.positive_control(any(nm == 'delref' for nm, _ in pp), 'delref that stores the unchanged count')
    return r
